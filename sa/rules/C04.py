"""C04 Block transactions are bound to the header; mutations are detected, not blamed (DESIGN §3 C04)."""
import re

from sa.engine.api import *
from sa.engine import callgraph
from sa.rules._helpers_A import *

UNITS = ["validation.cpp", "consensus/merkle.cpp", "net_processing.cpp", "blockencodings.cpp", "node/blockstorage.cpp", "node/miner.cpp"]
EXPLANATION = ("LADDER (NECESSARY + result enums) on CheckMerkleRoot and CheckWitnessMalleation: every accepting exit excludes 'header root != "
               "BlockMerkleRoot(block,&mutated)', 'mutated', bad nonce size, commitment mismatch and (when no commitment applies) any transaction with "
               "witness; every rejection there carries BLOCK_MUTATED; the memoisation flags are set only behind the checks and are written by nobody else. "
               "MPT on InvalidBlockFound: BLOCK_FAILED_VALID / candidate-set erase / InvalidChainFound only if result != BLOCK_MUTATED; who-may-write "
               "BLOCK_FAILED_VALID and who-may-call InvalidBlockFound over the whole program; ProcessNewBlock reaches AcceptBlock only past CheckBlock's true edge and its "
               "false edge reaches no failure-marking function (call-graph region). MPT on CheckBlock (accept and every transaction-content rejection lie behind CheckMerkleRoot), "
               "ContextualCheckBlock (weight rung and accept lie behind CheckWitnessMalleation(block, segwit-active-after-prev)), the peer BLOCK handler "
               "(ProcessBlock only for blocks that are not IsBlockMutated; the mutated edge punishes and returns) and compact-block FillBlock. "
               "Structure of ComputeMerkleRoot (equal-pair scan with stride 2 before the odd-level duplication, result stored through *mutated), "
               "BlockMerkleRoot / BlockWitnessMerkleRoot leaf lists, GetWitnessCommitmentIndex pattern, IsBlockMutated as a decision formula.")
ASSUMPTIONS = ["SHA256D64 / CHash256 compute double-SHA256 (library atoms)", "uint256 operator== / memcmp compare all 32 bytes",
               "std::any_of is true iff the predicate holds for some element"]
CLAIM = dict(
    technique="static analysis: reject-ladder conformance with result enums, must-pass-through guard implication, who-may-write over the call graph, "
              "structural order inside the merkle level loop",
    text="Decides for all paths: a block passes CheckBlock/ContextualCheckBlock only through the merkle-root and witness-commitment comparisons; every "
         "malleation outcome is reported as BLOCK_MUTATED; Chainstate::InvalidBlockFound never marks a block index entry for a BLOCK_MUTATED result and no other "
         "function writes BLOCK_FAILED_VALID outside the four listed ones; the P2P and compact-block paths drop mutated blocks before validation; the CVE-2012-2459 "
         "scan in ComputeMerkleRoot has the required shape and order.",
    note="Not decided: numeric agreement of merkle roots/paths with a reference (TransactionMerklePath is not analysed); the BLOCK_MUTATED handling inside "
         "ActivateBestChainStep (degraded function). Who-may-call InvalidBlockFound and the ProcessNewBlock CheckBlock-false edge are decided (a block failing the "
         "context-free check is never marked). CheckBlock's signet rung (bad-signet-blksig, BLOCK_CONSENSUS) precedes the merkle rung in the code; it is "
         "exempted from the 'merkle first' obligation and reported in the evidence notes (CheckBlock failures are not marked because ProcessNewBlock runs CheckBlock "
         "before AcceptBlock).",
    ref="DESIGN.md §3 C04")

MUT = "BlockValidationResult::BLOCK_MUTATED"
STACK = r"(?:const std::vector<std::vector<unsigned char>>\{)?block\.vtx\[0\]\.vin\[0\]\.scriptWitness\.stack\}?"
FAILED_WRITERS = {"Chainstate::InvalidBlockFound", "Chainstate::InvalidateBlock", "Chainstate::SetBlockFailureFlags", "node::BlockManager::LoadBlockIndex"}


def check(ctx):
    P = ctx.program(UNITS)
    consts(ctx, P)
    merkle_root_ladder(ctx, P)
    witness_ladder(ctx, P)
    commitment_index(ctx, P)
    invalid_block_found(ctx, P)
    process_new_block(ctx, P)
    check_block(ctx, P)
    contextual(ctx, P)
    compute_merkle_root(ctx, P)
    leaves(ctx, P)
    is_block_mutated(ctx, P)
    p2p(ctx, P)


def consts(ctx, P):
    v = P.const("NO_WITNESS_COMMITMENT")
    ctx.ob("const/NO_WITNESS_COMMITMENT", "CONST", "NO_WITNESS_COMMITMENT == -1", v == -1, None, {"value": v})
    v = P.const("MINIMUM_WITNESS_COMMITMENT")
    ctx.ob("const/MINIMUM_WITNESS_COMMITMENT", "CONST", "MINIMUM_WITNESS_COMMITMENT == 38 (6-byte header + 32-byte commitment)", v == 38, None, {"value": v})
    en = dict((v[0], v[1]) for v in P.enum("BlockStatus")["values"])
    ctx.ob("const/BLOCK_FAILED_VALID", "CONST", "BLOCK_FAILED_VALID == 32 and is distinct from every other BlockStatus bit",
           en.get("BLOCK_FAILED_VALID") == 32, None, {"value": en.get("BLOCK_FAILED_VALID")})


# ---------------------------------------------------------------------------------------------- CheckMerkleRoot
def merkle_root_ladder(ctx, P):
    f = ctx.used(P.fn("CheckMerkleRoot"))
    calls = sites(f, call_to("BlockMerkleRoot"), P)
    if len(calls) != 1:
        raise AnalysisBroken("CheckMerkleRoot: expected exactly one BlockMerkleRoot call")
    a = call_args(calls[0].expr)
    flag = a[1][2][1] if len(a) >= 2 and match(["u", "&", ["local", ANY]], a[1]) else None
    ok = flag is not None and match(["param", "block"], a[0])
    ctx.ob("CheckMerkleRoot/root-args", "PROVENANCE", "CheckMerkleRoot computes BlockMerkleRoot(block, &<local mutation flag>) of the block being checked", ok,
           calls[0].where, {"args": [show(x) for x in a]})
    if not ok:
        return
    subst = full_subst(f, P, keep=(flag,))
    atoms = {"CACHED": "block.m_checked_merkle_root",
             "MISMATCH": [("block.hashMerkleRoot == BlockMerkleRoot(block, &%s)" % flag, False), ("BlockMerkleRoot(block, &%s) == block.hashMerkleRoot" % flag, False)],
             "MUTFLAG": flag}
    ex = exits(f, P, subst)
    acc = [e for e in ex if is_true_ret(e)]
    ctx.floor("CheckMerkleRoot accepting exits", len(acc), 1)
    check_excludes(ctx, f, P, acc, "!CACHED && MISMATCH", atoms, "CheckMerkleRoot/rung:bad-txnmrklroot", "merkle root mismatch is never accepted")
    check_excludes(ctx, f, P, acc, "!CACHED && MUTFLAG", atoms, "CheckMerkleRoot/rung:bad-txns-duplicate", "a duplicated-tail (CVE-2012-2459) list is never accepted")
    check_results(ctx, f, P, {"bad-txnmrklroot": MUT, "bad-txns-duplicate": MUT}, ex=ex)
    # exits other than `return true` / `return state.Invalid(..)` would be unknown idioms
    other = [e for e in ex if not is_true_ret(e) and not invalid_call(e.value)]
    ctx.ob("CheckMerkleRoot/exits", "LADDER", "CheckMerkleRoot exits only by `return true` or `return state.Invalid(..)`", not other, f.where)
    # the mutation flag is written only by BlockMerkleRoot
    wr = [w for w in writes_to_local(f, flag) if w[1] != "&"]
    ctx.ob("CheckMerkleRoot/flag-writes", "PROVENANCE", "the mutation flag tested by CheckMerkleRoot is written only through BlockMerkleRoot's out-parameter", not wr, f.where,
           {"writes": [(l, op) for l, op, _ in wr]} if wr else None)
    # memoisation
    n = check_guard(ctx, f, P, lambda e: match(["b", "=", [".", ANY, "CBlock::m_checked_merkle_root"], ["bool", True]], e), "!MISMATCH && !MUTFLAG", atoms,
                    "CheckMerkleRoot/memo", "m_checked_merkle_root is set only after both merkle checks passed", subst=subst)
    who_writes_flag(ctx, P, "CBlock::m_checked_merkle_root", "CheckMerkleRoot")


def who_writes_flag(ctx, P, field, owner):
    cg = callgraph.load_all()
    ws = sorted({w[0] for w in cg.writers(field)})
    allowed = {"CBlock::CBlock", "CBlock::SetNull", owner, "node::AddMerkleRootAndCoinbase"}
    ok = set(ws) <= allowed and owner in ws
    ctx.ob("who-writes/%s" % field.split("::")[-1], "WHO-MAY-WRITE", "%s is written only by %s (set) and by CBlock's constructor/SetNull and the miner's "
           "AddMerkleRootAndCoinbase (reset)" % (field, owner), ok, None, {"writers": ws})
    # the resetters write `false`
    for q in ws:
        if q in (owner, "CBlock::CBlock"):
            continue
        for fn in P.fns(q):
            for s in sites(fn, lambda e: match(["b", "=", [".", ANY, field]], e), P):
                v = s.expr[3]
                okv = match(["bool", False], v)
                ctx.ob("who-writes/%s/%s@L%s" % (field.split("::")[-1], q, s.line), "WHO-MAY-WRITE", "%s only resets %s to false" % (q, field), okv, s.where,
                       None if okv else {"value": show(v)})


# ---------------------------------------------------------------------------------------------- CheckWitnessMalleation
def witness_ladder(ctx, P):
    f = ctx.used(P.fn("CheckWitnessMalleation"))
    idx = r"GetWitnessCommitmentIndex\(block\)"
    cmp_rx = re.compile(r"memcmp\((\w+)\.begin\(\), &block\.vtx\[0\]\.vout\[" + idx + r"\]\.scriptPubKey\[6\], 32\)")
    atoms = {"EXPECT": "expect_witness_commitment", "CACHED": "block.m_checked_witness_commitment",
             "NOCOMMIT": "GetWitnessCommitmentIndex(block) == -1",
             "ONE": re.compile(STACK + r"\.size\(\) == 1"), "SZ32": re.compile(STACK + r"\[0\]\.size\(\) == 32"),
             "DIFF": cmp_rx, "HASWIT": "each(block.vtx).HasWitness()"}
    rungs = [
        Rung("bad-witness-nonce-size", "EXPECT && !CACHED && !NOCOMMIT && (!ONE || !SZ32)", atoms, result=MUT),
        Rung("bad-witness-merkle-match", "EXPECT && !CACHED && !NOCOMMIT && DIFF", atoms, result=MUT),
    ]
    ex = check_ladder(ctx, f, P, rungs, is_accept=is_true_ret, mode="NECESSARY")
    acc = [e for e in ex if is_true_ret(e)]
    check_loop_rung(ctx, f, P, "unexpected-witness", "HASWIT", atoms, r"each\(block\.vtx\)", acc, [e for e in ex if not is_true_ret(e)],
                    when="!EXPECT || (!CACHED && NOCOMMIT)")
    ctx.floor("CheckWitnessMalleation exits", len(ex), 6)
    check_results(ctx, f, P, {"bad-witness-nonce-size": MUT, "bad-witness-merkle-match": MUT, "unexpected-witness": MUT}, ex=ex)
    other = [e for e in ex if not is_true_ret(e) and not invalid_call(e.value)]
    ctx.ob("CheckWitnessMalleation/exits", "LADDER", "CheckWitnessMalleation exits only by `return true` or `return state.Invalid(..)`", not other, f.where)
    check_guard(ctx, f, P, lambda e: match(["b", "=", [".", ANY, "CBlock::m_checked_witness_commitment"], ["bool", True]], e),
                "EXPECT && !NOCOMMIT && ONE && SZ32 && !DIFF", atoms, "CheckWitnessMalleation/memo",
                "m_checked_witness_commitment is set only after the nonce-size and commitment checks passed")
    who_writes_flag(ctx, P, "CBlock::m_checked_witness_commitment", "CheckWitnessMalleation")
    # what is compared: H(BlockWitnessMerkleRoot(block) || nonce) against the commitment bytes
    subst = naming(f, P)
    cmps = sites(f, call_to("memcmp"), P)
    fins = sites(f, call_to("CHash256::Finalize"), P)
    ok, detail = False, {}
    if len(cmps) == 1 and len(fins) == 1:
        m = cmp_rx.fullmatch(F.key(F.expand(cmps[0].expr, subst)))
        h = m.group(1) if m else None
        d = decl_of(f, h) if h else None
        writes = []
        x = fins[0].expr
        fin_arg = call_args(x)
        obj = call_obj(x)
        while is_expr(obj) and obj[0] in ("mcall",) and obj[1] == "CHash256::Write":
            writes.insert(0, call_args(obj)[0])
            obj = call_obj(obj)
        stack0 = re.compile(STACK + r"\[0\]")
        detail = {"hash_local": h, "init": show(d.get("i")) if d else None, "writes": [show(w) for w in writes], "finalize": [show(a) for a in fin_arg],
                  "chain_base": show(obj) if is_expr(obj) else None}
        ok = (h is not None and d is not None and is_call_to("BlockWitnessMerkleRoot", d.get("i")) and match(["param", "block"], call_args(d["i"])[0])
              and len(writes) == 2 and contains(["local", h], writes[0]) and any(stack0.fullmatch(F.key(F.expand(z, subst))) for z in subexprs(writes[1]))
              and len(fin_arg) == 1 and contains(["local", h], fin_arg[0]) and is_expr(obj) and obj[0] == "ctor"
              and fins[0].line < cmps[0].line and [w for w in writes_to_local(f, h) if w[1] != "&"] == [])
    ctx.ob("CheckWitnessMalleation/commitment-hash", "PROVENANCE",
           "the value compared with the coinbase commitment is SHA256d(BlockWitnessMerkleRoot(block) || coinbase witness nonce), finalised before the comparison",
           ok, f.where, detail)


def commitment_index(ctx, P):
    f = ctx.used(P.fn("GetWitnessCommitmentIndex"))
    subst = naming(f, P)
    ws = [s for s in sites(f, lambda e: e[0] == "b" and e[1] in ASSIGN_OPS and is_expr(e[2]) and e[2][0] == "local", P)]
    ret = [e for e in exits(f, P, subst)]
    res = show(ret[0].value) if len(ret) == 1 and is_expr(ret[0].value) and ret[0].value[0] == "local" else None
    ws = [s for s in ws if s.expr[2][1] == res]
    d = decl_of(f, res) if res else None
    ok0 = res is not None and d is not None and match(["int", -1], d.get("i")) and len(ws) == 1
    ctx.ob("GetWitnessCommitmentIndex/shape", "TWIN", "GetWitnessCommitmentIndex returns a local that starts as NO_WITNESS_COMMITMENT and has a single assignment",
           ok0, f.where, {"result": res, "assignments": [s.line for s in ws]})
    if not ok0:
        return
    s = ws[0]
    lp = s.loops[-1] if s.loops else None
    info = loop_info(f, lp, subst) if lp is not None else dict(kind="other", ranges=[], var=None, start=None, complete=False, cond=None)
    var = info["var"]
    el = elem_rx(info)
    spk = el + r"\.scriptPubKey"
    atoms = {"NONEMPTY": ("block.vtx.empty()", False),
             "LEN": (re.compile(spk + r"\.size\(\) < 38"), False), "B0": re.compile(spk + r"\[0\] == OP_RETURN"), "B1": re.compile(spk + r"\[1\] == 36"),
             "B2": re.compile(spk + r"\[2\] == 170"), "B3": re.compile(spk + r"\[3\] == 33"), "B4": re.compile(spk + r"\[4\] == 169"),
             "B5": re.compile(spk + r"\[5\] == 237")}
    # the function returns a *position*, so the scan is a counting loop; its element may be spelled vout[o] or each(vout)
    okl = (lp is not None and len(s.loops) == 1 and info["kind"] == "index" and info["start"] == "0" and "block.vtx[0].vout" in info["ranges"] and info["complete"]
           and match(["local", var], s.expr[3]) and s.expr[1] == "=")
    ctx.ob("GetWitnessCommitmentIndex/loop", "TWIN", "the commitment index is the *last* matching coinbase output: a complete break-free scan o = 0 .. vout.size()-1 assigning o",
           okl, s.where, {"loop": [info["kind"], var, info["start"], info["ranges"]], "assigned": show(s.expr)})
    check_equiv(ctx, drop_loop_conds(own_formula(s, subst), [info]), "NONEMPTY && LEN && B0 && B1 && B2 && B3 && B4 && B5", atoms, "GetWitnessCommitmentIndex/pattern", "TWIN",
                "an output is a witness commitment exactly when its script has >= 38 bytes and starts with OP_RETURN 0x24 0xaa 0x21 0xa9 0xed", s.where)


# ---------------------------------------------------------------------------------------------- not blamed
def invalid_block_found(ctx, P):
    f = ctx.used(P.fn("Chainstate::InvalidBlockFound"))
    atoms = {"MUTATED": "state.GetResult() == BlockValidationResult::BLOCK_MUTATED"}
    n = 0
    n += len(check_guard(ctx, f, P, lambda e: e[0] == "b" and e[1] in ASSIGN_OPS and match([".", ANY, "CBlockIndex::nStatus"], e[2]), "!MUTATED", atoms,
                         "InvalidBlockFound/nStatus", "the block index status is changed only for results other than BLOCK_MUTATED"))
    n += len(check_guard(ctx, f, P, lambda e: e[0] == "mcall" and e[1].endswith("::erase") and contains([".", ANY, "Chainstate::setBlockIndexCandidates"], e[2]),
                         "!MUTATED", atoms, "InvalidBlockFound/candidates", "the block leaves setBlockIndexCandidates only for results other than BLOCK_MUTATED"))
    n += len(check_guard(ctx, f, P, call_to("Chainstate::InvalidChainFound"), "!MUTATED", atoms, "InvalidBlockFound/InvalidChainFound",
                         "InvalidChainFound is reached only for results other than BLOCK_MUTATED"))
    ctx.floor("InvalidBlockFound effects", n, 3)
    # the state inspected is the caller's validation state of that block
    for q, producer in (("ChainstateManager::AcceptBlock", ("CheckBlock", "ContextualCheckBlock")), ("Chainstate::ConnectTip", ("Chainstate::ConnectBlock",))):
        g = ctx.used(P.fn(q))
        ss = sites(g, call_to("Chainstate::InvalidBlockFound"), P)
        ctx.floor("%s -> InvalidBlockFound" % q, len(ss), 1)
        for s in ss:
            st = call_args(s.expr)[1]
            srcs = [x for pq in producer for x in sites(g, call_to(pq), P)]
            same = bool(srcs) and all(any(F.key(a) == F.key(st) for a in call_args(x.expr)) for x in srcs)
            ctx.ob("%s/state@L%s" % (q.split("::")[-1], s.line), "PROVENANCE",
                   "%s hands InvalidBlockFound the same validation state object that %s filled" % (q, "/".join(producer)), same, s.where, {"state": show(st)})
    # who may write BLOCK_FAILED_VALID
    cg = callgraph.load_all()
    found = {}
    for q, file, lines in cg.writers("CBlockIndex::nStatus"):
        for fn in _fns_anywhere(ctx, P, q, file):
            for s in sites(fn, lambda e: e[0] == "b" and e[1] in ("=", "|=", "^=", "+=") and match([".", ANY, "CBlockIndex::nStatus"], e[2])
                           and contains(["enum", "BLOCK_FAILED_VALID"], e[3]) and not _only_masked(e[3]), P):
                found.setdefault(q, []).append(s.where)
    ok = set(found) <= FAILED_WRITERS and "Chainstate::InvalidBlockFound" in found
    ctx.ob("who-writes/BLOCK_FAILED_VALID", "WHO-MAY-WRITE", "BLOCK_FAILED_VALID is set in CBlockIndex::nStatus only by %s" % sorted(FAILED_WRITERS), ok, None,
           {"writers": {k: v for k, v in sorted(found.items())}})


def failure_targets(ctx, P, cg):
    """Functions that mark a block index entry failed: InvalidBlockFound / InvalidChainFound and every writer of BLOCK_FAILED_VALID."""
    t = {"Chainstate::InvalidBlockFound", "Chainstate::InvalidChainFound"} | set(FAILED_WRITERS)
    for q, file, lines in cg.writers("CBlockIndex::nStatus"):
        for fn in _fns_anywhere(ctx, P, q, file):
            if sites(fn, lambda e: e[0] == "b" and e[1] in ("=", "|=", "^=", "+=") and match([".", ANY, "CBlockIndex::nStatus"], e[2])
                     and contains(["enum", "BLOCK_FAILED_VALID"], e[3]) and not _only_masked(e[3]), P):
                t.add(q)
    return t


def process_new_block(ctx, P):
    """A block whose context-free check fails is never marked: who may call InvalidBlockFound, and in ProcessNewBlock AcceptBlock (the only
    marking path for received blocks) lies behind the true edge of CheckBlock while nothing on the false edge reaches a failure-marking function."""
    cg = callgraph.load_all()
    callers = sorted({c[0] for c in cg.call_sites("Chainstate::InvalidBlockFound")})
    ok = set(callers) <= {"ChainstateManager::AcceptBlock", "Chainstate::ConnectTip"} and "ChainstateManager::AcceptBlock" in callers
    ctx.ob("who-calls/InvalidBlockFound", "WHO-MAY-CALL", "Chainstate::InvalidBlockFound is called only from ChainstateManager::AcceptBlock (after CheckBlock and ContextualCheckBlock) and "
           "Chainstate::ConnectTip (after ConnectBlock)", ok, None, {"callers": callers})
    f = ctx.used(P.fn("ChainstateManager::ProcessNewBlock"))
    subst = naming(f, P)
    acc = sites(f, call_to("ChainstateManager::AcceptBlock"), P)
    cbs = [st for st in stmts(f.body) if st.get("k") == "decl" and is_call_to("CheckBlock", st.get("i"))]
    if len(acc) != 1 or len(cbs) != 1:
        raise AnalysisBroken("ProcessNewBlock: expected `bool r = CheckBlock(..)` and exactly one AcceptBlock call (idiom changed)")
    d, a = cbs[0], acc[0]
    r = d["n"]
    args = call_args(d["i"])
    okargs = len(args) >= 3 and show(args[0]) in ("*block", "block") and match(["local", ANY], args[1]) and \
        all(match(["defarg", ["bool", True]], x) or match(["bool", True], x) for x in args[3:])
    aargs = call_args(a.expr)
    okargs = okargs and len(aargs) >= 2 and F.key(aargs[1]) == F.key(args[1]) and contains(["param", "block"], aargs[0])
    ctx.ob("ProcessNewBlock/CheckBlock-args", "PROVENANCE", "ProcessNewBlock runs the full CheckBlock (PoW and merkle root) on the received block with the state later given to AcceptBlock",
           okargs, "%s:%s" % (f.file, d.get("l")), {"args": [show(x) for x in args]})
    # the test that guards AcceptBlock reads the CheckBlock result: every other write to the flag happens inside the guarded branch
    gs = [g for g in a.guards if g.kind == "if" and g.pol and is_expr(g.expr) and match(["local", r], g.expr)]
    guard_if = None
    if gs:
        ifs = [st for st in stmts(f.body) if st.get("k") == "if" and st.get("c") is gs[0].expr]
        guard_if = ifs[0] if len(ifs) == 1 else None
    inside = lambda line: guard_if is not None and isinstance(guard_if.get("t"), dict) and guard_if["t"].get("l", 0) <= (line or 0) <= max_line(guard_if["t"])
    ws = writes_to_local(f, r)
    okg = guard_if is not None and not a.loops and all(inside(w[0]) for w in ws) and (d.get("l") or 0) < (guard_if.get("l") or 0)
    ctx.ob("ProcessNewBlock/AcceptBlock-behind-CheckBlock", "MPT", "AcceptBlock is reached only past the true edge of CheckBlock(*block, state, ..): it sits in `if (<CheckBlock result>)` "
           "and the result flag is not rewritten before that test", okg, a.where, {"flag": r, "writes": [(w[0], w[1]) for w in ws]})
    if guard_if is None:
        return
    # the enclosing block: everything but the guarded branch is (conservatively) the CheckBlock-false edge
    blocks = [st for st in stmts(f.body) if st.get("k") == "seq" and any(x is d for x in st.get("s", []))]
    if len(blocks) != 1:
        raise AnalysisBroken("ProcessNewBlock: block enclosing the CheckBlock call not found")
    blk = blocks[0]
    after = blk["s"][[i for i, x in enumerate(blk["s"]) if x is d][0] + 1:]
    region = []
    for st in after:
        if st is guard_if:
            if st.get("e") is not None:
                region.append(st["e"])
        else:
            region.append(st)
    calls = callgraph.region_calls(region)
    starts = set(calls)
    for c, ls in calls.items():
        if any(v for _, v in ls):
            starts |= cg.overriders.get(c, set())
    seen = cg.reach(starts)
    targets = failure_targets(ctx, P, cg)
    hit = sorted(t for t in targets if t in seen)
    direct = [st.get("l") for x in region for st, e in all_exprs(x) for y in subexprs(e) if y[0] == "b" and y[1] in ASSIGN_OPS and match([".", ANY, "CBlockIndex::nStatus"], y[2])]
    ctx.ob("ProcessNewBlock/false-edge-marks-nothing", "CALLGRAPH", "on the CheckBlock-false edge of ProcessNewBlock no call path reaches InvalidBlockFound, InvalidChainFound or any function "
           "that sets BLOCK_FAILED_VALID, and nStatus is not written (a block failing the context-free check - e.g. a malleated variant - is never marked)", not hit and not direct,
           "%s:%s" % (f.file, guard_if.get("l")), {"reached": hit, "path": cg.path(seen, hit[0]) if hit else None, "region_calls": sorted(calls)[:40], "direct_nStatus_writes": direct})
    # nothing behind the block runs on the false edge: the block is left (return) unless the flag is true
    from sa.engine.paths import post_formula
    post = post_formula(blk, subst)
    okp = F.implies(post, F.atom(r))
    ctx.ob("ProcessNewBlock/false-edge-returns", "MPT", "ProcessNewBlock continues past the locked block (ActivateBestChain) only if the CheckBlock/AcceptBlock flag is true", okp,
           "%s:%s" % (f.file, blk.get("l")), None if okp else {"post": F.fshow(post)[:600]})


def _only_masked(rhs):
    """True if BLOCK_FAILED_VALID occurs in rhs only under a bitwise-not (a clearing mask)."""
    def walk(e, neg):
        if not is_expr(e):
            return True
        if e[0] == "enum" and e[1] == "BLOCK_FAILED_VALID":
            return neg
        if e[0] == "u" and e[1] == "~":
            return walk(e[2], True)
        return all(walk(x, neg) for x in e[1:] if is_expr(x))
    return walk(rhs, False)


def _fns_anywhere(ctx, P, q, file):
    fs = P.fns(q)
    if fs:
        return fs
    rel = file.split("/src/", 1)[-1]
    if rel.endswith(".cpp"):
        return ctx.program([rel]).fns(q)
    return []


# ---------------------------------------------------------------------------------------------- CheckBlock / ContextualCheckBlock
def check_block(ctx, P):
    f = ctx.used(P.fn("CheckBlock"))
    atoms = {"FCHECKED": "block.fChecked", "FCMR": "fCheckMerkleRoot", "CMR": "CheckMerkleRoot(block, state)"}
    ex = exits(f, P)
    acc = [e for e in ex if is_true_ret(e)]
    ctx.floor("CheckBlock accepting exits", len(acc), 1)
    check_excludes(ctx, f, P, acc, "!FCHECKED && FCMR && !CMR", atoms, "CheckBlock/accept-through-merkle",
                   "CheckBlock accepts (when merkle checking is requested and not memoised) only through the true edge of CheckMerkleRoot")
    content = []
    for e in ex:
        ic = invalid_call(e.value)
        if ic and ic[1] != "bad-signet-blksig":
            content.append(e)
        elif ic:
            ctx.note("CheckBlock rung '%s' (%s) at line %s precedes the merkle check; exempted (header-level signet signature rule)" % (ic[1], ic[0], e.line))
    ctx.floor("CheckBlock transaction-content rungs", len(content), 5)
    check_excludes(ctx, f, P, content, "FCMR && !CMR", atoms, "CheckBlock/merkle-first",
                   "every transaction-content rejection of CheckBlock lies behind the merkle check (a mutated block is not blamed for its contents)", rule="ORDER")
    check_guard(ctx, f, P, lambda e: match(["b", "=", [".", ANY, "CBlock::fChecked"], ["bool", True]], e), "FCMR && CMR", atoms,
                "CheckBlock/memo", "block.fChecked is set only if the merkle root was checked in this call")
    cg = callgraph.load_all()
    ws = sorted({w[0] for w in cg.writers("CBlock::fChecked")})
    ctx.ob("who-writes/fChecked", "WHO-MAY-WRITE", "CBlock::fChecked is written only by CheckBlock (set) and CBlock::SetNull / AddMerkleRootAndCoinbase (reset)",
           set(ws) <= {"CBlock::CBlock", "CBlock::SetNull", "CheckBlock", "node::AddMerkleRootAndCoinbase"}, None, {"writers": ws})
    for q in ws:
        if q in ("CheckBlock", "CBlock::CBlock"):
            continue
        for fn in P.fns(q):
            for s in sites(fn, lambda e: match(["b", "=", [".", ANY, "CBlock::fChecked"]], e), P):
                okv = match(["bool", False], s.expr[3])
                ctx.ob("who-writes/fChecked/%s@L%s" % (q, s.line), "WHO-MAY-WRITE", "%s only resets CBlock::fChecked to false" % q, okv, s.where)
    # the argument of CheckMerkleRoot is the block itself
    for s in sites(f, call_to("CheckMerkleRoot"), P):
        a = call_args(s.expr)
        ctx.ob("CheckBlock/merkle-args@L%s" % s.line, "PROVENANCE", "CheckBlock passes its own block and state to CheckMerkleRoot",
               match(["param", "block"], a[0]) and match(["param", "state"], a[1]), s.where)


def contextual(ctx, P):
    f = ctx.used(P.fn("ContextualCheckBlock"))
    cwm = re.compile(r"CheckWitnessMalleation\(block, DeploymentActiveAfter\(pindexPrev, chainman, Consensus::DEPLOYMENT_SEGWIT\), state\)")
    atoms = {"CWM": cwm}
    ex = exits(f, P)
    acc = [e for e in ex if is_true_ret(e)]
    ctx.floor("ContextualCheckBlock accepting exits", len(acc), 1)
    check_excludes(ctx, f, P, acc, "!CWM", atoms, "ContextualCheckBlock/accept-through-witness-check",
                   "ContextualCheckBlock accepts only through the true edge of CheckWitnessMalleation(block, segwit active after pindexPrev, state)")
    wt = [e for e in ex if (invalid_call(e.value) or (None, None))[1] == "bad-blk-weight"]
    ctx.floor("ContextualCheckBlock weight rung", len(wt), 1)
    check_excludes(ctx, f, P, wt, "!CWM", atoms, "ContextualCheckBlock/witness-check-before-weight",
                   "the weight rejection (which depends on witness data) lies behind the witness malleation check", rule="ORDER")
    # no other use of witness data before the malleation check: GetBlockWeight only behind it
    check_guard(ctx, f, P, call_to("GetBlockWeight"), "CWM", atoms, "ContextualCheckBlock/GetBlockWeight", "GetBlockWeight(block) is evaluated only behind the witness malleation check")


# ---------------------------------------------------------------------------------------------- merkle computation
def compute_merkle_root(ctx, P):
    f = ctx.used(P.fn("ComputeMerkleRoot"))
    subst = naming(f, P)
    eqs = sites(f, lambda e: e[0] == "b" and e[1] == "==" and len(e) > 4 and e[4] == "base_blob::operator==", P)
    sets = sites(f, lambda e: match(["b", "=", ["local", ANY], ["bool", True]], e), P)
    stores = sites(f, lambda e: match(["b", "=", ["u", "*", ["param", "mutated"]], ANY], e), P)
    if len(eqs) != 1 or len(sets) != 1 or len(stores) != 1:
        raise AnalysisBroken("ComputeMerkleRoot: expected one hash comparison, one flag set and one store through *mutated (found %d/%d/%d)" % (len(eqs), len(sets), len(stores)))
    s = sets[0]
    flag = s.expr[2][1]
    # shape of the scan
    lp = s.loops[-1] if len(s.loops) == 2 else None
    wl = s.loops[0] if len(s.loops) == 2 else None
    shape = for_shape(lp, subst) if lp is not None and lp.get("k") == "for" else None
    var = shape[0] if shape else None
    okshape = (shape is not None and shape[1] == "0" and shape[2] == "1 + %s < hashes.size()" % var and shape[3] == "%s += 2" % var
               and wl.get("k") == "while" and F.fshow(F.to_formula(wl.get("c"), subst)) == "!(hashes.size() < 2)" and not has_break(lp.get("b")) and not has_break(wl.get("b"))
               and writes_to_local(f, var) == [(lp.get("l"), "+=", ["int", 2])])
    ctx.ob("ComputeMerkleRoot/scan-shape", "TWIN", "on every level (while size > 1) the pair scan runs pos = 0, 2, 4, .. while pos + 1 < size, without break",
           okshape, s.where, {"for": shape, "while": F.fshow(F.to_formula(wl.get("c"), subst)) if wl else None})
    atoms = {"LEVEL": ("hashes.size() < 2", False), "WANT": "mutated", "INRANGE": "1 + %s < hashes.size()" % var,
             "EQ": ["hashes[%s] == hashes[1 + %s]" % (var, var), "hashes[1 + %s] == hashes[%s]" % (var, var)]}
    check_equiv(ctx, own_formula(s, subst), "LEVEL && WANT && INRANGE && EQ", atoms, "ComputeMerkleRoot/scan-cond", "TWIN",
                "the mutation flag is raised exactly when (a mutation report is requested and) hashes[pos] == hashes[pos+1] for an even pos in range", s.where)
    # flag: starts false, raised only there, stored through *mutated after the level loop
    d = decl_of(f, flag)
    wr = writes_to_local(f, flag)
    st = stores[0]
    okflag = (d is not None and match(["bool", False], d.get("i")) and len(wr) == 1 and match(["local", flag], st.expr[3]) and not st.loops
              and F.implies(st.formula(subst), F.atom("done(loop@%s)" % wl.get("l"))) if wl else False)
    ctx.ob("ComputeMerkleRoot/flag", "PROVENANCE", "*mutated receives a flag that starts false, is only ever raised by the pair scan, and is stored after the level loop finished",
           bool(okflag), st.where, {"flag": flag, "writes": [(l, op) for l, op, _ in wr]})
    check_equiv(ctx, own_formula(st, subst), "WANT", atoms, "ComputeMerkleRoot/store-cond", "TWIN", "the result is stored whenever the caller asked for it (mutated != nullptr)", st.where)
    # ORDER inside the level loop: scan, then odd duplication, then hashing, then halving
    body = wl.get("b") if wl else {}
    i_scan = index_in(body, lambda x: x is eqs[0].expr)
    i_dup = index_in(body, lambda x: x[0] == "mcall" and x[1] == "std::vector::push_back" and match(["param", "hashes"], x[2]))
    i_hash = index_in(body, lambda x: is_call_to("SHA256D64", x))
    i_half = index_in(body, lambda x: x[0] == "mcall" and x[1] == "std::vector::resize" and match(["param", "hashes"], x[2]))
    ok = len(i_scan) == 1 and len(i_dup) == 1 and len(i_hash) == 1 and len(i_half) == 1 and i_scan[0] < i_dup[0] < i_hash[0] < i_half[0]
    ctx.ob("ComputeMerkleRoot/order", "ORDER", "in each level the equal-pair scan precedes the odd-length duplication push_back(hashes.back()), which precedes SHA256D64 "
           "and the halving resize (scanning after the duplication would flag every odd level)", ok, "%s:%s" % (f.file, wl.get("l") if wl else f.d.get("l")),
           {"scan": i_scan, "dup": i_dup, "hash": i_hash, "halve": i_half})
    # duplication condition and operand
    dups = sites(f, lambda x: x[0] == "mcall" and x[1] == "std::vector::push_back" and match(["param", "hashes"], x[2]), P)
    for dsite in dups:
        arg = call_args(dsite.expr)[0]
        okd = match(["mcall", "std::vector::back", ["param", "hashes"]], arg)
        f_ = own_formula(dsite, subst)
        okc = F.equivalent(*[F.bind_atoms(x, {"LEVEL": ("hashes.size() < 2", False), "ODD": ["1 & hashes.size()", "hashes.size() & 1"]})[0]
                             for x in (f_,)] + [F.parse("LEVEL && ODD")])
        ctx.ob("ComputeMerkleRoot/dup@L%s" % dsite.line, "TWIN", "an odd level is extended by a copy of its last hash (exactly when size is odd)", okd and okc, dsite.where,
               {"arg": show(arg), "cond": F.fshow(f_)})
    hs = sites(f, call_to("SHA256D64"), P)
    for h in hs:
        a = [show(x) for x in call_args(h.expr)]
        ctx.ob("ComputeMerkleRoot/hash@L%s" % h.line, "TWIN", "each level hashes size/2 adjacent pairs in place from hashes[0]",
               a == ["hashes[0].begin()", "hashes[0].begin()", "hashes.size() / 2"], h.where, {"args": a})
    for h in sites(f, lambda x: x[0] == "mcall" and x[1] == "std::vector::resize" and match(["param", "hashes"], x[2]), P):
        a = [show(x) for x in call_args(h.expr)]
        ctx.ob("ComputeMerkleRoot/halve@L%s" % h.line, "TWIN", "each level keeps size/2 hashes", a == ["hashes.size() / 2"], h.where, {"args": a})
    # result
    rets = [e for e in exits(f, P, subst) if e.kind == "ret"]
    okr = any(show(e.value) == "hashes[0]" and F.implies(e.formula, F.parse("A")) for e in rets for _ in [0]) if False else None
    good = [e for e in rets if is_expr(e.value) and show(e.value) == "hashes[0]"]
    empty = [e for e in rets if is_expr(e.value) and e.value[0] == "ctor"]
    okr = len(good) == 1 and len(good) + len(empty) == len(rets) and all(
        F.implies(e.formula, F.atom("hashes.empty()")) for e in empty) and F.implies(good[0].formula, F.atom("done(loop@%s)" % wl.get("l")))
    ctx.ob("ComputeMerkleRoot/result", "TWIN", "the root is hashes[0] after the level loop; the null hash is returned only for an empty list", okr, f.where,
           {"returns": [(e.line, show(e.value)) for e in rets]})


def leaves(ctx, P):
    for q, start, getter, with_flag in (("BlockMerkleRoot", "0", "CTransaction::GetHash", True), ("BlockWitnessMerkleRoot", "1", "CTransaction::GetWitnessHash", False)):
        f = ctx.used(P.fn(q))
        subst = naming(f, P)
        pushes = sites(f, lambda x: x[0] == "mcall" and x[1] == "std::vector::push_back" and is_expr(x[2]) and x[2][0] == "local", P)
        ok, detail = False, {}
        if len(pushes) == 1 and len(pushes[0].loops) == 1:
            s = pushes[0]
            info = loop_info(f, s.loops[0], subst)
            vec = s.expr[2][1]
            arg = call_args(s.expr)[0]
            term = F.key(F.expand(arg, subst))
            want = elem_rx(info) + r"\." + getter.split("::")[-1] + r"\(\)(?:\.ToUint256\(\))?"
            detail = {"loop": [info["kind"], info["var"], info["start"], info["ranges"]], "pushed": term}
            cm = sites(f, call_to("ComputeMerkleRoot"), P)
            okc = len(cm) == 1 and match(["local", vec], call_args(cm[0].expr)[0]) and F.implies(cm[0].formula(subst), F.atom("done(loop@%s)" % s.loops[0].get("l")))
            if with_flag:
                okc = okc and len(call_args(cm[0].expr)) >= 2 and match(["param", "mutated"], call_args(cm[0].expr)[1])
            rets = [e for e in exits(f, P, subst)]
            okc = okc and len(rets) == 1 and is_call_to("ComputeMerkleRoot", rets[0].value)
            pre = [x for x in sites(f, lambda x: x[0] == "mcall" and x[1] in ("std::vector::emplace_back", "std::vector::push_back", "std::vector::insert", "std::vector::resize")
                                    and match(["local", vec], x[2]), P) if x is not s and x.expr is not s.expr]
            if start == "0":
                okpre = not pre
            else:   # the coinbase's witness hash is defined as 0: exactly one default-constructed leaf first
                okpre = len(pre) == 1 and pre[0].expr[1] == "std::vector::emplace_back" and not call_args(pre[0].expr) and not pre[0].loops and pre[0].line < s.line
            detail["other_leaf_writes"] = [show(x.expr) for x in pre]
            ok = (info["start"] == start and "block.vtx" in info["ranges"] and info["complete"] and re.fullmatch(want, term) is not None and okc and okpre
                  and F.equivalent(drop_loop_conds(own_formula(s, subst), [info]), F.T))
        ctx.ob("%s/leaves" % q, "TWIN", "%s hashes exactly the list %s(block.vtx[s]) for s = %s .. size-1%s, unconditionally, and returns ComputeMerkleRoot of it%s"
               % (q, getter, start, " preceded by one null leaf for the coinbase" if start == "1" else "", " passing the mutated out-parameter through" if with_flag else ""),
               ok, f.where, detail)


def is_block_mutated(ctx, P):
    f = ctx.used(P.fn("IsBlockMutated"))
    anyrx = re.compile(r"std::any_of\(block\.vtx\.begin\(\), block\.vtx\.end\(\), \[lambda .*\]\)")
    cm = sites(f, call_to("CheckMerkleRoot"), P)
    if len(cm) != 1 or len(call_args(cm[0].expr)) != 2 or call_args(cm[0].expr)[1][0] != "local":
        raise AnalysisBroken("IsBlockMutated: expected one CheckMerkleRoot(block, <local state>) call")
    state = call_args(cm[0].expr)[1][1]
    atoms = {"CMR": "CheckMerkleRoot(block, %s)" % state, "EMPTY": "block.vtx.empty()", "CB": "block.vtx[0].IsCoinBase()", "ANY64": anyrx,
             "CWM": "CheckWitnessMalleation(block, check_witness_root, %s)" % state}
    check_returns(ctx, f, P, "!CMR || ((EMPTY || !CB) && ANY64) || (!EMPTY && CB && !CWM)", atoms, rule="LADDER")
    lam = [x for x in subexprs(["x"] + [e.value for e in exits(f, P) if is_expr(e.value)]) if x[0] == "lambda"]
    if len(lam) != 1:
        raise AnalysisBroken("IsBlockMutated: expected exactly one lambda (the 64-byte predicate)")
    lf = ctx.used(P.fn(lam[0][1]))
    check_returns(ctx, lf, P, "IS64", {"IS64": re.compile(r"GetSerializeSize\(\(?\*?TX_NO_WITNESS\)?\(\w+\)\) == 64")}, oid="IsBlockMutated/64-byte-predicate")
    # the state given to the two checkers is a fresh local (a mutated verdict never leaks into a caller's state)
    d = decl_of(f, state)
    ctx.ob("IsBlockMutated/state", "PROVENANCE", "IsBlockMutated uses a local BlockValidationState", d is not None and "BlockValidationState" in (d.get("ty") or ""), f.where)


# ---------------------------------------------------------------------------------------------- network paths
def p2p(ctx, P):
    pm = ctx.used(P.fn("PeerManagerImpl::ProcessMessage"))
    region = handler_region(pm, "BLOCK")
    lo, hi = region["l"], max_line(region["t"])
    inreg = lambda s: lo <= (s.line or 0) <= hi
    subst = naming(pm, P)
    mutrx = re.compile(r"IsBlockMutated\(\*?pblock, DeploymentActiveAfter\((\w+), m_chainman, Consensus::DEPLOYMENT_SEGWIT\)\)")
    muts = [s for s in sites(pm, call_to("IsBlockMutated"), P) if inreg(s)]
    ctx.floor("BLOCK handler IsBlockMutated calls", len(muts), 1)
    prev = None
    for s in muts:
        k = F.key(F.expand(s.expr, subst))
        m = mutrx.fullmatch(k)
        prev = m.group(1) if m else None
        # the parent index is looked up from the received block's hashPrevBlock
        ds = [d for d in stmts(region) if d.get("k") == "decl" and d.get("n") == prev] if prev else []
        src = None
        if len(ds) == 1 and is_expr(ds[0].get("i")):
            lams = [x for x in subexprs(ds[0]["i"]) if x[0] == "lambda"]
            if len(lams) == 1:
                rv = [e.value for e in exits(P.fn(lams[0][1]), P) if is_expr(e.value)]
                src = rv[0] if len(rv) == 1 else None
            else:
                src = ds[0]["i"]
        okp = bool(m) and src is not None and any(x[0] == "mcall" and x[1] == "node::BlockManager::LookupBlockIndex" and show(call_args(x)[0]) == "pblock.hashPrevBlock"
                                                  for x in subexprs(src))
        ctx.ob("BLOCKmsg/IsBlockMutated-args@L%s" % s.line, "PROVENANCE", "IsBlockMutated is asked about the received block with check_witness_root = DeploymentActiveAfter("
               "LookupBlockIndex(pblock->hashPrevBlock), SEGWIT)", okp, s.where, {"call": k[:300], "parent": show(src) if src else None})
    atoms = {"MUTATED": mutrx, "PREV": prev or "?"}
    pbs = [s for s in sites(pm, call_to("PeerManagerImpl::ProcessBlock"), P) if inreg(s)]
    ctx.floor("BLOCK handler ProcessBlock calls", len(pbs), 1)
    for s in pbs:
        f0 = s.formula(subst)
        f, mapping, un = F.bind_atoms(f0, atoms)
        cex = F.counterexample(f, F.parse("!PREV || !MUTATED"))
        ok = cex is None and "MUTATED" in mapping.values()
        ctx.ob("BLOCKmsg/ProcessBlock@L%s" % s.line, "MPT", "a received block whose parent is known reaches ProcessBlock only if IsBlockMutated(block, segwit active after parent) is false",
               ok, s.where, None if ok else {"binding": mapping, "counterexample": cex})
        a = call_args(s.expr)
        ctx.ob("BLOCKmsg/ProcessBlock-arg@L%s" % s.line, "PROVENANCE", "the block handed to ProcessBlock is the one that was checked for mutation",
               len(a) >= 2 and contains(["local", "pblock"], a[1]), s.where, {"arg": show(a[1]) if len(a) >= 2 else None})
    mis = [s for s in sites(pm, call_to("PeerManagerImpl::Misbehaving"), P) if inreg(s)]
    hit = [s for s in mis if F.implies(F.bind_atoms(s.formula(subst), atoms)[0], F.parse("PREV && MUTATED"))]
    ctx.ob("BLOCKmsg/Misbehaving", "MPT", "the mutated edge of the BLOCK handler reaches Misbehaving", len(hit) >= 1, "%s:%s" % (pm.file, lo))
    # compact blocks
    fb = ctx.used(P.fn("PartiallyDownloadedBlock::FillBlock"))
    fsub = full_subst(fb, P)
    okx = [e for e in exits(fb, P, fsub) if is_expr(e.value) and show(e.value) == "READ_STATUS_OK"]
    ctx.floor("FillBlock READ_STATUS_OK exits", len(okx), 1)
    chk = re.compile(r"\(m_check_block_mutated_mock(\.std::function::operator bool\(\))? \? m_check_block_mutated_mock : (std::function\{)?IsBlockMutated\}?\)\(block, segwit_active\)")
    any_bound = []
    for e in okx:
        f, mapping, un = F.bind_atoms(e.formula, {"MUTATED": chk})
        any_bound.append(bool(mapping))
        cex = F.counterexample(f, F.parse("!MUTATED"))
        ok = cex is None and bool(mapping)
        ctx.ob("FillBlock/ok@L%s" % e.line, "MPT", "FillBlock reports READ_STATUS_OK only if IsBlockMutated(block, segwit_active) (or the test mock) is false", ok,
               "%s:%s" % (fb.file, e.line), None if ok else {"path_condition": F.fshow(e.formula)[:800], "unbound": un[:8]})
