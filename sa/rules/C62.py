"""C62 The wallet never hands out the same new address twice (DESIGN §3 C62)."""
import re

from sa.engine.api import *
from sa.engine import callgraph, tsa

UNITS = ["wallet/scriptpubkeyman.cpp"]
EXPLANATION = ("ORDER rule on DescriptorScriptPubKeyMan::GetNewDestination (must-happen dataflow over all paths): every successful return (a value that is not "
               "util::Error) has passed, in this order, ExpandFromCache(m_wallet_descriptor.next_index, ..) at the pre-increment index, ExtractDestination of "
               "the expanded script into the returned variable, next_index++ and WalletBatch::WriteDescriptor(GetID(), m_wallet_descriptor) of the "
               "incremented descriptor, all inside LOCK(cs_desc_man). WHO-MAY-WRITE over the whole program: WalletDescriptor::next_index is written only by "
               "GetNewDestination (increment), MarkUnusedAddresses (increments only), ReturnDestination (one decrement, only when next_index - 1 == index), TopUp and the WalletDescriptor constructors. GetReservedDestination reports next_index - 1 read after "
               "GetNewDestination under the same lock. TSA: clang -Wthread-safety on the unit, m_wallet_descriptor GUARDED_BY(cs_desc_man).")
ASSUMPTIONS = ["Descriptor::ExpandFromCache yields distinct scripts for distinct indices of a ranged descriptor",
               "WalletBatch::WriteDescriptor persists the descriptor record (storage semantics, C43 not claimed)",
               "whole-object assignments of WalletDescriptor (wallet load, descriptor update) are not index hand-outs"]
CLAIM = dict(
    technique="static analysis: must-precede dataflow on GetNewDestination, provenance of the returned destination, whole-program who-may-write on "
              "WalletDescriptor::next_index with guard implication, clang thread-safety analysis + annotation presence",
    text="For every path of GetNewDestination a returned address was derived at the index that is then incremented and persisted before the return, so no "
         "later call (or restart from the persisted record) derives at the same index; no other code lowers next_index except ReturnDestination for the most "
         "recently reserved index. Unit tests request a few addresses in one session; this covers all paths and all writers.",
    note="Not decided: durability across crashes (storage semantics). Observation recorded, not a violation under the property's fault model: the bool result of "
         "WalletBatch::WriteDescriptor is ignored in GetNewDestination and ReturnDestination, so a failing database write still returns the address. "
         "Whole-struct assignments to m_wallet_descriptor and deserialisation are outside the field-level who-may-write rule.",
    ref="DESIGN.md §3 C62")

D = "wallet::DescriptorScriptPubKeyMan::"
NEXT = [".", [".", ["this"], D + "m_wallet_descriptor"], "wallet::WalletDescriptor::next_index"]
WDESC = [".", ["this"], D + "m_wallet_descriptor"]
WRITE = "wallet::WalletBatch::WriteDescriptor"


def _strip(e):
    while is_expr(e) and e[0] == "ctor" and len(e) == 3:
        e = e[2]
    return e


def _is_error(v):
    return any(is_expr(x) and x[0] in ("ctor", "init") and x[1] == "util::Error" for x in subexprs(v)) if is_expr(v) else True


def in_lock_scope(fn, field, target_stmt):
    for st in stmts(fn.body):
        if st.get("k") != "seq":
            continue
        items = st.get("s", [])
        for i, d in enumerate(items):
            if d.get("k") == "decl" and d.get("m") in ("LOCK", "LOCK2", "WAIT_LOCK") and is_expr(d.get("i")) and contains([".", ANY, field], d["i"]):
                if any(x is target_stmt for later in items[i + 1:] for x in stmts(later)):
                    return True
    return False


def check(ctx):
    P = ctx.program(UNITS)
    get_new(ctx, P)
    writers(ctx, P)
    tsa.check_units(ctx, UNITS)
    tsa.guarded_by(ctx, P, "wallet::DescriptorScriptPubKeyMan", "m_wallet_descriptor", "cs_desc_man")


# ------------------------------------------------------------------------------------------------
def get_new(ctx, P):
    f = ctx.used(P.fn(D + "GetNewDestination"))
    is_expand = lambda e: e[0] in ("vcall", "mcall") and e[1] == "Descriptor::ExpandFromCache" and len(call_args(e)) >= 3 and match(NEXT, call_args(e)[0])
    is_inc = lambda e: match(["u", lambda o: o in ("post++", "++"), NEXT], e) or match(["b", "+=", NEXT, ["int", 1]], e)
    is_other_write = lambda e: (e[0] == "b" and e[1] in ASSIGN_OPS and match(NEXT, e[2]) and not is_inc(e)) or match(["u", lambda o: o in ("post--", "--"), NEXT], e)
    is_write = lambda e: e[0] == "mcall" and e[1] == WRITE and len(call_args(e)) == 2 and match(WDESC, call_args(e)[1]) and \
        match(["vcall", D + "GetID", ["this"]], call_args(e)[0]) or (e[0] == "mcall" and e[1] == WRITE and len(call_args(e)) == 2 and match(WDESC, call_args(e)[1]) and
                                                                       match(["mcall", D + "GetID", ["this"]], call_args(e)[0]))
    is_extract = lambda e: is_call_to("ExtractDestination", e)
    mf = MustFlow(f, P, marks=[("expanded", is_expand), ("extracted", is_extract), ("incremented", is_inc), ("persisted", is_write)],
                  branch_marks=[("expand-ok", is_expand, True), ("extract-ok", is_extract, True)],
                  kills=[("persisted", is_inc), ("persisted", is_other_write)])
    mf.watch = lambda e: is_inc(e) or is_write(e) or is_other_write(e) or is_extract(e)
    mf.run()
    incs = [(e, s, st) for e, s, st in mf.events if is_inc(e)]
    for e, state, st in incs:
        ok = "expanded" in state and "expand-ok" in state
        ctx.ob("GetNewDestination/expand-before-increment@L%s" % st.get("l"), "ORDER", "next_index is incremented only after the script for the address was successfully expanded at "
               "the pre-increment next_index", ok, "%s:%s" % (f.file, st.get("l")), {"state": sorted(state)})
        ok = in_lock_scope(f, D + "cs_desc_man", st)
        ctx.ob("GetNewDestination/increment-under-lock@L%s" % st.get("l"), "ORDER", "the increment happens inside the scope of LOCK(cs_desc_man) that also covers the expansion", ok,
               "%s:%s" % (f.file, st.get("l")))
    bad = [st.get("l") for e, s, st in mf.events if is_other_write(e)]
    ctx.ob("GetNewDestination/only-increments", "EFFECT", "GetNewDestination changes next_index only by incrementing it by one", not bad, f.where, {"lines": bad} if bad else None)
    for e, state, st in mf.events:
        if is_write(e):
            ok = "incremented" in state
            ctx.ob("GetNewDestination/persist-after-increment@L%s" % st.get("l"), "ORDER", "WriteDescriptor(GetID(), m_wallet_descriptor) is called after the increment (the record "
                   "written already excludes the index being handed out)", ok, "%s:%s" % (f.file, st.get("l")))
    # successful returns
    n = 0
    need = ["expanded", "expand-ok", "extracted", "extract-ok", "incremented", "persisted"]
    for state, st in mf.exits:
        if st.get("k") != "ret" or _is_error(st.get("v")):
            continue
        n += 1
        miss = [x for x in need if x not in state]
        where = "%s:%s" % (f.file, st.get("l"))
        ctx.ob("GetNewDestination/success-dominated@L%s" % st.get("l"), "ORDER", "an address is returned only after successful expansion at next_index, successful extraction, "
               "next_index++ and WriteDescriptor of the incremented descriptor, on every path", not miss, where, {"missing": miss} if miss else None)
        v = _strip(st.get("v"))
        # returned variable is the one filled by ExtractDestination from the expanded scripts
        ok = False
        if match(["local", ANY], v):
            ex = [s for s in sites(f, is_extract, P)]
            xp = [s for s in sites(f, is_expand, P)]
            if len(ex) == 1 and len(xp) == 1:
                ea, xa = call_args(ex[0].expr), call_args(xp[0].expr)
                ok = len(ea) == 2 and match(v, ea[1]) and match(["idx", ANY, ["int", 0]], ea[0]) and len(xa) >= 3 and match(xa[2], ea[0][1]) and \
                    len([1 for _, val in local_values(f, v[1])]) <= 1
        ctx.ob("GetNewDestination/returned-is-derived@L%s" % st.get("l"), "PROVENANCE", "the returned destination is the variable filled by ExtractDestination from script [0] of the "
               "vector produced by that ExpandFromCache call", bool(ok), where, {"value": show(v)})
    ctx.floor("GetNewDestination successful returns", n, 1)


# ------------------------------------------------------------------------------------------------
def writers(ctx, P):
    cg = callgraph.load_all()
    ws = cg.writers("wallet::WalletDescriptor::next_index")
    wq = sorted({w[0] for w in ws})
    allowed = {D + "GetNewDestination", D + "ReturnDestination", D + "MarkUnusedAddresses", D + "TopUp", D + "TopUpWithDB", "wallet::WalletDescriptor::WalletDescriptor"}
    ok = set(wq) <= allowed and D + "GetNewDestination" in wq
    ctx.ob("who-writes/next_index", "WHO-MAY-WRITE", "WalletDescriptor::next_index is written only by GetNewDestination, ReturnDestination, MarkUnusedAddresses, TopUp and the "
           "WalletDescriptor constructors", ok, None, {"writers": wq, "unexpected": sorted(set(wq) - allowed)})
    is_dec = lambda e: match(["u", lambda o: o in ("post--", "--"), NEXT], e) or match(["b", "-=", NEXT], e)
    is_inc = lambda e: match(["u", lambda o: o in ("post++", "++"), NEXT], e) or match(["b", "+=", NEXT, ["int", 1]], e)
    is_any = lambda e: (e[0] == "b" and e[1] in ASSIGN_OPS and match(NEXT, e[2])) or (e[0] == "u" and e[1] in ("post--", "--", "post++", "++") and match(NEXT, e[2]))
    # ReturnDestination
    rd = ctx.used(P.fn(D + "ReturnDestination"))
    idx = rd.params[0]["n"]
    atoms = {"MOST_RECENT": [re.compile(r"(this\.)?m_wallet_descriptor\.next_index - 1 == %s" % idx), re.compile(r"%s == (this\.)?m_wallet_descriptor\.next_index - 1" % idx)]}
    wsites = sites(rd, is_any, P)
    if wsites:
        for s in wsites:
            g, _, un = F.bind_atoms(s.formula(naming(rd, P)), atoms)
            ok = bool(is_dec(s.expr)) and match(["u", ANY, NEXT], s.expr) and F.implies(g, F.parse("MOST_RECENT")) and not s.loops
            ctx.ob("ReturnDestination/guarded-decrement@L%s" % s.line, "MPT", "ReturnDestination lowers next_index by exactly one and only when next_index - 1 == index (the most "
                   "recently reserved index is being returned)", ok, s.where, None if ok else {"expr": show(s.expr), "path_condition": F.fshow(s.formula(naming(rd, P))), "unbound": un})
    # MarkUnusedAddresses: only increments
    mu = ctx.used(P.fn(D + "MarkUnusedAddresses"))
    bad = [(s.line, show(s.expr)) for s in sites(mu, is_any, P) if not is_inc(s.expr)]
    ctx.ob("MarkUnusedAddresses/only-increments", "EFFECT", "MarkUnusedAddresses only ever increments next_index", not bad, mu.where, {"writes": bad} if bad else None)
    for q in (D + "TopUp", D + "TopUpWithDB"):
        for fn in P.fns(q):
            bad = [(s.line, show(s.expr)) for s in sites(fn, is_any, P) if not is_inc(s.expr)]
            ctx.ob("%s/no-decrease" % q.rsplit("::", 1)[-1], "EFFECT", "%s never lowers next_index" % q, not bad, fn.where, {"writes": bad} if bad else None)
    # GetReservedDestination
    gr = ctx.used(P.fn(D + "GetReservedDestination"))
    outp = gr.params[2]["n"] if len(gr.params) == 3 else None
    mf = MustFlow(gr, P, marks=[("got", lambda e: e[0] in ("vcall", "mcall") and e[1] == D + "GetNewDestination")])
    mf.watch = lambda e: match(["b", "=", ["param", outp], ANY], e)
    mf.run()
    ctx.floor("GetReservedDestination index writes", len(mf.events), 1)
    for e, state, st in mf.events:
        ok = "got" in state and match(["b", "-", NEXT, ["int", 1]], e[3]) and in_lock_scope(gr, D + "cs_desc_man", st)
        ctx.ob("GetReservedDestination/index@L%s" % st.get("l"), "PROVENANCE", "the reserved index reported to the caller is next_index - 1 read after GetNewDestination under the same "
               "cs_desc_man lock (it names the address just handed out)", bool(ok), "%s:%s" % (gr.file, st.get("l")), {"value": show(e[3])})
