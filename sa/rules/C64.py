"""C64 A malleated copy of a transaction cannot censor the genuine one (DESIGN §3 C64)."""
import re

from sa.engine.api import *

UNITS = ["node/txdownloadman_impl.cpp", "validation.cpp"]
EXPLANATION = ("PROVENANCE + guard-implication rule. In TxDownloadManagerImpl::MempoolRejectedTx every insertion into the recent-rejects / "
               "reconsiderable-rejects filter and every TxRequestTracker::ForgetTxHash is classified by the backward slice of its argument "
               "(txid = GetHash() of the rejected transaction, wtxid = GetWitnessHash()); txid insertions are reached only under one of the two "
               "whitelisted conditions (TX_MISSING_INPUTS with a parent found in a reject filter; TX_INPUTS_NOT_STANDARD), all other insertions "
               "are wtxids of the rejected transaction, and no insertion/forget is reachable when the result is TX_WITNESS_STRIPPED (decided as "
               "truth-table implications over the dominating path conditions, with distinct enumerators of one expression mutually exclusive). "
               "Who-may-insert: no other function of the unit inserts into these filters (except the package hash). AlreadyHaveTx queries the "
               "orphanage only through Wtxid-typed methods; ReceivedTx consults AlreadyHaveTx with the received transaction's wtxid; "
               "AddTxAnnouncement consults it and the request tracker with the announced GenTxid unchanged; ActiveTipChange resets both filters; "
               "MemPoolAccept::PolicyScriptChecks marks TX_WITNESS_STRIPPED whenever the script check failed, the tx has no witness and spends "
               "a witness program, and nothing else in the analysed units sets that result.")
ASSUMPTIONS = ["CTransaction::GetHash()/GetWitnessHash() return the txid/wtxid (for a transaction without witness they coincide)",
               "a transaction whose parent is permanently rejected, or whose inputs are non-standard, is rejected whatever its witness (property text whitelist)",
               "CRollingBloomFilter::insert/contains/reset have set semantics up to false positives"]
CLAIM = dict(
    technique="static analysis: argument provenance (txid vs wtxid backward slices) + guard implication by truth table + who-may-insert over the unit",
    text="For every path of MempoolRejectedTx: a txid enters a reject filter (or is forgotten by the request tracker) only under the two conditions "
         "under which no witness could make the transaction acceptable; every other insertion is the wtxid of the rejected copy, so a malleated copy "
         "never blacklists the genuine wtxid; a witness-stripped rejection caches and forgets nothing. The stripped-witness detection, the wtxid-only "
         "orphanage/AlreadyHave queries and the filter reset on tip change are structurally present. Unit tests sample single decisions; this covers all paths.",
    note="Not decided: the dynamic request-scheduling of TxRequestTracker, bloom-filter false positives, end-to-end delivery orders. The DESIGN whitelist "
         "`TX_INPUTS_NOT_STANDARD && HasWitness()` is checked as `TX_INPUTS_NOT_STANDARD` only (HasWitness is an optimisation: without witness txid == wtxid). "
         "ForgetTxHash(txid) in the keep-as-orphan branch is allowed (TX_MISSING_INPUTS, first failure) as in the unchanged tree.",
    ref="DESIGN.md §3 C64")

Q = "node::TxDownloadManagerImpl::"
RR, RRR, RC = Q + "RecentRejectsFilter", Q + "RecentRejectsReconsiderableFilter", Q + "RecentConfirmedTransactionsFilter"


def strip_hash(e):
    """Peel span constructors, ToUint256(), GenTxid constructors and casts off a hash argument."""
    while is_expr(e):
        if e[0] == "ctor" and len(e) == 3:
            e = e[2]
        elif e[0] in ("mcall", "vcall") and e[1] == "transaction_identifier::ToUint256":
            e = e[2]
        elif e[0] == "cast":
            e = e[2]
        elif e[0] == "defarg":
            e = e[1]
        else:
            break
    return e


def classify(e, subst, txparam):
    """'txid' / 'wtxid' if the argument is GetHash()/GetWitnessHash() of the transaction passed in parameter `txparam`
    (through single-definition locals), else 'other'."""
    for _ in range(6):
        e = strip_hash(e)
        if is_expr(e) and e[0] == "local" and e[1] in subst:
            e = subst[e[1]]
            continue
        break
    if is_expr(e) and e[0] in ("mcall", "vcall") and e[1] in ("CTransaction::GetHash", "CTransaction::GetWitnessHash"):
        obj = e[2]
        for _ in range(6):
            if is_expr(obj) and obj[0] == "local" and obj[1] in subst:
                obj = subst[obj[1]]
            else:
                break
        if contains(["param", txparam], obj) and not any(x[0] in ("mcall", "vcall", "call", "idx") for x in subexprs(obj)):
            return "txid" if e[1] == "CTransaction::GetHash" else "wtxid"
    return "other"


def exclusive_enums(f, extra=()):
    """Axiom: `X == E::a` and `X == E::b` (a != b) are never both true."""
    groups = {}
    for k in sorted(set(F.atoms(f)) | set(extra)):
        m = re.fullmatch(r"(.+) == (\w+(?:::\w+)+)", k)
        if m:
            groups.setdefault(m.group(1), []).append(k)
    ax = []
    for ks in groups.values():
        for i in range(len(ks)):
            for j in range(i + 1, len(ks)):
                ax.append(F.mk_not(F.mk_and([F.atom(ks[i]), F.atom(ks[j])])))
    return ax


def is_filter_call(e, method, filters):
    return (is_expr(e) and e[0] in ("mcall", "vcall") and e[1] == "CRollingBloomFilter::" + method
            and is_expr(e[2]) and e[2][0] in ("mcall", "vcall") and e[2][1] in filters)


PARENT_IN_FILTER = re.compile(r"node::TxDownloadManagerImpl::RecentRejects(Reconsiderable)?Filter\(\)\.contains\(std::span\{each\((\w+)\)\.ToUint256\(\)\}\)")


def rejected_parent_flags(ctx, f, P, subst):
    """bool locals that are only ever set to literals and are set `true` only where a parent txid (an element of the
    GetUniqueParents(tx) list) was found in a reject filter."""
    flags = set()
    for st in stmts(f.body):
        if st.get("k") != "decl" or "bool" not in (st.get("ty") or ""):
            continue
        name = st["n"]
        vals = local_values(f, name)
        if not vals or not all(match(["bool", ANY], v) for _, v in vals):
            continue
        if not match(["bool", False], st.get("i")):
            continue
        sets = sites(f, lambda e: match(["b", "=", ["local", name], ["bool", True]], e), P)
        if not sets:
            continue
        good = True
        for s in sets:
            fm = s.formula(subst)
            hits = [PARENT_IN_FILTER.fullmatch(k) for k in F.atoms(fm)]
            hits = [h for h in hits if h]
            if not hits or not F.implies(fm, F.mk_or([F.atom(h.group(0)) for h in hits])):
                good = False
                continue
            for h in hits:
                lv = [v for _, v in local_values(f, h.group(2))]
                if not any(is_call_to(Q + "GetUniqueParents", v) for v in lv):
                    good = False
        if good:
            flags.add(name)
    return flags


def orphan_index(ctx):
    """The genuine orphan must stay reachable from its parent's outpoints while a malleated twin (same prevouts) comes and goes:
    the outpoint index is filled for every input when an orphan is added, an outpoint's entry is dropped only when no orphan
    spends it any more, and only the erased orphan's wtxid is taken out of the per-outpoint set."""
    P = ctx.program(["node/txorphanage.cpp"])
    IDX = "node::TxOrphanageImpl::m_outpoint_to_orphan_wtxids"
    er = ctx.used(P.fn("node::TxOrphanageImpl::Erase"))
    sub = naming(er, P)
    is_idx = lambda e: is_expr(e) and e[0] == "." and e[2] == IDX
    drops = sites(er, lambda e: e[0] == "mcall" and e[1].endswith("::erase") and is_idx(e[2]), P)
    ctx.floor("orphanage Erase: outpoint-index key removals", len(drops), 1)
    emp = {"EMPTY": [re.compile(r".*\.second\.empty\(\)"), (re.compile(r".*\.second\.size\(\)"), False), re.compile(r".*\.second\.size\(\) < 1")]}
    for s_ in drops:
        f0 = F.mk_and([g.formula(sub) for g in s_.guards if g.kind in ("if", "sc")])
        fb, mp, un = F.bind_atoms(f0, emp)
        cex = F.counterexample(fb, F.parse("EMPTY"))
        ctx.ob("orphanage/Erase/index-key-dropped-only-when-empty@L%s" % s_.line, "MPT", "erasing an orphan removes an outpoint's index entry only when no other orphan "
               "(e.g. the genuine twin of a malleated copy) still spends that outpoint", cex is None, s_.where, None if cex is None else {"guard": F.fshow(f0), "counterexample": cex})
    inner = sites(er, lambda e: e[0] == "mcall" and e[1].endswith("::erase") and not is_idx(e[2]) and "second" in show(e[2]) and "m_outpoint_to_orphan_wtxids" in show(F.expand(e[2], sub)), P)
    ctx.floor("orphanage Erase: per-outpoint set removals", len(inner), 1)
    for s_ in inner:
        a = call_args(s_.expr)
        ok = len(a) == 1 and show(F.expand(a[0], sub)).endswith("GetWitnessHash()")
        loops = [loop_range_key(l, sub) for l in s_.loops]
        ok = ok and any(k.endswith(".vin)") for k in loops)
        ctx.ob("orphanage/Erase/only-own-wtxid@L%s" % s_.line, "PROVENANCE", "for every input of the erased orphan exactly its own wtxid is removed from that outpoint's set",
               ok, s_.where, {"arg": show(a[0]) if a else None, "loops": loops})
    add = ctx.used(P.fn("node::TxOrphanageImpl::AddTx"))
    asub = naming(add, P)
    ins = [s_ for s_ in sites(add, lambda e: e[0] == "mcall" and e[1].endswith("::try_emplace") and is_idx(e[2]), P)]
    ctx.floor("orphanage AddTx: index insertions", len(ins), 1)
    for s_ in ins:
        loops = [(l, loop_range_key(l, asub)) for l in s_.loops]
        ok = len(loops) == 1 and loops[0][1].endswith(".vin)") and not has_break(loops[0][0]["b"]) and show(F.expand(call_args(s_.expr)[0], asub)).endswith(".prevout")
        own = [g for g in s_.guards if g.kind in ("if", "sc") and g.line >= loops[0][0].get("l", 0)] if loops else [1]
        ctx.ob("orphanage/AddTx/index-every-input@L%s" % s_.line, "LOOP", "a new orphan is indexed under the prevout of every one of its inputs (complete loop over vin, unconditional)",
               ok and not own, s_.where, {"loops": [k for _, k in loops]})


def check(ctx):
    orphan_index(ctx)
    P = ctx.program(UNITS)
    f = ctx.used(P.fn(Q + "MempoolRejectedTx"))
    subst = naming(f, P)
    txparam = f.params[0]["n"]
    if "CTransactionRef" not in f.params[0]["ty"]:
        raise AnalysisBroken("MempoolRejectedTx: first parameter is no longer the rejected transaction")
    flags = rejected_parent_flags(ctx, f, P, subst)
    ctx.ob("MempoolRejectedTx/rejected-parents-flag", "PROVENANCE",
           "MempoolRejectedTx has a boolean flag that is set true only where a parent txid from GetUniqueParents(tx) was found in a reject filter",
           len(flags) >= 1, f.where, {"flags": sorted(flags)})
    sp = [p["n"] for p in f.params if "TxValidationState" in p["ty"]]
    bp = [p["n"] for p in f.params if p["ty"] == "bool"]
    if len(sp) != 1 or len(bp) != 1:
        raise AnalysisBroken("MempoolRejectedTx: expected one TxValidationState and one bool (first_time_failure) parameter")
    RES = "%s.GetResult() == TxValidationResult::" % sp[0]
    atoms = {"MISSING": RES + "TX_MISSING_INPUTS", "STRIPPED": RES + "TX_WITNESS_STRIPPED", "NOTSTD": RES + "TX_INPUTS_NOT_STANDARD",
             "FIRST": bp[0], "REJPARENTS": lambda k: k in flags}

    def implied(site, spec_text):
        f0 = site.formula(subst)
        prem = F.mk_and([f0] + exclusive_enums(f0, [RES + "TX_WITNESS_STRIPPED"]))
        fb, mp, un = F.bind_atoms(prem, atoms)
        cex = F.counterexample(fb, F.parse(spec_text))
        return cex, f0

    ins = sites(f, lambda e: is_filter_call(e, "insert", (RR, RRR)), P)
    ctx.floor("MempoolRejectedTx reject-filter insertions", len(ins), 4)
    ntxid = 0
    for s in ins:
        cls = classify(call_args(s.expr)[0], subst, txparam)
        flt = s.expr[2][1].rsplit("::", 1)[-1]
        ctx.ob("MempoolRejectedTx/insert-kind@L%s" % s.line, "PROVENANCE",
               "the hash inserted into %s() at line %s is the txid or the wtxid of the rejected transaction itself" % (flt, s.line),
               cls in ("txid", "wtxid"), s.where, {"argument": show(call_args(s.expr)[0]), "class": cls})
        if cls == "txid":
            ntxid += 1
            cex, f0 = implied(s, "(MISSING && REJPARENTS) || NOTSTD")
            ctx.ob("MempoolRejectedTx/txid-insert@L%s" % s.line, "MPT",
                   "a txid is inserted into %s() (line %s) only if a parent was found rejected (TX_MISSING_INPUTS) or the result is TX_INPUTS_NOT_STANDARD; "
                   "otherwise a malleated copy would blacklist the genuine transaction's txid" % (flt, s.line),
                   cex is None, s.where, None if cex is None else {"path_condition": F.fshow(f0)[:1200], "counterexample": cex})
        cex, f0 = implied(s, "!STRIPPED")
        ctx.ob("MempoolRejectedTx/stripped-inserts-nothing@L%s" % s.line, "MPT",
               "the insertion into %s() at line %s is unreachable when the result is TX_WITNESS_STRIPPED (a stripped copy's wtxid equals the genuine txid)" % (flt, s.line),
               cex is None, s.where, None if cex is None else {"path_condition": F.fshow(f0)[:1200], "counterexample": cex})
    ctx.floor("MempoolRejectedTx txid insertions (whitelisted)", ntxid, 1)
    # some wtxid insertion exists for plain failures (so the rule is not vacuous about the generic branch)
    fg = sites(f, lambda e: e[0] in ("mcall", "vcall") and e[1] == "TxRequestTracker::ForgetTxHash", P)
    ctx.floor("MempoolRejectedTx ForgetTxHash sites", len(fg), 3)
    for s in fg:
        cls = classify(call_args(s.expr)[0], subst, txparam)
        if cls == "other":
            ctx.ob("MempoolRejectedTx/forget-kind@L%s" % s.line, "PROVENANCE", "ForgetTxHash at line %s forgets the txid or wtxid of the rejected transaction itself" % s.line,
                   False, s.where, {"argument": show(call_args(s.expr)[0])})
            continue
        if cls == "txid":
            cex, f0 = implied(s, "(MISSING && FIRST) || NOTSTD")
            ctx.ob("MempoolRejectedTx/txid-forget@L%s" % s.line, "MPT",
                   "requests for the txid are forgotten (line %s) only for a first-time TX_MISSING_INPUTS failure or TX_INPUTS_NOT_STANDARD" % s.line,
                   cex is None, s.where, None if cex is None else {"path_condition": F.fshow(f0)[:1200], "counterexample": cex})
        cex, f0 = implied(s, "!STRIPPED")
        ctx.ob("MempoolRejectedTx/stripped-forgets-nothing@L%s" % s.line, "MPT",
               "ForgetTxHash at line %s is unreachable when the result is TX_WITNESS_STRIPPED (the genuine transaction must still be requested)" % s.line,
               cex is None, s.where, None if cex is None else {"path_condition": F.fshow(f0)[:1200], "counterexample": cex})

    # ---- who may insert into the reject filters (whole unit)
    allowed = {Q + "MempoolRejectedTx", Q + "MempoolRejectedPackage"}
    n_ins = 0
    for q, fl in P.funcs.items():
        for g in fl:
            if not g.file.endswith("node/txdownloadman_impl.cpp") or g.body is None:
                continue
            g.simp()
            for st, e in all_exprs(g.body):
                for x in subexprs(e):
                    if is_filter_call(x, "insert", (RR, RRR)):
                        n_ins += 1
                        if g.q == Q + "MempoolRejectedPackage":
                            ok = is_call_to("GetPackageHash", strip_hash(call_args(x)[0]))
                            ctx.ob("who-inserts/package@L%s" % st.get("l"), "WHO-MAY-WRITE", "MempoolRejectedPackage inserts only the package hash (never a txid/wtxid)",
                                   ok, "%s:%s" % (g.file, st.get("l")), {"argument": show(call_args(x)[0])})
                        elif g.q not in allowed and not g.q.startswith(Q + "MempoolRejectedTx"):
                            ctx.ob("who-inserts/%s@L%s" % (g.q.rsplit("::", 1)[-1], st.get("l")), "WHO-MAY-WRITE",
                                   "only MempoolRejectedTx / MempoolRejectedPackage insert into the reject filters", False, "%s:%s" % (g.file, st.get("l")),
                                   {"function": g.q})
    ctx.floor("reject-filter insertions in the unit", n_ins, 6)
    ctx.ob("who-inserts/summary", "WHO-MAY-WRITE", "reject-filter insertions of node/txdownloadman_impl.cpp were enumerated (%d sites)" % n_ins, True, None)

    # ---- AlreadyHaveTx: orphanage queried by wtxid only
    ah = ctx.used(P.fn(Q + "AlreadyHaveTx"))
    meths = {m["n"]: m for m in P.record("node::TxOrphanage")["methods"]}
    oc = sites(ah, lambda e: e[0] in ("mcall", "vcall") and contains([".", ANY, Q + "m_orphanage"], e[2]) and e[1].startswith("node::TxOrphanage::"), P)
    ctx.floor("AlreadyHaveTx orphanage queries", len(oc), 1)
    for s in oc:
        m = meths.get(s.expr[1].rsplit("::", 1)[-1])
        ok = bool(m) and m["params"] and all("Wtxid" in p for p in m["params"][:1]) and not any("Txid" in p and "Wtxid" not in p for p in m["params"])
        ctx.ob("AlreadyHaveTx/orphanage-by-wtxid@L%s" % s.line, "PROVENANCE", "AlreadyHaveTx queries the orphanage only through a Wtxid-typed method (never by txid)",
               bool(ok), s.where, {"method": s.expr[1], "params": m and m["params"]})
    bytxid = [m["n"] for m in P.record("node::TxOrphanage")["methods"] if m["n"].startswith("Have") and any("Txid" in p and "Wtxid" not in p for p in m["params"])]
    ctx.ob("TxOrphanage/no-have-by-txid", "PROVENANCE", "TxOrphanage offers no Have* query keyed by Txid", not bytxid, None, {"methods": bytxid})

    # ---- ReceivedTx consults AlreadyHaveTx with the wtxid of the received transaction
    rt = ctx.used(P.fn(Q + "ReceivedTx"))
    rsub = naming(rt, P)
    rp = [p["n"] for p in rt.params if "CTransactionRef" in p["ty"]]
    cs = sites(rt, call_to(Q + "AlreadyHaveTx"), P)
    ctx.floor("ReceivedTx AlreadyHaveTx calls", len(cs), 1)
    for s in cs:
        cls = classify(call_args(s.expr)[0], rsub, rp[0]) if rp else "other"
        ctx.ob("ReceivedTx/already-have-by-wtxid@L%s" % s.line, "PROVENANCE",
               "ReceivedTx decides to drop a received transaction by asking AlreadyHaveTx about its wtxid (not its txid)", cls == "wtxid", s.where,
               {"argument": show(call_args(s.expr)[0]), "class": cls})
    # its reconsiderable-filter lookup is by wtxid as well
    for s in sites(rt, lambda e: is_filter_call(e, "contains", (RR, RRR)), P):
        cls = classify(call_args(s.expr)[0], rsub, rp[0]) if rp else "other"
        ctx.ob("ReceivedTx/filter-by-wtxid@L%s" % s.line, "PROVENANCE", "ReceivedTx looks a received transaction up in the reject filters by wtxid", cls == "wtxid", s.where,
               {"argument": show(call_args(s.expr)[0]), "class": cls})

    # ---- AddTxAnnouncement passes the announced GenTxid unchanged
    at = ctx.used(P.fn(Q + "AddTxAnnouncement"))
    gp = [p["n"] for p in at.params if "GenTxid" in p["ty"]]
    if len(gp) != 1:
        raise AnalysisBroken("AddTxAnnouncement: GenTxid parameter not found")
    lam = {e[1] for _, e0 in all_exprs(at.body) for e in subexprs(e0) if e[0] == "lambda"}
    top = [s for s in sites(at, call_to(Q + "AlreadyHaveTx"), P) if not s.in_lambda]
    # the call that decides about the announcement itself takes include_reconsiderable = true
    main = [s for s in top if match(["bool", True], undefarg(call_args(s.expr)[1]))]
    ctx.floor("AddTxAnnouncement AlreadyHaveTx(gtxid, true)", len(main), 1)
    for s in main:
        ok = match(["param", gp[0]], call_args(s.expr)[0])
        ctx.ob("AddTxAnnouncement/already-have-kind@L%s" % s.line, "PROVENANCE", "AddTxAnnouncement asks AlreadyHaveTx about the announced GenTxid itself (same kind, same hash)",
               bool(ok), s.where, {"argument": show(call_args(s.expr)[0])})
    ri = sites(at, lambda e: e[0] in ("mcall", "vcall") and e[1] == "TxRequestTracker::ReceivedInv", P)
    ctx.floor("AddTxAnnouncement ReceivedInv", len(ri), 1)
    for s in ri:
        ok = match(["param", gp[0]], call_args(s.expr)[1])
        ctx.ob("AddTxAnnouncement/request-kind@L%s" % s.line, "PROVENANCE", "AddTxAnnouncement registers the request under the announced GenTxid itself", bool(ok), s.where,
               {"argument": show(call_args(s.expr)[1])})

    # ---- ActiveTipChange resets both filters unconditionally
    tc = ctx.used(P.fn(Q + "ActiveTipChange"))
    for flt in (RR, RRR):
        rs = sites(tc, lambda e: is_filter_call(e, "reset", (flt,)), P)
        ok = any(F.implies(F.T, s.formula(naming(tc, P))) for s in rs)
        ctx.ob("ActiveTipChange/reset/%s" % flt.rsplit("::", 1)[-1], "EFFECT", "ActiveTipChange unconditionally resets %s()" % flt.rsplit("::", 1)[-1], ok, tc.where)

    # ---- TX_WITNESS_STRIPPED detection
    ps = ctx.used(P.fn("MemPoolAccept::PolicyScriptChecks"))
    psub = naming(ps, P)
    is_strip = lambda e: e[0] in ("mcall", "vcall") and e[1] == "ValidationState::Invalid" and len(e) > 3 and match(["enum", "TxValidationResult::TX_WITNESS_STRIPPED"], e[3])
    ss = sites(ps, is_strip, P)
    ctx.floor("PolicyScriptChecks TX_WITNESS_STRIPPED sites", len(ss), 1)
    satoms = {"SCRIPTS_OK": re.compile(r"CheckInputScripts\(.*"), "HASWIT": re.compile(r"\*?[\w.]+\.HasWitness\(\)"),
              "SPENDS": re.compile(r"SpendsNonAnchorWitnessProg\(.*")}
    reach = F.mk_or([s.formula(psub) for s in ss])
    fb, mp, un = F.bind_atoms(reach, satoms)
    cex = F.counterexample(F.parse("!SCRIPTS_OK && !HASWIT && SPENDS"), fb)
    ctx.ob("PolicyScriptChecks/marks-stripped", "LADDER",
           "whenever the policy script check fails for a transaction without witness that spends a (non-anchor) witness program, the result is set to TX_WITNESS_STRIPPED",
           cex is None and set(mp.values()) == {"SCRIPTS_OK", "HASWIT", "SPENDS"}, ss[0].where,
           {"reach_condition": F.fshow(reach)[:800], "unbound": un, "counterexample": cex})
    for s in ss:
        fb, mp, un = F.bind_atoms(s.formula(psub), satoms)
        cex = F.counterexample(fb, F.parse("!SCRIPTS_OK && !HASWIT && SPENDS"))
        ctx.ob("PolicyScriptChecks/only-stripped@L%s" % s.line, "LADDER", "TX_WITNESS_STRIPPED is set only for a witness-less transaction spending a witness program after a script failure",
               cex is None, s.where, {"counterexample": cex} if cex else None)
    # the script-check argument and the HasWitness/Spends arguments talk about the workspace transaction
    for e in exits(ps, P, psub):
        if is_true_ret(e):
            fb, mp, un = F.bind_atoms(e.formula, satoms)
            ok = F.implies(fb, F.parse("SCRIPTS_OK"))
            ctx.ob("PolicyScriptChecks/accept@L%s" % e.line, "LADDER", "PolicyScriptChecks succeeds only if CheckInputScripts succeeded", ok, "%s:%s" % (ps.file, e.line))
    # nobody else in the analysed units produces TX_WITNESS_STRIPPED
    others = []
    for q, fl in P.funcs.items():
        for g in fl:
            if g.body is None or g.q == ps.q:
                continue
            for st, e in all_exprs(g.body):
                for x in subexprs(e):
                    if x[0] in ("mcall", "vcall", "call", "ctor") and any(match(["enum", "TxValidationResult::TX_WITNESS_STRIPPED"], a) for a in x[2:] if is_expr(a)) \
                            and callee(x) and callee(x).endswith("Invalid"):
                        others.append("%s:%s" % (g.q, st.get("l")))
    ctx.ob("who-sets/TX_WITNESS_STRIPPED", "WHO-MAY-WRITE", "TX_WITNESS_STRIPPED is produced only by MemPoolAccept::PolicyScriptChecks", not others, ps.where, {"others": others})
