"""C36 Peers are punished only for what the rules say, never for transactions (DESIGN §3 C36)."""
import re

from sa.engine.api import *
from sa.engine import callgraph

UNITS = ["net_processing.cpp"]
EXPLANATION = ("CALLGRAPH region rule over the whole-program call graph (all repository units; virtual calls expanded to every overrider, "
               "lambdas and callback references treated as calls): from the TX message handler (after the RejectIncomingTxs early exit), "
               "ProcessOrphanTx, ProcessInvalidTx, ProcessValidTx and ProcessPackageResult no path reaches Misbehaving, "
               "MaybePunishNodeForBlock, MaybeDiscourageAndDisconnect, BanMan::Discourage, CConnman::DisconnectNode or any function writing "
               "CNode::fDisconnect; the exception handlers around ProcessMessage punish nobody; who-may-write m_should_discourage; "
               "guard implication in MaybeDiscourageAndDisconnect (NoBan / manual exemption precedes every effect, local peers are not "
               "discouraged); EXACT per-enumerator punishment table of MaybePunishNodeForBlock incl. switch exhaustiveness; BlockChecked and "
               "the headers PoW check reach the punishment.")
ASSUMPTIONS = ["calls through std::function objects stored elsewhere are resolved via the function references that create them",
               "Misbehaving -> m_should_discourage -> MaybeDiscourageAndDisconnect is the only discouragement channel (checked by who-may-write)"]
CLAIM = dict(
    technique="static analysis: call-graph region reachability (who-may-reach), who-may-write, guard implication, exhaustive switch table",
    text="Quantifies over every call path from the transaction-handling code of net_processing: none reaches a punishment primitive, so no "
         "transaction content (invalid, non-standard, orphan, conflicting, undecodable) can disconnect or discourage an allowed peer; the noban/"
         "manual exemption dominates all disconnect/discourage effects; the block-result punishment table equals the specified one for every "
         "enumerator; invalid full blocks and invalid-PoW headers do reach Misbehaving.",
    note="Not decided: timing of SendMessages calling MaybeDiscourageAndDisconnect; disconnections for protocol violations other than transaction content "
         "(e.g. RejectIncomingTxs peers, which the property excludes).",
    ref="DESIGN.md §3 C36")

TARGETS = ["PeerManagerImpl::Misbehaving", "PeerManagerImpl::MaybePunishNodeForBlock", "PeerManagerImpl::MaybeDiscourageAndDisconnect",
           "BanMan::Discourage", "CConnman::DisconnectNode", "BanMan::Ban"]
TX_FUNCS = ["PeerManagerImpl::ProcessOrphanTx", "PeerManagerImpl::ProcessInvalidTx", "PeerManagerImpl::ProcessValidTx",
            "PeerManagerImpl::ProcessPackageResult"]

PUNISH_TABLE = {
    "BLOCK_RESULT_UNSET": "false",
    "BLOCK_HEADER_LOW_WORK": "false",
    "BLOCK_CONSENSUS": "PEER && !COMPACT",
    "BLOCK_MUTATED": "PEER && !COMPACT",
    "BLOCK_CACHED_INVALID": "PEER && !COMPACT && !INBOUND",
    "BLOCK_INVALID_HEADER": "PEER",
    "BLOCK_INVALID_PREV": "PEER",
    "BLOCK_MISSING_PREV": "PEER",
    "BLOCK_TIME_FUTURE": "false",
}
PUNISH_ATOMS = {"PEER": re.compile(r"peer|PeerManagerImpl::GetPeerRef\(nodeid\)"), "COMPACT": "via_compact_block",
                "INBOUND": re.compile(r"(peer|PeerManagerImpl::GetPeerRef\(nodeid\))\.m_is_inbound")}


def check(ctx):
    P = ctx.program(UNITS)
    cg = callgraph.load_all()
    ctx.note("call graph: %d functions from %d units" % (len(cg.funcs), cg.nunits))
    for t in TARGETS[:5]:
        if not cg.defined(t):
            raise AnalysisBroken("punishment primitive %s not found in the program" % t)
    pm = ctx.used(P.fn("PeerManagerImpl::ProcessMessage"))
    region = handler_region(pm, "TX")

    # ---- (a) the TX handler region
    subst = naming(pm, P)
    body = region["t"]
    # writes to fDisconnect inside the region must be under RejectIncomingTxs(pfrom)
    wr = [s for s in sites(pm, lambda e: match(["b", "=", [".", ANY, "CNode::fDisconnect"]], e), P)
          if region["l"] <= (s.line or 0) <= _maxline(region["t"])]
    for s in wr:
        f = s.formula(subst)
        ok = F.implies(f, F.atom("PeerManagerImpl::RejectIncomingTxs(pfrom)"))
        ctx.ob("TXmsg/fDisconnect@L%s" % s.line, "REGION", "a disconnect inside the TX handler happens only for peers that may not send transactions "
               "(RejectIncomingTxs)", ok, s.where, None if ok else {"path_condition": F.fshow(f)[:600]})
    # calls in the region outside the RejectIncomingTxs branch
    stm = [x for x in body.get("s", []) if not (x.get("k") == "if" and "RejectIncomingTxs" in show(x.get("c")))]
    ctx.floor("TX handler statements", len(stm), 10)
    calls = callgraph.region_calls(stm)
    starts = set(calls)
    for c, ls in calls.items():
        if any(v for _, v in ls):
            starts |= cg.overriders.get(c, set())
    direct = [t for t in TARGETS if t in starts]
    seen = cg.reach(starts)
    _reach_obs(ctx, cg, seen, "TX message handler of ProcessMessage", "TXmsg", "%s:%s" % (pm.file, region["l"]))
    for q in TX_FUNCS:
        fn = ctx.used(P.fn(q))
        seen2 = cg.reach({q})
        _reach_obs(ctx, cg, seen2, q, q.rsplit("::", 1)[-1], fn.where)
    ctx.extra["reach_sizes"] = {"TXmsg": len(seen)}
    ctx.extra["opaque_call_sites_in_reach"] = len(cg.opaque_in(seen))

    # ---- (b) deserialisation failures: the handlers around ProcessMessage punish nobody
    pms = ctx.used(P.fn("PeerManagerImpl::ProcessMessages"))
    trys = [st for st in stmts(pms.body) if st.get("k") == "try" and any(is_call_to("PeerManagerImpl::ProcessMessage", x) for _, e in all_exprs(st["b"]) for x in subexprs(e))]
    ctx.floor("try around ProcessMessage", len(trys), 1)
    for t in trys:
        ctx.floor("catch handlers", len(t.get("h", [])), 1)
        for h in t["h"]:
            hc = callgraph.region_calls([h["b"]])
            hseen = cg.reach(set(hc))
            bad = [x for x in TARGETS if x in hseen]
            wrs = [s2 for s2, e in all_exprs(h["b"]) for x in subexprs(e) if match(["b", "=", [".", ANY, "CNode::fDisconnect"]], x)]
            ctx.ob("ProcessMessages/catch(%s)" % h.get("ty"), "REGION", "the exception handler for a message that fails to decode punishes nobody",
                   not bad and not wrs, "%s:%s" % (pms.file, h.get("l")), {"reaches": bad} if bad else None)
        caught = {h.get("ty") for h in t["h"]}
        ctx.ob("ProcessMessages/catch-all", "REGION", "std::exception (and ...) thrown while processing a message is caught around ProcessMessage",
               any("std::exception" in c for c in caught), "%s:%s" % (pms.file, t.get("l")), {"caught": sorted(caught)})

    # ---- (c) who may write the discourage flag / call Discourage
    ws = cg.writers("Peer::m_should_discourage")
    wq = sorted({w[0] for w in ws})
    ok = set(wq) <= {"Peer::Peer", "PeerManagerImpl::Misbehaving", "PeerManagerImpl::MaybeDiscourageAndDisconnect"} and "PeerManagerImpl::Misbehaving" in wq
    ctx.ob("who-writes/m_should_discourage", "WHO-MAY-WRITE", "Peer::m_should_discourage is written only by Misbehaving (set) and MaybeDiscourageAndDisconnect (reset)",
           ok, None, {"writers": wq})
    mis = ctx.used(P.fn("PeerManagerImpl::Misbehaving"))
    sets_true = [s for s in sites(mis, lambda e: match(["b", "=", [".", ANY, "Peer::m_should_discourage"], ["bool", True]], e), P)]
    ctx.ob("Misbehaving/sets", "EFFECT", "Misbehaving sets m_should_discourage = true unconditionally", len(sets_true) == 1 and not [g for g in sets_true[0].guards if g.kind != "post"],
           mis.where)
    dc = sorted({c[0] for c in cg.call_sites("BanMan::Discourage") if "net_processing" in c[1]})
    ctx.ob("who-calls/Discourage", "WHO-MAY-CALL", "within net_processing BanMan::Discourage is called only from MaybeDiscourageAndDisconnect",
           dc == ["PeerManagerImpl::MaybeDiscourageAndDisconnect"], None, {"callers": dc})

    # ---- (d) exemptions dominate the effects
    md = ctx.used(P.fn("PeerManagerImpl::MaybeDiscourageAndDisconnect"))
    atoms = {"NOBAN": re.compile(r"pnode\.HasPermission\(NetPermissionFlags::NoBan\)"), "MANUAL": "pnode.IsManualConn()",
             "LOCAL": "pnode.addr.IsLocal()", "FLAG": "peer.m_should_discourage"}
    n = 0
    n += len(check_guard(ctx, md, P, lambda e: match(["b", "=", [".", ANY, "CNode::fDisconnect"], ["bool", True]], e), "!NOBAN && !MANUAL && FLAG", atoms,
                         "MaybeDiscourageAndDisconnect/fDisconnect", "a misbehaving peer is disconnected only if it is neither noban nor manual"))
    n += len(check_guard(ctx, md, P, call_to("CConnman::DisconnectNode"), "!NOBAN && !MANUAL && FLAG", atoms,
                         "MaybeDiscourageAndDisconnect/DisconnectNode", "a misbehaving peer is disconnected only if it is neither noban nor manual"))
    n += len(check_guard(ctx, md, P, call_to("BanMan::Discourage"), "!NOBAN && !MANUAL && !LOCAL && FLAG", atoms,
                         "MaybeDiscourageAndDisconnect/Discourage", "an address is discouraged only if the peer is neither noban, manual nor local"))
    ctx.floor("MaybeDiscourageAndDisconnect effects", n, 3)
    # every non-exempt flagged peer is disconnected: the `return false` exits imply (!FLAG || NOBAN || MANUAL)
    for e in exits(md, P):
        if is_false_ret(e):
            f, mp, un = F.bind_atoms(e.formula, atoms)
            cex = F.counterexample(f, F.parse("!FLAG || NOBAN || MANUAL"))
            ctx.ob("MaybeDiscourageAndDisconnect/noop@L%s" % e.line, "LADDER", "MaybeDiscourageAndDisconnect does nothing only for unflagged, noban or manual peers",
                   cex is None, "%s:%s" % (md.file, e.line), None if cex is None else {"counterexample": cex})

    # ---- (e) punishment table
    mp_ = ctx.used(P.fn("PeerManagerImpl::MaybePunishNodeForBlock"))
    table = case_table(mp_, P, call_to("PeerManagerImpl::Misbehaving"))
    en = P.enum("BlockValidationResult")
    names = [v[0] for v in en["values"]]
    ctx.ob("MaybePunishNodeForBlock/exhaustive", "EXHAUST", "the punishment switch has a case for every BlockValidationResult enumerator and the spec table covers them",
           set(names) == set(PUNISH_TABLE) and set(table["__cases__"]) == set("BlockValidationResult::" + n_ for n_ in names), mp_.where,
           {"enumerators": names, "cases": sorted(table["__cases__"])})
    for name in names:
        if name not in PUNISH_TABLE:
            continue
        code = table.get("BlockValidationResult::" + name, F.Fa)
        f, m_, un = F.bind_atoms(code, PUNISH_ATOMS)
        spec = F.parse(PUNISH_TABLE[name])
        c1, c2 = F.counterexample(f, spec), F.counterexample(spec, f)
        ok = c1 is None and c2 is None
        ctx.ob("MaybePunishNodeForBlock/%s" % name, "TABLE", "a block result %s punishes the peer exactly when (%s)" % (name, PUNISH_TABLE[name]), ok, mp_.where,
               None if ok else {"code": F.fshow(code), "unbound": un, "counterexample": c1 or c2})

    # ---- (f) invalid full blocks / bad-PoW headers do reach the punishment
    bc = ctx.used(P.fn("PeerManagerImpl::BlockChecked"))
    ss = sites(bc, call_to("PeerManagerImpl::MaybePunishNodeForBlock"), P)
    ctx.floor("BlockChecked -> MaybePunishNodeForBlock", len(ss), 1)
    for s in ss:
        a = call_args(s.expr)
        # via_compact_block argument is the negation of the stored 'may punish' bit
        ok = len(a) >= 3 and show(a[2]).startswith("!") and "second.second" in show(a[2]).replace("bind1", "second")
        f = s.formula(naming(bc, P))
        known = {"INVALID": "state.IsInvalid()"}
        f2, _, un = F.bind_atoms(f, known)
        ctx.ob("BlockChecked/punish@L%s" % s.line, "MPT", "BlockChecked hands every invalid block with a known source peer to MaybePunishNodeForBlock "
               "(via_compact_block = !stored flag)", ok and F.implies(f2, F.parse("INVALID")), s.where, {"args": [show(x) for x in a]})
    # the call is not skipped for invalid blocks: its guard mentions only validity, source presence and peer state
    hp = ctx.used(P.fn("PeerManagerImpl::CheckHeadersPoW"))
    ss = sites(hp, call_to("PeerManagerImpl::Misbehaving"), P)
    ctx.floor("CheckHeadersPoW -> Misbehaving", len(ss), 1)
    subst = naming(hp, P)
    okany = False
    for s in ss:
        f = s.formula(subst)
        if any("HasValidProofOfWork" in a for a in F.atoms(f)):
            okany = True
    ctx.ob("CheckHeadersPoW/punish", "MPT", "headers failing HasValidProofOfWork lead to Misbehaving and a false return", okany, hp.where)
    for e in exits(hp, P, subst):
        if is_true_ret(e):
            ats = [a for a in F.atoms(e.formula) if "HasValidProofOfWork" in a]
            ok = bool(ats) and F.implies(e.formula, F.atom(ats[0]))
            ctx.ob("CheckHeadersPoW/accept@L%s" % e.line, "LADDER", "CheckHeadersPoW returns true only if HasValidProofOfWork(headers) held", ok, "%s:%s" % (hp.file, e.line))


def _maxline(s):
    return max([x.get("l") or 0 for x in stmts(s)] + [0])


def _reach_obs(ctx, cg, seen, what, oid, where):
    for t in TARGETS:
        ok = t not in seen
        ctx.ob("%s/no-path/%s" % (oid, t.rsplit("::", 1)[-1]), "CALLGRAPH", "no call path from %s reaches %s" % (what, t), ok, where,
               None if ok else {"path": cg.path(seen, t)})
    writers = {w[0] for w in cg.writers("CNode::fDisconnect")} - {"CNode::CNode", "PeerManagerImpl::ProcessMessage"}
    hit = sorted(w for w in writers if w in seen)
    ctx.ob("%s/no-path/fDisconnect-writers" % oid, "CALLGRAPH", "no call path from %s reaches a function that writes CNode::fDisconnect" % what, not hit, where,
           None if not hit else {"path": cg.path(seen, hit[0]), "writers_reached": hit})


def case_table(fn, P, pred):
    """{enumerator: formula under which a site matching pred is reached in that case} for the function's switch."""
    subst = naming(fn, P)
    out = {"__cases__": set()}
    for st in stmts(fn.body):
        if st.get("k") == "switch":
            for it in st.get("s", []):
                if it.get("k") == "case":
                    out["__cases__"].add(show(it.get("v")))
    for s in sites(fn, pred, P):
        cg_ = [g for g in s.guards if g.kind == "case"]
        if len(cg_) != 1:
            raise AnalysisBroken("%s: punishment call outside the switch (idiom changed)" % fn.q)
        rest = F.mk_and([g.formula(subst) for g in s.guards if g.kind != "case"])
        for v in cg_[0].vals:
            k = show(v) if not isinstance(v, str) else v
            out[k] = F.mk_or([out.get(k, F.Fa), rest])
    return out
