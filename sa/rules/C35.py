"""C35 The orphan pool stays bounded and peers cannot evict each other's orphans - structural clauses only (originally listed N/A)."""
import re

from sa.engine.api import *

UNITS = ["node/txorphanage.cpp"]
EXPLANATION = ("Taken whole (equivalence with a reference model over all operation sequences) the property is dynamic; decided are the clauses that are "
               "visible in the shape of TxOrphanageImpl. (1) Who-may-erase: the only statement of the unit that removes elements from the announcement "
               "multi-index m_orphans is the final `erase(it)` of the Erase<Tag> helper; its callers are a frozen table (EraseTxInternal, EraseForPeer, "
               "LimitOrphans; EraseTxInternal is called by EraseTx and EraseForBlock only). Inside the helper the three unique-orphan counters are only "
               "decremented under IsUnique(it) - with amounts that mirror AddTx's increments, which happen only for a wtxid that was absent before the "
               "emplace - the announcer's PeerDoSInfo is Subtract()ed exactly once (mirror of Add) and the peer entry dropped only when Subtract reports "
               "zero announcements; IsUnique is true exactly when neither neighbour in the by-wtxid order has the same wtxid. (2) Ranges: EraseForPeer "
               "erases exactly the by-peer range of its argument (start at lower_bound{peer,false,0}, loop condition `not end && announcer == peer`, no "
               "break); EraseTxInternal erases exactly [lower_bound{wtxid,MIN_PEER}, upper_bound{wtxid,MAX_PEER}); EraseForBlock erases only wtxids copied "
               "out of outpoint-index hits for the inputs of the block's transactions. (3) Eviction: LimitOrphans erases only announcements whose "
               "announcer equals the peer popped from the DoS heap, the heap is filled only with peers whose GetDosScore(MaxPeerLatencyScore(), "
               "ReservedPeerUsage()) compares above 1/1 (and with the popped peer itself), every exit of LimitOrphans has seen NeedsTrim() false "
               "since the last erasure, NeedsTrim is `latency > max || usage > max`, and every mutator re-runs LimitOrphans after its last change.")
ASSUMPTIONS = ["boost::multi_index ordered_unique indices keep (wtxid, peer) and (peer, reconsider, sequence) order; lower_bound/upper_bound/erase/emplace have their documented meaning",
               "ByRatio / ByRatioNegSize comparisons order FeeFrac values by ratio (util/feefrac.h, not analysed)",
               "multi_index modify() of m_reconsider never collides on the unique keys (it would erase the element); the sequence number makes keys unique",
               "std::make_heap/pop_heap/push_heap only permute the vector"]
LEVEL = "other"   # partial, structural claim (same level as C54): static obligations, not a proof
CLAIM = dict(
    category="other",
    technique="static analysis: who-may-erase / who-may-call tables over the unit, guard implication by truth table on counter updates and erasure loops, "
              "argument provenance of erased iterators and heap entries, add/subtract symmetry, predicate twins, must-/may-flow for limit-until and re-limit",
    text="Structural necessary conditions of the orphanage clauses: announcements leave m_orphans only through one helper that keeps the per-peer and "
         "per-wtxid accounting in step (unique-orphan counters move only when the erased announcement is the last one of its wtxid); peer disconnection, "
         "explicit erasure and block connection erase exactly the by-peer / by-wtxid / outpoint-hit ranges; eviction touches only announcements of a peer "
         "admitted to the DoS heap with a score above its share, and LimitOrphans returns only after NeedsTrim() was seen false. A new eraser, an "
         "unconditional counter update, a dropped loop bound, a weakened heap admission or an extra loop exit is reported.",
    note="Decided: clause 'an orphan disappears only when its last announcement is removed or erased explicitly' (who-may-erase + accounting shape), "
         "'disconnect / block remove exactly the affected announcements' (range shapes), 'a peer within its share never loses an announcement to eviction' "
         "(heap admission + erased-announcer guard), 'within limits after each limiting step' (loop-until shape only). NOT decided: equivalence with a "
         "reference model over operation sequences, the numeric limits and the DoS-score arithmetic (FeeFrac), that the by-peer iterator order picks the "
         "oldest non-reconsiderable announcement, workset/reconsideration behaviour, multi_index internals. NeedsTrim() is a syntactic atom: the flow "
         "rule proves 'observed false after the last Erase call', not a numeric bound.",
    ref="DESIGN.md §3 C35 (claimed partially after the design)")

Q = "node::TxOrphanageImpl::"
M_ORPHANS = Q + "m_orphans"
PEERINFO = Q + "m_peer_orphanage_info"
UNIQUE_FIELDS = (Q + "m_unique_orphans", Q + "m_unique_orphan_usage", Q + "m_unique_rounded_input_scores")
DOS_FIELDS = tuple(Q + "PeerDoSInfo::" + x for x in ("m_total_usage", "m_count_announcements", "m_total_latency_score"))
# container operations that remove elements (closed list of std / boost::multi_index member names)
ERASER_METHODS = {"erase", "clear", "extract", "swap", "pop_back", "pop_front", "remove", "remove_if", "unique", "merge", "splice", "erase_if"}
ERASER_FREE = {"std::swap", "std::erase_if", "std::erase", "std::exchange", "std::ranges::swap"}
INSERT_METHODS = {"emplace", "insert", "emplace_hint", "emplace_back", "push_back", "emplace_front", "push_front"}


def short(q):
    return q.rsplit("::", 1)[-1] if isinstance(q, str) else ""


def unit_functions(P):
    out = []
    for q, fl in P.funcs.items():
        for g in fl:
            if g.file.endswith("node/txorphanage.cpp") and g.body is not None:
                g.simp()
                out.append(g)
    return out


def alias_subst(fn, P, outer=None):
    """naming() plus reference locals (`auto& index = m_orphans.get<Tag>()`: a reference is an alias of its initialiser for its whole
    life).  Names introduced more than once in the function (shadowing in different scopes) are not substituted at all."""
    sub = dict(naming(fn, P))
    count = {}
    for st in stmts(fn.body):
        names = []
        if st.get("k") == "decl":
            names = [st["n"]] if st.get("n") else list(st.get("binds") or [])
        v = st.get("var")
        if isinstance(v, dict):
            names += [v["n"]] if v.get("n") else list(v.get("binds") or [])
        for n in names:
            count[n] = count.get(n, 0) + 1
    for st in stmts(fn.body):
        if st.get("k") == "decl" and st.get("n") and is_expr(st.get("i")) and count[st["n"]] == 1 and st["n"] not in sub:
            ty = (st.get("ty") or "").strip()
            if ty.endswith("&") and not ty.endswith("&&"):
                sub[st["n"]] = st["i"]
    for n, c in count.items():
        if c > 1:
            sub.pop(n, None)
    if outer:
        for n, v in outer.items():
            if n not in count and n not in sub:
                sub[n] = v
    return sub


def scoped_subst(fn, P, loop, outer):
    """substitution for sites inside `loop`: names declared in the loop body shadow the function-level ones."""
    return alias_subst(sub_function(fn, loop.get("b"), "scope@%s" % loop.get("l")), P, outer=outer)


def strip(e):
    """Peel value-preserving wrappers: casts, std::move/forward/as_const, defaulted-argument markers."""
    while is_expr(e):
        if e[0] == "cast" and len(e) > 2:
            e = e[2]
        elif e[0] == "defarg":
            e = e[1]
        elif e[0] == "call" and e[1] in ("std::move", "std::forward", "std::as_const") and len(call_args(e)) == 1:
            e = call_args(e)[0]
        elif e[0] == "ctor" and len(e) == 3 and is_expr(e[2]) and e[1] not in ("std::tuple", "FeeFrac"):
            e = e[2]
        else:
            break
    return e


def is_orphans(e):
    """the m_orphans container itself or one of its index views (m_orphans.get<Tag>())."""
    e = strip(e)
    if not is_expr(e):
        return False
    if e[0] == "." and e[2] == M_ORPHANS:
        return True
    if e[0] in ("mcall", "vcall") and short(e[1]) == "get" and len(e) >= 3:
        return is_orphans(e[2])
    if e[0] == "u" and e[1] == "*":
        return is_orphans(e[2])
    return False


def is_field(e, name):
    return is_expr(e) and e[0] == "." and e[2] == name


def field_write(x, fields):
    """(field, op, amount) if x writes one of `fields` (compound assignment or ++/--), else None."""
    if x[0] == "b" and x[1] in ASSIGN_OPS and is_expr(x[2]) and x[2][0] == "." and x[2][2] in fields:
        return x[2][2], x[1], x[3]
    if x[0] == "u" and x[1] in ("++", "--", "post++", "post--") and is_expr(x[2]) and x[2][0] == "." and x[2][2] in fields:
        return x[2][2], "+=" if "++" in x[1] else "-=", ["int", 1]
    return None


def replace_term(e, pred, repl):
    if not is_expr(e):
        return e
    if pred(e):
        return repl
    return [e[0]] + [replace_term(x, pred, repl) if is_expr(x) else x for x in e[1:]]


def own_guards(site, kinds=("if", "sc", "loop", "case")):
    return [g for g in site.guards if g.kind in kinds]


def erased_iterator(call):
    """The local/param iterator handed to Erase(...) / erase(...): `it`, `it++`."""
    a = call_args(call)
    if len(a) != 1:
        return None
    x = strip(a[0])
    if is_expr(x) and x[0] == "u" and x[1] == "post++":
        x = strip(x[2])
    if is_expr(x) and x[0] in ("local", "param"):
        return x
    return None


def writes_local(e, name):
    for x in subexprs(e):
        if x[0] == "b" and x[1] in ASSIGN_OPS and match(["local", name], x[2]):
            return True
        if x[0] == "u" and x[1] in ("++", "--", "post++", "post--") and match(["local", name], x[2]):
            return True
    return False


def iterator_untouched_before(loop, site, name):
    """Inside `loop`, no statement that executes before the erasing statement writes the iterator (so the loop/if guards about
    `name` still describe the erased element)."""
    for st in stmts(loop.get("b")):
        if st is site.stmt:
            return True
        if st.get("l", 0) >= site.line:
            continue
        for _, e in stmt_exprs(st):
            if writes_local(e, name):
                return False
    return True


def inline_predicates(e, P, sub, depth=0):
    """Replace calls of single-`return` predicates defined in the unit (a lambda stored in a local, a small helper) by their returned
    expression with the arguments substituted - extracting a condition into a named predicate does not change the decision."""
    if not is_expr(e) or depth > 3:
        return e
    e = [e[0]] + [inline_predicates(x, P, sub, depth) if is_expr(x) else x for x in e[1:]]
    q, args = None, None
    if e[0] == "opcall" and e[1] == "()" and len(e) > 3:
        obj = strip(F.expand(e[3], sub))
        if is_expr(obj) and obj[0] == "lambda":
            q, args = obj[1], [x for x in e[4:] if is_expr(x) and x[0] != "targs"]
    elif e[0] in ("call", "mcall") and isinstance(e[1], str) and e[1].startswith("node::"):
        q, args = e[1], call_args(e)
    if q is None:
        return e
    fs = [g for g in P.fns(q) if g.body is not None and g.file.endswith("node/txorphanage.cpp")]
    if len(fs) != 1:
        return e
    body = fs[0].body.get("s", []) if fs[0].body.get("k") == "seq" else [fs[0].body]
    if len(body) != 1 or body[0].get("k") != "ret" or not is_expr(body[0].get("v")) or len(fs[0].params) != len(args):
        return e
    v = body[0]["v"]
    for p_, a in zip(fs[0].params, args):
        v = replace_term(v, lambda t, n=p_["n"]: t[0] == "param" and t[1] == n, a)
    return inline_predicates(v, P, sub, depth + 1)


def guards_formula(gs, sub, P=None, inline=False):
    out = []
    for g in gs:
        if inline and g.kind in ("if", "sc", "loop") and is_expr(g.expr):
            f = F.to_formula(inline_predicates(F.expand(g.expr, sub), P, sub), sub)
            out.append(f if g.pol else F.mk_not(f))
        else:
            out.append(g.formula(sub))
    return F.mk_and(out)


def decl_of(fn, name):
    ds = [st for st in stmts(fn.body) if st.get("k") == "decl" and st.get("n") == name]
    return ds[0] if len(ds) == 1 else None


def assigned_values(fn, name):
    return [v for _, v in local_values(fn, name)]


# ------------------------------------------------------------------------------------------------------------------------------
PENDING_FLOORS = []


def soft_floor(ctx, name, found, minimum):
    """Instance floor that is applied at the end of the run: a count that dropped because of a change which is itself reported as a
    violation (e.g. a call to the helper replaced by a direct erase) must not turn the verdict into ANALYSIS-BROKEN."""
    PENDING_FLOORS.append((name, found, minimum))


def anchor(ctx, name, found, minimum):
    """Immediate floor for an anchor the following obligations need; if the anchor vanished *and* a violation is already on record
    (the who-may-erase tables run first) the verdict stays VIOLATION and the dependent obligations are skipped."""
    if found >= minimum or not any(o.ok is False for o in ctx.obs):
        ctx.floor(name, found, minimum)
        return True
    ctx.note("instance floor not met (%s: %d < %d) - explained by the reported violation(s)" % (name, found, minimum))
    ctx.floors.append((name, found, minimum))
    return False


def flush_floors(ctx):
    violated = any(o.ok is False for o in ctx.obs)
    for name, found, minimum in PENDING_FLOORS:
        if violated and found < minimum:
            ctx.note("instance floor not met (%s: %d < %d) - explained by the reported violation(s)" % (name, found, minimum))
            ctx.floors.append((name, found, minimum))
        else:
            ctx.floor(name, found, minimum)
    del PENDING_FLOORS[:]


def who_may_erase(ctx, P, fns):
    erasers, inserters = [], []
    for g in fns:
        sub = alias_subst(g, P)
        for st, e in all_exprs(g.body):
            for x in subexprs(e):
                hit = None
                if x[0] in ("mcall", "vcall") and len(x) >= 3 and is_orphans(F.expand(x[2], sub)):
                    if short(x[1]) in ERASER_METHODS:
                        hit = short(x[1])
                    elif short(x[1]) in INSERT_METHODS:
                        inserters.append((g.q, st.get("l")))
                elif x[0] == "b" and x[1] in ASSIGN_OPS and is_orphans(F.expand(x[2], sub)):
                    hit = "assignment"
                elif x[0] == "call" and x[1] in ERASER_FREE and any(is_orphans(F.expand(a, sub)) for a in call_args(x)):
                    hit = x[1]
                if hit:
                    erasers.append((g.q, st.get("l"), hit))
    soft_floor(ctx, "statements removing elements from m_orphans", len(erasers), 1)
    for q, l, how in erasers:
        ctx.ob("who-erases/%s@L%s" % (short(q), l), "WHO-MAY-WRITE",
               "announcements leave m_orphans only through the Erase<Tag> helper (which keeps peer and unique-orphan accounting in step); "
               "`%s` on m_orphans at line %s is in %s" % (how, l, q), q == Q + "Erase", "%s:%s" % (fns[0].file, l), {"function": q, "operation": how})
    soft_floor(ctx, "statements inserting into m_orphans", len(inserters), 2)
    for q, l in inserters:
        ctx.ob("who-inserts/%s@L%s" % (short(q), l), "WHO-MAY-WRITE", "announcements enter m_orphans only in AddTx / AddAnnouncer (both re-limit afterwards)",
               q in (Q + "AddTx", Q + "AddAnnouncer"), "%s:%s" % (fns[0].file, l), {"function": q})
    tables = {Q + "Erase": ({Q + "EraseTxInternal", Q + "EraseForPeer", Q + "LimitOrphans"}, 3,
                            "the Erase<Tag> helper is called only by EraseTxInternal (explicit erase), EraseForPeer (disconnect) and LimitOrphans (eviction)"),
              Q + "EraseTxInternal": ({Q + "EraseTx", Q + "EraseForBlock"}, 2, "EraseTxInternal (erase one orphan with all its announcements) is called only by EraseTx and EraseForBlock"),
              Q + "PeerDoSInfo::Subtract": ({Q + "Erase"}, 1, "a peer's DoS accounting is decreased only by the Erase<Tag> helper"),
              Q + "PeerDoSInfo::Add": ({Q + "AddTx", Q + "AddAnnouncer"}, 2, "a peer's DoS accounting is increased only where an announcement was inserted (AddTx / AddAnnouncer)")}
    found = {k: [] for k in tables}
    for g in fns:
        for st, e in all_exprs(g.body):
            for x in subexprs(e):
                c = callee(x)
                if c in found and x[0] in ("mcall", "vcall", "call"):
                    found[c].append((g.q, st.get("l")))
    for c, (allowed, floor, text) in tables.items():
        soft_floor(ctx, "call sites of %s" % c, len(found[c]), floor)
        bad = sorted({q for q, _ in found[c] if q not in allowed})
        ctx.ob("who-calls/%s" % c[len(Q):], "WHO-MAY-CALL", text, not bad, None, {"callers": sorted({q for q, _ in found[c]}), "unexpected": bad})
    # direct writes of the accounting fields
    uw, dw = [], []
    for g in fns:
        sub = alias_subst(g, P)
        for st, e in all_exprs(g.body):
            for x in subexprs(e):
                w = field_write(x, UNIQUE_FIELDS)
                if w:
                    uw.append((g.q, st.get("l"), w))
                w = field_write(x, DOS_FIELDS)
                if w:
                    base = F.expand(x[2][1], sub)
                    # SanityCheck recomputes the statistics in a local map; only writes reaching the member map count
                    if match(["this"], base) or contains([".", ANY, PEERINFO], base):
                        dw.append((g.q, st.get("l"), w))
    soft_floor(ctx, "writes of the unique-orphan counters", len(uw), 6)
    bad = sorted({(q, l) for q, l, _ in uw if q not in (Q + "Erase", Q + "AddTx")})
    ctx.ob("who-writes/unique-counters", "WHO-MAY-WRITE", "m_unique_orphans / m_unique_orphan_usage / m_unique_rounded_input_scores are written only by AddTx (new wtxid) and the Erase helper (last announcement)",
           not bad, None, {"unexpected": bad})
    soft_floor(ctx, "writes of PeerDoSInfo counters", len(dw), 6)
    bad = sorted({(q, l) for q, l, _ in dw if q not in (Q + "PeerDoSInfo::Add", Q + "PeerDoSInfo::Subtract")})
    ctx.ob("who-writes/peer-counters", "WHO-MAY-WRITE", "per-peer usage / announcement / latency counters of m_peer_orphanage_info are written only by PeerDoSInfo::Add and ::Subtract",
           not bad, None, {"unexpected": bad})
    return uw, dw


def erase_helper(ctx, P, uw, dw):
    er = ctx.used(P.fn(Q + "Erase"))
    add = ctx.used(P.fn(Q + "AddTx"))
    if len(er.params) != 1:
        raise AnalysisBroken("Erase helper: expected one iterator parameter")
    itp = ["param", er.params[0]["n"]]
    sub = alias_subst(er, P)
    asub = alias_subst(add, P)
    UNIQ = {"UNIQUE": re.compile(r"node::TxOrphanageImpl::IsUnique\((m_orphans\.project\(%s\)|%s)\)" % (itp[1], itp[1]))}
    # (B1) unique counters only under IsUnique, with AddTx's amounts
    dec = {}
    ws = sites(er, lambda e: field_write(e, UNIQUE_FIELDS) is not None, P)
    ctx.floor("Erase helper: unique-counter updates", len(ws), 3)
    for s in ws:
        fld, op, amt = field_write(s.expr, UNIQUE_FIELDS)
        f0 = s.formula(sub)
        fb, mp, un = F.bind_atoms(f0, UNIQ)
        cex = F.counterexample(fb, F.parse("UNIQUE"))
        ctx.ob("Erase/unique-counter-guard/%s@L%s" % (short(fld), s.line), "MPT",
               "the Erase helper changes %s only if the erased announcement is the only one left for its wtxid (IsUnique(it))" % short(fld), cex is None, s.where,
               None if cex is None else {"path_condition": F.fshow(f0), "counterexample": cex})
        dec.setdefault(fld, []).append((op, F.key(replace_term(F.expand(amt, sub), lambda t: t == itp, ["local", "ANN"]))))
    inc = {}
    emp = [s for s in sites(add, lambda e: e[0] in ("mcall", "vcall") and short(e[1]) in INSERT_METHODS and is_orphans(F.expand(e[2], asub)), P)]
    ctx.floor("AddTx: emplace into m_orphans", len(emp), 1)
    emp_key = F.key(emp[0].expr)
    is_new_it = lambda t: is_expr(t) and ((t[0] == "bind0" and F.key(t[1]) == emp_key) or (t[0] == "." and short(t[2]) == "first" and F.key(strip(t[1])) == emp_key))
    NEW = {"HAVE": re.compile(r"node::TxOrphanageImpl::HaveTx\((\*?%s\.GetWitnessHash\(\)|%s->GetWitnessHash\(\))\)" % (add.params[0]["n"], add.params[0]["n"]))}
    aws = sites(add, lambda e: field_write(e, UNIQUE_FIELDS) is not None, P)
    ctx.floor("AddTx: unique-counter updates", len(aws), 3)
    for s in aws:
        fld, op, amt = field_write(s.expr, UNIQUE_FIELDS)
        f0 = s.formula(asub)
        fb, mp, un = F.bind_atoms(f0, NEW)
        cex = F.counterexample(fb, F.parse("!HAVE"))
        ctx.ob("AddTx/unique-counter-guard/%s@L%s" % (short(fld), s.line), "MPT",
               "AddTx counts a transaction in %s only if its wtxid was not in the orphanage before (!HaveTx(wtxid))" % short(fld), cex is None, s.where,
               None if cex is None else {"path_condition": F.fshow(f0), "counterexample": cex})
        inc.setdefault(fld, []).append((op, F.key(replace_term(F.expand(amt, asub), is_new_it, ["local", "ANN"]))))
    for fld in UNIQUE_FIELDS:
        d, i = sorted(dec.get(fld, [])), sorted(inc.get(fld, []))
        ok = len(d) == 1 and len(i) == 1 and d[0][0] == "-=" and i[0][0] == "+=" and d[0][1] == i[0][1]
        ctx.ob("Erase/unique-counter-symmetry/%s" % short(fld), "SYMMETRY",
               "%s is decreased by the Erase helper by exactly what AddTx added for that transaction" % short(fld), ok, er.where, {"erase": d, "add": i})
    # the wtxid-absent test is evaluated before the emplace (afterwards it would always be present)
    mf = MayFlow(add, P, gens=[("emplaced", lambda e: e[0] in ("mcall", "vcall") and short(e[1]) in INSERT_METHODS and is_orphans(F.expand(e[2], asub)))])
    mf.watch = lambda e: e[0] in ("mcall", "vcall") and e[1] == Q + "HaveTx"
    mf.run()
    ctx.floor("AddTx: HaveTx queries", len(mf.events), 1)
    for e, st, stmt in mf.events:
        ctx.ob("AddTx/brand-new-before-emplace@L%s" % stmt.get("l"), "ORDER", "AddTx asks HaveTx(wtxid) before the announcement is emplaced", "emplaced" not in st,
               "%s:%s" % (add.file, stmt.get("l")))
    # (B3) per-peer accounting: Subtract(*it) on the announcer's entry, unconditionally, once
    ss = sites(er, call_to(Q + "PeerDoSInfo::Subtract"), P)
    ctx.floor("Erase helper: Subtract call", len(ss), 1)
    okn = len(ss) == 1
    for s in ss:
        obj = F.key(F.expand(call_obj(s.expr), sub))
        arg = F.key(F.expand(call_args(s.expr)[0], sub)) if call_args(s.expr) else None
        ok = okn and re.fullmatch(r"m_peer_orphanage_info\.(find\(%s\.m_announcer\)\.second|at\(%s\.m_announcer\)|\[%s\.m_announcer\])" % ((itp[1],) * 3), obj or "") is not None \
            and arg == "*%s" % itp[1] and not own_guards(s) and not s.loops
        ctx.ob("Erase/peer-subtract@L%s" % s.line, "EFFECT", "the Erase helper subtracts the erased announcement from its announcer's PeerDoSInfo exactly once, on every path",
               bool(ok), s.where, {"object": obj, "argument": arg, "sites": len(ss)})
    subk = None
    if ss:
        subk = F.key(F.expand(ss[0].expr, sub))
    ps = sites(er, lambda e: e[0] in ("mcall", "vcall") and short(e[1]) in ERASER_METHODS and is_field(F.expand(e[2], sub), PEERINFO), P)
    ctx.floor("Erase helper: peer-entry removal", len(ps), 1)
    for s in ps:
        f0 = F.mk_and([g.formula(sub) for g in own_guards(s)])
        ok = subk is not None and F.implies(f0, F.atom(subk))
        ctx.ob("Erase/peer-entry-dropped-only-when-empty@L%s" % s.line, "MPT", "a peer's entry leaves m_peer_orphanage_info only when Subtract() reported that it has no announcements left",
               ok, s.where, {"guard": F.fshow(f0)})
    sb = ctx.used(P.fn(Q + "PeerDoSInfo::Subtract"))
    check_return_formula(ctx, sb, P, "!COUNT", {"COUNT": "m_count_announcements"}, oid="PeerDoSInfo::Subtract")
    ad = ctx.used(P.fn(Q + "PeerDoSInfo::Add"))

    def moves(fn):
        ann = ["param", fn.params[0]["n"]]
        out = {}
        for s in sites(fn, lambda e: field_write(e, DOS_FIELDS) is not None, P):
            fld, op, amt = field_write(s.expr, DOS_FIELDS)
            out.setdefault(short(fld), []).append((op, F.key(replace_term(amt, lambda t: t == ann, ["local", "ANN"])), bool(own_guards(s))))
        return out
    ma, ms = moves(ad), moves(sb)
    ctx.floor("PeerDoSInfo::Add field updates", sum(len(v) for v in ma.values()), 3)
    for fld in sorted(set(ma) | set(ms)):
        a, b = ma.get(fld, []), ms.get(fld, [])
        ok = len(a) == 1 and len(b) == 1 and a[0][0] == "+=" and b[0][0] == "-=" and a[0][1] == b[0][1] and not a[0][2] and not b[0][2]
        ctx.ob("PeerDoSInfo/add-subtract-symmetry/%s" % fld, "SYMMETRY", "PeerDoSInfo::Subtract takes from %s exactly what ::Add put in for the same announcement" % fld, ok, sb.where,
               {"add": a, "subtract": b})
    # (B4) the element removal itself
    es = sites(er, lambda e: e[0] in ("mcall", "vcall") and short(e[1]) == "erase" and is_orphans(F.expand(e[2], sub)), P)
    ctx.floor("Erase helper: m_orphans erase", len(es), 1)
    for s in es:
        ok = len(es) == 1 and erased_iterator(s.expr) == itp and not own_guards(s) and not s.loops
        ctx.ob("Erase/removes-its-argument@L%s" % s.line, "EFFECT", "the Erase helper removes exactly the announcement it was given, unconditionally, after the accounting", ok, s.where,
               {"argument": show(call_args(s.expr)[0]) if call_args(s.expr) else None})
    # (B5) IsUnique twin
    iu = ctx.used(P.fn(Q + "IsUnique"))
    n = iu.params[0]["n"]
    W = r"%s\.m_tx\.GetWitnessHash\(\)" % n
    WN = r"std::next\(%s\)\.m_tx\.GetWitnessHash\(\)" % n
    WP = r"std::prev\(%s\)\.m_tx\.GetWitnessHash\(\)" % n
    atoms = {"END": re.compile(r"(%s == m_orphans\.get\(\)\.end\(\)|m_orphans\.get\(\)\.end\(\) == %s)" % (n, n)),
             "NEXTEND": re.compile(r"(std::next\(%s\) == m_orphans\.get\(\)\.end\(\)|m_orphans\.get\(\)\.end\(\) == std::next\(%s\))" % (n, n)),
             "BEGIN": re.compile(r"(%s == m_orphans\.get\(\)\.begin\(\)|m_orphans\.get\(\)\.begin\(\) == %s)" % (n, n)),
             "SAMENEXT": re.compile(r"(%s == %s|%s == %s)" % (W, WN, WN, W)),
             "SAMEPREV": re.compile(r"(%s == %s|%s == %s)" % (W, WP, WP, W))}
    check_return_formula(ctx, iu, P, "!END && !(!NEXTEND && SAMENEXT) && !(!BEGIN && SAMEPREV)", atoms, oid="IsUnique")


# ------------------------------------------------------------------------------------------------------------------------------
def erase_sites(fn, P):
    return sites(fn, call_to(Q + "Erase"), P)


def lower_bound_of(fn, sub, itname):
    """Canonical start of iterator `itname`: its single declaration `X = <m_orphans view>.lower_bound(std::tuple{...})` -> list of tuple component keys."""
    d = decl_of(fn, itname)
    if d is None or not is_expr(d.get("i")):
        return None
    e = strip(d["i"])
    if not (e[0] in ("mcall", "vcall") and short(e[1]) == "lower_bound" and is_orphans(F.expand(e[2], sub))):
        return None
    a = call_args(e)
    if len(a) != 1:
        return None
    t = strip(F.expand(a[0], sub))
    if not (is_expr(t) and t[0] == "ctor" and t[1] == "std::tuple"):
        return None
    return [F.key(x) for x in t[2:] if is_expr(x) and x[0] != "targs"]


def by_peer_loop(ctx, fn, P, s, peer_term, oid, who):
    """Erase site `s` erases only announcements of `peer_term`: the guards inside its innermost loop imply `it.m_announcer == peer_term`,
    the iterator is not advanced between the test and the erasure, and it starts at lower_bound{peer,false,0} of the by-peer view."""
    sub = alias_subst(fn, P)
    it = erased_iterator(s.expr)
    if it is None or it[0] != "local" or not s.loops:
        ctx.ob("%s/erases-in-peer-range@L%s" % (oid, s.line), "LOOP", "%s erases announcements only inside a loop over one peer's range" % who, False, s.where, {"argument": show(s.expr)})
        return None
    loop = s.loops[-1]
    inner = [g for g in s.guards if g.kind in ("if", "sc", "loop", "post", "assert") and g.line >= loop.get("l", 0)]
    f0 = F.mk_and([g.formula(sub) for g in inner])
    pk = F.key(peer_term)
    MINE = re.compile(r"(%s\.m_announcer == %s|%s == %s\.m_announcer)" % (re.escape(it[1]), re.escape(pk), re.escape(pk), re.escape(it[1])))
    fb, mp, un = F.bind_atoms(f0, {"MINE": MINE})
    cex = F.counterexample(fb, F.parse("MINE"))
    ok = cex is None and iterator_untouched_before(loop, s, it[1])
    ctx.ob("%s/erases-only-that-peer@L%s" % (oid, s.line), "MPT",
           "%s erases an announcement only after testing, in the same loop iteration, that its announcer is %s" % (who, pk), ok, s.where,
           None if ok else {"in_loop_guards": F.fshow(f0), "counterexample": cex})
    lb = lower_bound_of(fn, sub, it[1])
    ok = lb is not None and len(lb) == 3 and lb[0] == pk and lb[1] in ("false", "0") and lb[2] == "0"
    ctx.ob("%s/starts-at-peer-range@L%s" % (oid, s.line), "PROVENANCE", "the erased iterator of %s starts at lower_bound{%s, false, 0} of the by-peer view of m_orphans" % (who, pk),
           ok, s.where, {"start": lb})
    return loop, it, MINE


def ranges(ctx, P):
    # ---- EraseForPeer
    fp = ctx.used(P.fn(Q + "EraseForPeer"))
    if len(fp.params) != 1:
        raise AnalysisBroken("EraseForPeer: expected one NodeId parameter")
    peer = ["param", fp.params[0]["n"]]
    sub = alias_subst(fp, P)
    es = erase_sites(fp, P)
    anchor(ctx, "EraseForPeer: Erase calls", len(es), 1)
    for s in es:
        r = by_peer_loop(ctx, fp, P, s, peer, "EraseForPeer", "EraseForPeer")
        if r is None:
            continue
        loop, it, MINE = r
        END = re.compile(r"(%s == m_orphans\.get\(\)\.end\(\)|m_orphans\.get\(\)\.end\(\) == %s)" % (it[1], it[1]))
        okc = False
        if loop.get("k") in ("while", "for") and is_expr(loop.get("c")):
            fb, mp, un = F.bind_atoms(F.to_formula(loop["c"], sub), {"MINE": MINE, "END": END})
            okc = F.equivalent(fb, F.parse("!END && MINE")) and not un
        ok = okc and not has_break(loop.get("b")) and not [x for x in stmts(loop.get("b")) if x.get("k") in ("ret", "continue", "throw")]
        ctx.ob("EraseForPeer/whole-range@L%s" % s.line, "LOOP", "EraseForPeer keeps erasing exactly while the iterator is not at the end and still belongs to the peer "
               "(no break, no other exit): all of the peer's announcements go", ok, s.where, {"loop": loop_range_key(loop, sub)})
        own = own_guards(s, ("if", "sc", "case"))
        own = [g for g in own if g.line >= loop.get("l", 0)]
        ctx.ob("EraseForPeer/unconditional-in-range@L%s" % s.line, "LOOP", "inside the peer's range every announcement is erased (no extra condition)", not own, s.where)
        # exits that skip the loop: only when the peer has nothing
        for e in exits(fp, P, sub):
            if e.line is not None and e.line < loop.get("l", 0):
                fb, mp, un = F.bind_atoms(e.formula, {"MINE": MINE, "END": END})
                ctx.ob("EraseForPeer/early-exit@L%s" % e.line, "LADDER", "EraseForPeer returns before its loop only if the peer has no announcement (end of index or first hit belongs to someone else)",
                       F.implies(fb, F.parse("END || !MINE")), "%s:%s" % (fp.file, e.line), {"path_condition": F.fshow(e.formula)})
    # ---- EraseTxInternal
    ft = ctx.used(P.fn(Q + "EraseTxInternal"))
    w = ["param", ft.params[0]["n"]]
    tsub = alias_subst(ft, P)
    lo, hi = P.const("node::MIN_PEER"), P.const("node::MAX_PEER")
    ctx.ob("const/MIN_PEER-MAX_PEER", "CONST", "MIN_PEER / MAX_PEER are the smallest / largest NodeId (so [wtxid,MIN_PEER]..[wtxid,MAX_PEER] spans every announcer)",
           lo == -2 ** 63 and hi == 2 ** 63 - 1, None, {"MIN_PEER": lo, "MAX_PEER": hi})
    es = erase_sites(ft, P)
    anchor(ctx, "EraseTxInternal: Erase calls", len(es), 1)
    for s in es:
        it = erased_iterator(s.expr)
        if it is None or it[0] != "local" or not s.loops:
            ctx.ob("EraseTxInternal/range@L%s" % s.line, "LOOP", "EraseTxInternal erases inside a loop over one wtxid's range", False, s.where)
            continue
        loop = s.loops[-1]
        lb = lower_bound_of(ft, tsub, it[1])
        ok = lb == [F.key(w), str(lo)]
        ctx.ob("EraseTxInternal/starts-at-wtxid-range@L%s" % s.line, "PROVENANCE", "the erased iterator starts at lower_bound{wtxid, MIN_PEER} of the by-wtxid view", ok, s.where, {"start": lb})
        UB = r"m_orphans\.get\(\)\.upper_bound\(std::tuple\{%s, %d\}\)" % (re.escape(F.key(w)), hi)
        okc = False
        if loop.get("k") in ("while", "for") and is_expr(loop.get("c")):
            fb, mp, un = F.bind_atoms(F.to_formula(loop["c"], tsub), {"ATEND": re.compile(r"(%s == %s|%s == %s)" % (it[1], UB, UB, it[1]))})
            okc = F.equivalent(fb, F.parse("!ATEND")) and not un
        body_exits = [x for x in stmts(loop.get("b")) if x.get("k") in ("ret", "continue", "throw")]
        ok = okc and not has_break(loop.get("b")) and not body_exits and iterator_untouched_before(loop, s, it[1]) and \
            not [g for g in own_guards(s, ("if", "sc", "case")) if g.line >= loop.get("l", 0)]
        ctx.ob("EraseTxInternal/whole-wtxid-range@L%s" % s.line, "LOOP", "EraseTxInternal erases every announcement up to upper_bound{wtxid, MAX_PEER} and nothing beyond "
               "(loop runs exactly while it != that bound; no break; unconditional)", ok, s.where, {"loop": loop_range_key(loop, tsub)})
    WT = re.compile(r"(%s == \w+\.m_tx\.GetWitnessHash\(\)|\w+\.m_tx\.GetWitnessHash\(\) == %s)" % (re.escape(F.key(w)), re.escape(F.key(w))))
    ENDT = re.compile(r"(\w+ == m_orphans\.get\(\)\.end\(\)|m_orphans\.get\(\)\.end\(\) == \w+)")
    nfalse = 0
    for e in exits(ft, P, tsub):
        if is_false_ret(e):
            nfalse += 1
            fb, mp, un = F.bind_atoms(e.formula, {"SAME": WT, "END": ENDT})
            ctx.ob("EraseTxInternal/not-found@L%s" % e.line, "LADDER", "EraseTxInternal gives up (false) only if no announcement with that wtxid exists",
                   F.implies(fb, F.parse("END || !SAME")), "%s:%s" % (ft.file, e.line), {"path_condition": F.fshow(e.formula)})
    # ---- EraseForBlock
    fb_ = ctx.used(P.fn(Q + "EraseForBlock"))
    bsub = alias_subst(fb_, P)
    blk = fb_.params[0]["n"]
    cs = sites(fb_, call_to(Q + "EraseTxInternal"), P)
    ctx.floor("EraseForBlock: EraseTxInternal calls", len(cs), 1)
    HIT = r"m_outpoint_to_orphan_wtxids\.find\(each\(\(?\*?each\(%s\.vtx\)\)?\.vin\)\.prevout\)" % re.escape(blk)
    for s in cs:
        a = F.expand(call_args(s.expr)[0], bsub)
        setname = None
        if is_expr(a) and a[0] == "each" and is_expr(a[1]) and a[1][0] == "local":
            setname = a[1][1]
        ctx.ob("EraseForBlock/erases-collected@L%s" % s.line, "PROVENANCE", "EraseForBlock erases exactly the elements of its local collection of wtxids", setname is not None, s.where,
               {"argument": F.key(a)})
        if setname is None:
            continue
        d = decl_of(fb_, setname)
        ok = d is not None and not is_expr(d.get("i")) or (d is not None and is_expr(d.get("i")) and d["i"][0] in ("ctor", "init") and len([x for x in d["i"][2:] if is_expr(x)]) == 0)
        ctx.ob("EraseForBlock/collection-starts-empty", "PROVENANCE", "the collection of wtxids to erase starts empty", bool(ok), "%s:%s" % (fb_.file, d.get("l") if d else None))
        # every use of the collection that can add to it
        fills = []
        for st_, e in all_exprs(fb_.body):
            for x in subexprs(e):
                if x[0] in ("mcall", "vcall") and match(["local", setname], strip(x[2])) and short(x[1]) in (INSERT_METHODS | {"merge", "insert_range", "operator="}):
                    fills.append((st_, x, [F.key(F.expand(y, bsub)) for y in call_args(x)]))
                elif x[0] == "call" and x[1] in ("std::copy", "std::ranges::copy", "std::copy_if", "std::move", "std::transform") and len(call_args(x)) >= 2 and contains(["local", setname], x):
                    fills.append((st_, x, [F.key(F.expand(y, bsub)) for y in call_args(x) if not contains(["local", setname], y)]))
                elif x[0] == "b" and x[1] in ASSIGN_OPS and match(["local", setname], x[2]):
                    fills.append((st_, x, ["<assignment>"]))
        ctx.floor("EraseForBlock: statements filling the collection", len(fills), 1)
        for st_, x, srcs in fills:
            ok = bool(srcs) and all(re.fullmatch(r"(each\()?%s\.second(\.c?begin\(\)|\.c?end\(\)|\))?" % HIT, k) for k in srcs)
            ctx.ob("EraseForBlock/collects-only-index-hits@L%s" % st_.get("l"), "PROVENANCE",
                   "wtxids are collected for erasure only from m_outpoint_to_orphan_wtxids entries found under the prevout of an input of a transaction of the block",
                   ok, "%s:%s" % (fb_.file, st_.get("l")), {"sources": srcs})
            ss = [y for y in sites(fb_, lambda e_: e_ is x, P)]
            for y in ss:
                loops = [loop_range_key(l, bsub) for l in y.loops]
                want = ["each(%s.vtx)" % blk]
                okl = len(loops) == 2 and loops[0] == want[0] and re.fullmatch(r"each\(\(?\*?each\(%s\.vtx\)\)?\.vin\)" % re.escape(blk), loops[1]) is not None \
                    and not any(has_break(l.get("b")) for l in y.loops)
                f0 = F.mk_and([g.formula(bsub) for g in own_guards(y, ("if", "sc", "case")) if g.line >= y.loops[0].get("l", 0)]) if y.loops else F.T
                fbb, mp, un = F.bind_atoms(f0, {"FOUND": [(re.compile(r"(%s == m_outpoint_to_orphan_wtxids\.end\(\)|m_outpoint_to_orphan_wtxids\.end\(\) == %s)" % (HIT, HIT)), False)]})
                okl = okl and F.equivalent(fbb, F.parse("FOUND")) or (okl and F.equivalent(fbb, F.T))
                ctx.ob("EraseForBlock/every-input-of-every-tx@L%s" % st_.get("l"), "LOOP", "every input of every transaction of the block is looked up (complete loops, the only condition is that the outpoint is indexed)",
                       bool(okl), y.where, {"loops": loops, "guard": F.fshow(f0)})


# ------------------------------------------------------------------------------------------------------------------------------
def eviction(ctx, P):
    lo = ctx.used(P.fn(Q + "LimitOrphans"))
    sub = alias_subst(lo, P)
    es = erase_sites(lo, P)
    anchor(ctx, "LimitOrphans: Erase calls", len(es), 1)
    # the heap: a local vector that receives (peer, score) pairs
    heaps = set()
    for s in sites(lo, lambda e: e[0] == "call" and e[1] in ("std::pop_heap", "std::ranges::pop_heap"), P):
        for x in subexprs(s.expr):
            if x[0] == "local" and decl_of(lo, x[1]) is not None and "vector" in (decl_of(lo, x[1]).get("ty") or ""):
                heaps.add(x[1])
    if len(heaps) != 1:
        raise AnalysisBroken("LimitOrphans: the DoS-score heap (a local vector handed to std::pop_heap) was not found")
    heap = heaps.pop()
    hd = decl_of(lo, heap)
    ok = not is_expr(hd.get("i")) or (hd["i"][0] in ("ctor", "init") and not [x for x in hd["i"][2:] if is_expr(x)])
    ctx.ob("LimitOrphans/heap-starts-empty", "PROVENANCE", "the DoS heap starts empty", ok, "%s:%s" % (lo.file, hd.get("l")))

    def worst_of(term):
        """is `term` the peer id read from the heap's back()/front() element?"""
        t = strip(F.expand(term, sub))
        if is_expr(t) and (t[0] == "bind0" or (t[0] == "." and short(t[2]) == "first")):
            src = strip(t[1])
            return is_expr(src) and src[0] in ("mcall", "vcall") and short(src[1]) in ("back", "front") and match(["local", heap], strip(src[2]))
        return False

    worst_terms = set()
    for s in es:
        it = erased_iterator(s.expr)
        # which peer does the guard talk about?  take the start of the iterator: lower_bound{W, false, 0}
        d = decl_of(lo, it[1]) if it is not None and it[0] == "local" else None
        wt = None
        if d is not None and is_expr(d.get("i")):
            e = strip(d["i"])
            if e[0] in ("mcall", "vcall") and call_args(e):
                t = strip(call_args(e)[0])
                if is_expr(t) and t[0] == "ctor" and len(t) > 2:
                    wt = t[2]
        okw = wt is not None and worst_of(wt)
        ctx.ob("LimitOrphans/victim-is-heap-top@L%s" % s.line, "PROVENANCE", "the peer whose announcements LimitOrphans walks is the one read from the back of the DoS heap after pop_heap",
               bool(okw), s.where, {"peer": show(wt) if wt is not None else None})
        if not okw:
            continue
        worst_terms.add(F.key(wt))
        by_peer_loop(ctx, lo, P, s, F.expand(wt, sub), "LimitOrphans", "LimitOrphans")
    # heap insertions
    ins = sites(lo, lambda e: e[0] in ("mcall", "vcall") and short(e[1]) in (INSERT_METHODS | {"assign", "resize"}) and match(["local", heap], strip(e[2])), P)
    ctx.floor("LimitOrphans: heap insertions", len(ins), 2)
    n_admit = 0
    for s in ins:
        a = call_args(s.expr)
        first = strip(F.expand(a[0], sub)) if a else None
        if first is not None and is_expr(first) and first[0] == "ctor" and short(first[1]) == "pair" and len(first) > 2:
            first = strip(first[2])
        loops = [loop_range_key(l, sub) for l in s.loops]
        if is_expr(first) and (first[0] == "bind0" or (first[0] == "." and short(first[2]) == "first")) and match(["each", [".", ANY, PEERINFO]], strip(first[1])):
            # admission from the per-peer table
            n_admit += 1
            entry = r"(bind1\(each\(m_peer_orphanage_info\)\)|each\(m_peer_orphanage_info\)\.second)"
            score = r"%s\.GetDosScore\(node::TxOrphanageImpl::MaxPeerLatencyScore\(\), node::TxOrphanageImpl::ReservedPeerUsage\(\)\)" % entry
            ABOVE = re.compile(r"ByRatio\{FeeFrac\{1, 1\}\} < ByRatio\{%s\}" % score)
            lsub = scoped_subst(lo, P, s.loops[-1], sub) if s.loops else sub
            gs = [g for g in own_guards(s) if g.line >= s.loops[-1].get("l", 0)] if s.loops else []
            for inl in (False, True):
                f0 = guards_formula(gs, lsub, P, inline=inl)
                fb, mp, un = F.bind_atoms(f0, {"ABOVE": ABOVE})
                cex = F.counterexample(fb, F.parse("ABOVE"))
                if cex is None:
                    break
            ctx.ob("LimitOrphans/heap-admission@L%s" % s.line, "MPT",
                   "a peer enters the DoS heap only if ByRatio{GetDosScore(MaxPeerLatencyScore(), ReservedPeerUsage())} > ByRatio{1/1}, i.e. it exceeds its own share; "
                   "a peer within its share is never a candidate for eviction", cex is None and "each(m_peer_orphanage_info)" in loops, s.where,
                   None if cex is None else {"guard": F.fshow(f0), "counterexample": cex})
        else:
            okr = False
            if a:
                t = strip(a[0])
                if is_expr(t) and t[0] == "ctor" and short(t[1]) == "pair" and len(t) > 2:
                    t = strip(t[2])
                if is_expr(t) and F.key(t) in worst_terms:
                    okr = True
                elif is_expr(t) and t[0] == "." and short(t[2]) == "first" and is_expr(t[1]) and t[1][0] == "local":
                    # `it_worst_peer->first` where it_worst_peer is only ever m_peer_orphanage_info.find(<worst peer>)
                    vals = assigned_values(lo, t[1][1])
                    okr = bool(vals) and all(is_expr(v) and v[0] in ("mcall", "vcall") and short(v[1]) == "find" and is_field(strip(v[2]), PEERINFO)
                                             and F.key(call_args(v)[0]) in worst_terms for v in vals)
            ctx.ob("LimitOrphans/heap-reinsert@L%s" % s.line, "PROVENANCE", "apart from the admission loop the DoS heap only gets back the peer that was just popped from it",
                   okr, s.where, {"argument": show(a[0]) if a else None})
    ctx.floor("LimitOrphans: heap admissions from m_peer_orphanage_info", n_admit, 1)
    # GetDosScore: ratio of the peer's own totals to the limits handed in
    gd = ctx.used(P.fn(Q + "PeerDoSInfo::GetDosScore"))
    gsub = alias_subst(gd, P)
    ex = [e for e in exits(gd, P, gsub) if e.kind == "ret"]
    p0, p1 = gd.params[0]["n"], gd.params[1]["n"]
    parts, ismax = set(), False
    if len(ex) == 1:
        v = F.expand(ex[0].value, gsub)
        parts = {F.key(x) for x in subexprs(v) if x[0] == "ctor" and x[1] == "FeeFrac"}
        ismax = any(x[0] == "call" and x[1] in ("std::max", "std::ranges::max") for x in subexprs(v))
    ok = len(ex) == 1 and ismax and parts == {"FeeFrac{m_total_latency_score, %s}" % p0, "FeeFrac{m_total_usage, %s}" % p1}
    ctx.ob("GetDosScore/shape", "VALUE-SHAPE", "a peer's DoS score is the larger of (its latency score / allowed latency score) and (its usage / allowed usage)", ok, gd.where,
           {"fractions": sorted(parts)})
    # loop-until
    is_trim = lambda e: is_expr(e) and e[0] in ("mcall", "vcall") and e[1] == Q + "NeedsTrim"
    mf = MustFlow(lo, P, branch_marks=[("within", is_trim, False)], kills=[("within", call_to(Q + "Erase"))])
    mf.run()
    ctx.floor("LimitOrphans: exits", len(mf.exits), 2)
    for st, stmt in mf.exits:
        ctx.ob("LimitOrphans/until-within-limits@L%s" % stmt.get("l"), "ORDER",
               "LimitOrphans returns only after NeedsTrim() was observed false with no erasure in between (every way out of the eviction loop passes that test)",
               "within" in st, "%s:%s" % (lo.file, stmt.get("l")))
    nt = ctx.used(P.fn(Q + "NeedsTrim"))
    check_return_formula(ctx, nt, P, "LAT || MEM", {"LAT": "node::TxOrphanageImpl::MaxGlobalLatencyScore() < node::TxOrphanageImpl::TotalLatencyScore()",
                                                    "MEM": "node::TxOrphanageImpl::MaxGlobalUsage() < node::TxOrphanageImpl::TotalOrphanUsage()"}, oid="NeedsTrim")
    for q, want, text in ((Q + "TotalLatencyScore", r"(m_unique_rounded_input_scores \+ m_orphans\.size\(\)|m_orphans\.size\(\) \+ m_unique_rounded_input_scores)",
                           "the total latency score is the deduplicated input score plus one per announcement"),
                          (Q + "TotalOrphanUsage", r"m_unique_orphan_usage", "the total usage is the deduplicated usage counter"),
                          (Q + "MaxGlobalLatencyScore", r"m_max_global_latency_score", "the global latency limit is the configured constant")):
        f = ctx.used(P.fn(q))
        ex = [e for e in exits(f, P) if e.kind == "ret"]
        ok = len(ex) == 1 and re.fullmatch(want, F.key(F.expand(ex[0].value, alias_subst(f, P)))) is not None
        ctx.ob("%s/value" % short(q), "VALUE-SHAPE", text, ok, f.where, {"value": [F.key(e.value) for e in ex]})


def relimit(ctx, P):
    """Every public mutator re-runs LimitOrphans after its last change of m_orphans."""
    for name in ("AddTx", "AddAnnouncer", "EraseTx", "EraseForPeer", "EraseForBlock"):
        f = ctx.used(P.fn(Q + name))
        sub = alias_subst(f, P)
        is_ins = lambda e: e[0] in ("mcall", "vcall") and short(e[1]) in INSERT_METHODS and is_orphans(F.expand(e[2], sub))
        changes = lambda e: is_call_to(Q + "Erase", e) or is_call_to(Q + "EraseTxInternal", e) or is_ins(e)
        ins_keys = {F.key(F.expand(x, sub)) for _, e in all_exprs(f.body) for x in subexprs(e) if is_ins(x)}

        def failed_insert(atom):
            # `inserted` of `auto [iter, inserted] = index.emplace(...)` (or `.second` of it)
            t = strip(F.expand(atom, sub))
            return is_expr(t) and (t[0] == "bind1" or (t[0] == "." and short(t[2]) == "second")) and F.key(strip(t[1])) in ins_keys
        mf = MayFlow(f, P, gens=[("dirty", changes)], kills=[("dirty", call_to(Q + "LimitOrphans"))], branch_kills=[("dirty", failed_insert, False)])
        mf.watch = changes
        mf.run()
        anchor(ctx, "%s: changes of m_orphans" % name, len(mf.events), 1)
        bad = [stmt.get("l") for st, stmt in mf.exits if "dirty" in st]
        ctx.ob("%s/re-limits" % name, "ORDER", "%s runs LimitOrphans() after its last insertion into / erasure from m_orphans on every path (deletions can lower the global usage limit)" % name,
               not bad, f.where, {"exits_without_limit": bad})


def check(ctx):
    del PENDING_FLOORS[:]
    P = ctx.program(UNITS)
    fns = unit_functions(P)
    ctx.floor("functions of node/txorphanage.cpp", len(fns), 30)
    uw, dw = who_may_erase(ctx, P, fns)
    erase_helper(ctx, P, uw, dw)
    ranges(ctx, P)
    eviction(ctx, P)
    relimit(ctx, P)
    flush_floors(ctx)
