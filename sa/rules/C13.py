"""C13 Validation caches never change a verdict (DESIGN §3 C13)."""
from sa.engine.api import *
from sa.engine.ladder import loop_range_key
from sa.rules._helpers_C import naming_x, strip

UNITS = ["validation.cpp", "script/sigcache.cpp"]
EXPLANATION = ("PROVENANCE + MPT/ORDER rules on the two validation caches. Script-execution cache (CheckInputScripts): the key probed by contains() and "
               "stored by insert() is one local, written exactly once by a CSHA256 chain that starts from the per-node salted hasher and absorbs "
               "tx.GetWitnessHash() (32 bytes) and the flags parameter (all 8 bytes), and that precedes both uses; the scripts are executed under the "
               "very same tx/flags (CScriptCheck is built from spent_outputs[i], tx, i, flags, &txdata; CScriptCheck's constructor and operator() "
               "forward those members unchanged to VerifyScript); insert() is reached only without a hit, after the complete, break-free loop over all "
               "inputs in which every inline script failure returns, with cacheFullScriptStore and without deferred checks. Signature cache "
               "(sigcache.cpp): ComputeEntryECDSA/Schnorr absorb sighash, pubkey and signature from differently salted hashers into the entry; both "
               "CachingTransactionSignatureChecker::Verify* siblings satisfy the same ladder (true only on a hit or after the base-class verification "
               "succeeded, false only on a miss and failed verification, Set only after a successful verification with `store`, the entry computed from "
               "the same three arguments before Get/Set).")
ASSUMPTIONS = ["CSHA256 is a collision-resistant hash of the written byte sequence; CuckooCache::contains answers true only for inserted keys",
               "wtxid commits to every input's prevout (so the spent outputs are determined by the key) - stated in the source comment",
               "sizeof(script_verify_flags) == 8 on the analysed target (folded by the front end)"]
CLAIM = dict(
    technique="static analysis: argument provenance of cache keys (hash-chain unrolling), must-pass-through guard implication, must-flow ordering, sibling ladder agreement",
    text="For all paths of CheckInputScripts and of the caching signature checker: a cache entry is created only after the corresponding full "
         "verification succeeded in this call, and the key of every probe/insert commits to everything the cached verdict depends on (wtxid and all "
         "flag bits; sighash, public key and signature, per signature scheme). Hence a hit can only stand for an earlier success under the same key. "
         "Tests compare a few cached/uncached runs; this covers every path and both siblings.",
    note="Not decided: CuckooCache internals (contains/insert/erase semantics, generation aging), hash collisions, whole-history equivalence with a cache-free run, "
         "the callers' choice of cacheSigStore/cacheFullScriptStore.",
    ref="DESIGN.md §3 C13")


def hash_chain(e):
    """CSHA256 ...Write(a,n).Write(b,m).Finalize(t)  ->  (root object, [(data, len), ...], target)"""
    obj, writes = e[2], []
    while is_call_to("CSHA256::Write", obj):
        a = call_args(obj)
        writes.append((a[0], a[1] if len(a) > 1 else None))
        obj = obj[2]
    return obj, list(reversed(writes)), call_args(e)[0]


def uses_of_local(fn, name):
    """[(line, parent expr or None, top expr)] for every occurrence of the local."""
    out = []
    for st, e in all_exprs(fn.body):
        for x in subexprs(e):
            for y in x[1:]:
                if is_expr(y) and match(["local", name], y) and len(y) == 2:
                    out.append((st.get("l"), x))
        if match(["local", name], e) and len(e) == 2:
            out.append((st.get("l"), None))
    return out


def written_params(fn):
    w = set()
    for _, e in all_exprs(fn.body):
        for x in subexprs(e):
            if x[0] == "b" and x[1] in ASSIGN_OPS and is_expr(x[2]) and x[2][0] == "param":
                w.add(x[2][1])
            if x[0] == "u" and x[1] in ("++", "--", "post++", "post--") and is_expr(x[2]) and x[2][0] == "param":
                w.add(x[2][1])
    return w


def input_counter(f, L, iv):
    """Is `iv` the position of the input visited by loop L over tx.vin?  Accepted spellings:
    (a) for (T iv = 0; iv < tx.vin.size(); ++iv) with no other write to iv;
    (b) range-for over tx.vin, iv declared `= 0` before the loop, its only write being one ++iv as the last statement of the body, no `continue`."""
    writes = []
    for st, e in all_exprs(f.body):
        for x in subexprs(e):
            if (x[0] == "b" and x[1] in ASSIGN_OPS and x[2] == ["local", iv]) or (x[0] == "u" and x[1] in ("++", "--", "post++", "post--", "&") and x[2] == ["local", iv]):
                writes.append((st, x))
    is_inc = lambda x: is_expr(x) and x[0] == "u" and x[1] in ("++", "post++") and x[2] == ["local", iv]
    vin_size = lambda x: is_expr(x) and x[0] in ("mcall", "vcall") and x[1].endswith("::size") and show(x[2]) == "tx.vin"
    if L.get("k") == "for":
        init, c = L.get("init"), L.get("c")
        okc = is_expr(c) and c[0] == "b" and ((c[1] in ("<", "!=") and c[2] == ["local", iv] and vin_size(c[3])) or (c[1] in (">", "!=") and c[3] == ["local", iv] and vin_size(c[2])))
        return isinstance(init, dict) and init.get("n") == iv and match(["int", 0], strip(init.get("i"))) and okc and is_inc(L.get("inc")) and \
            len(writes) == 1 and writes[0][1] is L["inc"]
    if L.get("k") == "foreach":
        decls = [st for st in stmts(f.body) if st.get("k") == "decl" and st.get("n") == iv]
        body = L.get("b") or {}
        items = body.get("s", []) if body.get("k") == "seq" else [body]
        last = items[-1] if items else None
        return show(L.get("range")) == "tx.vin" and len(decls) == 1 and match(["int", 0], strip(decls[0].get("i"))) and (decls[0].get("l") or 0) < L.get("l") and \
            len(writes) == 1 and isinstance(last, dict) and last.get("k") == "expr" and is_inc(last.get("e")) and writes[0][0] is last and \
            not any(st.get("k") == "continue" for st in stmts(body))
    return False


def check(ctx):
    P = ctx.program(UNITS)
    script_cache(ctx, P)
    script_check(ctx, P)
    sig_entries(ctx, P)
    for scheme in ("ECDSA", "Schnorr"):
        caching_checker(ctx, P, scheme)


# --------------------------------------------------------------------------------------------------
def script_cache(ctx, P):
    f = ctx.used(P.fn("CheckInputScripts"))
    subst = naming_x(f, P)
    CONT, INS = "CuckooCache::cache::contains", "CuckooCache::cache::insert"
    on_cache = lambda q: (lambda e: is_call_to(q, e) and match([".", ANY, "ValidationCache::m_script_execution_cache"], e[2]))
    probes, inserts = sites(f, on_cache(CONT), P), sites(f, on_cache(INS), P)
    ctx.floor("CheckInputScripts script-cache probes", len(probes), 1)
    ctx.floor("CheckInputScripts script-cache inserts", len(inserts), 1)
    keys = {show(call_args(s.expr)[0]) for s in probes + inserts}
    k0 = call_args(probes[0].expr)[0]
    ok = len(keys) == 1 and k0[0] == "local"
    ctx.ob("CheckInputScripts/key-same", "PROVENANCE", "the script-execution cache is probed (contains) and filled (insert) with the same key variable", ok,
           probes[0].where, {"keys": sorted(keys)})
    if k0[0] != "local":
        raise AnalysisBroken("CheckInputScripts: cache key is not a local variable (idiom changed)")
    K = k0[1]
    # every use of K
    fins = [x for _, e in all_exprs(f.body) for x in subexprs(e) if is_call_to("CSHA256::Finalize", x)
            and contains(["local", K], call_args(x)[0])]
    bad = []
    for line, parent in uses_of_local(f, K):
        if parent is None:
            bad.append((line, "bare"))
        elif (is_call_to(CONT, parent) or is_call_to(INS, parent)) and call_args(parent)[0] == ["local", K]:
            continue
        elif parent[0] == "mcall" and parent[1] in ("base_blob::begin", "base_blob::data") and any(contains(parent, call_args(x)[0]) for x in fins):
            continue
        elif parent[0] == "mcall" and parent[1] in ("base_blob::ToString", "base_blob::GetHex") and parent[2] == ["local", K]:
            continue
        else:
            bad.append((line, show(parent)[:120]))
    ok = len(fins) == 1 and not bad
    ctx.ob("CheckInputScripts/key-single-writer", "PROVENANCE", "the cache key is written exactly once, by CSHA256::Finalize, and otherwise only passed to contains/insert",
           ok, f.where, None if ok else {"finalize_calls": len(fins), "other_uses": bad})
    if len(fins) != 1:
        return
    root, writes, target = hash_chain(fins[0])
    data = [(show(F.expand(d, subst)), show(n) if n is not None else None) for d, n in writes]
    has_wtxid = any("tx.GetWitnessHash()" in d and "GetHash()" not in d.replace("GetWitnessHash()", "") and n == "32" for d, n in data)
    has_flags = any(contains(["u", "&", ["param", "flags"]], d) and is_expr(n) and n[0] == "int" and n[1] == 8 for d, n in writes)
    ctx.ob("CheckInputScripts/key-commits-wtxid", "PROVENANCE", "the cache key's hash absorbs the 32 bytes of tx.GetWitnessHash()", has_wtxid, f.where, {"writes": data})
    ctx.ob("CheckInputScripts/key-commits-flags", "PROVENANCE", "the cache key's hash absorbs all 8 bytes of the `flags` parameter", has_flags, f.where, {"writes": data})
    rt = show(F.expand(root, subst)) if root[0] != "local" else None
    if root[0] == "local":
        inits = [strip(st["i"]) for st in stmts(f.body) if st.get("k") == "decl" and st.get("n") == root[1] and is_expr(st.get("i"))]
        rt = show(inits[0]) if len(inits) == 1 else None
        # the hasher local is used only by this chain
        others = [(l, show(p)[:80]) for l, p in uses_of_local(f, root[1]) if p is None or not is_call_to("CSHA256::Write", p)]
        ctx.ob("CheckInputScripts/hasher-private", "PROVENANCE", "the local hasher copy feeds only the key's hash chain", not others, f.where,
               None if not others else {"other_uses": others})
    acc = P.fn("ValidationCache::ScriptExecutionCacheHasher")
    rets = [e.value for e in exits(acc, P)]
    ok = rt == "validation_cache.ScriptExecutionCacheHasher()" and len(rets) == 1 and match([".", ["this"], "ValidationCache::m_script_execution_cache_hasher"], rets[0])
    ctor = ctx.used(P.fn("ValidationCache::ValidationCache"))
    salted = [x for _, e in all_exprs(ctor.body) for x in subexprs(e) if is_call_to("CSHA256::Write", x)
              and match([".", ["this"], "ValidationCache::m_script_execution_cache_hasher"], x[2])
              and contains(["call", "GetRandHash"], F.expand(call_args(x)[0], naming_x(ctor, P, also=("nonce",))))]
    ok = ok and bool(salted)
    ctx.ob("CheckInputScripts/key-salted", "PROVENANCE", "the key's hash chain starts from a copy of ValidationCache's hasher, which the constructor salts with GetRandHash()",
           ok, f.where, {"root": rt, "salt_writes": len(salted)})
    # key computed before use
    mf = MustFlow(f, P, marks=[("key", lambda e: e is fins[0])])
    mf.watch = lambda e: on_cache(CONT)(e) or on_cache(INS)(e)
    mf.run()
    ok = bool(mf.events) and all("key" in st for _, st, _ in mf.events)
    ctx.ob("CheckInputScripts/key-before-use", "ORDER", "the key is computed before every contains/insert", ok, f.where)
    # tx / flags are the same objects for key and execution
    wp = written_params(f) & {"tx", "flags", "txdata", "validation_cache", "pvChecks", "cacheFullScriptStore"}
    ctx.ob("CheckInputScripts/params-const", "PROVENANCE", "tx, flags, pvChecks and cacheFullScriptStore are never reassigned inside CheckInputScripts", not wp, f.where,
           None if not wp else {"written": sorted(wp)})
    # the script loop
    runs = sites(f, call_to("CScriptCheck::operator()"), P)
    ctx.floor("inline script executions", len(runs), 1)
    if any(not s.loops for s in runs) or len({s.loops[-1].get("l") for s in runs}) != 1:
        raise AnalysisBroken("CheckInputScripts: inline script execution is not inside one loop")
    L = runs[0].loops[-1]
    key = loop_range_key(L, subst)
    # the input index handed to CScriptCheck identifies the loop counter (both spellings of the loop are accepted)
    iv = None
    for s in runs:
        obj = call_obj(s.expr)
        if is_expr(obj) and obj[0] == "local":
            cd = [strip(st["i"]) for st in stmts(L) if st.get("k") == "decl" and st.get("n") == obj[1] and is_expr(st.get("i"))]
            if len(cd) == 1 and callee(cd[0]) == "CScriptCheck" and len(call_args(cd[0])) >= 4 and call_args(cd[0])[3][0] == "local":
                iv = call_args(cd[0])[3][1]
    if iv is None:
        raise AnalysisBroken("CheckInputScripts: the input index passed to CScriptCheck is not a local counter (idiom changed)")
    ok = input_counter(f, L, iv) and not has_break(L.get("b"))
    ctx.ob("CheckInputScripts/loop-complete", "LADDER", "the script loop visits every input of tx.vin exactly once (index loop 0 .. tx.vin.size()-1, or range-for over "
           "tx.vin with a counter incremented once per iteration) and has no break", ok, "%s:%s" % (f.file, L.get("l")), {"loop": key, "counter": iv})
    # CScriptCheck construction
    for s in runs:
        obj = call_obj(s.expr)
        if not (is_expr(obj) and obj[0] == "local"):
            raise AnalysisBroken("CheckInputScripts: executed check is not a local CScriptCheck")
        cdef = [strip(st["i"]) for st in stmts(L) if st.get("k") == "decl" and st.get("n") == obj[1] and is_expr(st.get("i"))]
        want = ["txdata.m_spent_outputs[%s]" % iv, "tx", "validation_cache.m_signature_cache", iv, "flags", None, "&txdata"]
        got = [show(a) for a in call_args(cdef[0])] if len(cdef) == 1 and callee(cdef[0]) == "CScriptCheck" else []
        ok = len(got) == 7 and all(w is None or w == g for w, g in zip(want, got))
        ctx.ob("CheckInputScripts/check-args@L%s" % s.line, "PROVENANCE", "the executed CScriptCheck is built from (txdata.m_spent_outputs[i], tx, signature cache, i, "
               "flags, ., &txdata) - the tx and flags hashed into the key", ok, s.where, {"args": got})
    DEFER = "pvChecks"
    FAILED = "%s()" % call_obj(runs[0].expr)[1]
    atoms = {"COINBASE": "tx.IsCoinBase()", "HIT": "validation_cache.m_script_execution_cache.contains(%s, !cacheFullScriptStore)" % K,
             "DONE": "done(loop@%s)" % L.get("l"), "STORE": "cacheFullScriptStore", "DEFER": DEFER, "FAILED": FAILED}
    # in-loop rejection
    ex = exits(f, P, subst)
    parts = []
    for e in ex:
        if L in e.loops and e.kind == "ret" and not is_true_ret(e):
            gs = [g for g in e.guards if g.line is not None and g.line >= L.get("l") and g.kind != "loop"]
            parts.append(F.mk_and([g.formula(subst) for g in gs]))
            ok = invalid_call(e.value) is not None
            ctx.ob("CheckInputScripts/loop-reject-kind@L%s" % e.line, "LADDER", "an exit inside the script loop is a state.Invalid(...) rejection", ok,
                   "%s:%s" % (f.file, e.line))
    rej, _, un = F.bind_atoms(F.mk_or(parts), atoms)
    cex = F.counterexample(F.parse("!DEFER && FAILED"), rej)
    ctx.ob("CheckInputScripts/loop-rejects", "LADDER", "in every iteration of the script loop: checks not deferred and the inline check reports an error => the function "
           "returns state.Invalid(...)", cex is None, "%s:%s" % (f.file, L.get("l")), None if cex is None else {"counterexample": cex, "reject_condition": F.fshow(rej)})
    for s in runs:
        fm, _, _ = F.bind_atoms(s.formula(subst), atoms)
        # executed whenever not deferred: the run's own in-loop guard is exactly !DEFER
        gs = [g for g in s.guards if g.line is not None and g.line >= L.get("l") and g.kind != "loop"]
        own, _, un = F.bind_atoms(F.mk_and([g.formula(subst) for g in gs]), atoms)
        ok = F.equivalent(own, F.parse("!DEFER"))
        ctx.ob("CheckInputScripts/inline-run@L%s" % s.line, "LADDER", "inside the loop the script check is executed inline exactly when checks are not deferred (pvChecks == nullptr)",
               ok, s.where, None if ok else {"guard": F.fshow(own)})
    check_guard(ctx, f, P, on_cache(INS), "!COINBASE && !HIT && DONE && STORE && !DEFER", atoms, "CheckInputScripts/insert",
                "the script-execution cache entry is inserted only after a miss, after every input's script ran inline without error, when asked to store", subst=subst)
    for e in ex:
        if is_true_ret(e):
            fm, _, un = F.bind_atoms(e.formula, atoms)
            cex = F.counterexample(fm, F.parse("COINBASE || HIT || DONE"))
            ctx.ob("CheckInputScripts/accept@L%s" % e.line, "LADDER", "CheckInputScripts returns true only for a coinbase, a cache hit, or after the complete script loop",
                   cex is None, "%s:%s" % (f.file, e.line), None if cex is None else {"counterexample": cex})


# --------------------------------------------------------------------------------------------------
def _ctor_inits(fn):
    return {i.get("f") or ("base:" + i.get("base", "")): i.get("i") for i in (fn.d.get("inits") or [])}


def script_check(ctx, P):
    ctors = [c for c in P.fns("CScriptCheck::CScriptCheck") if len(c.params) == 7]
    if len(ctors) != 1:
        raise AnalysisBroken("CScriptCheck 7-argument constructor not found")
    c = ctx.used(ctors[0])
    pn = [p["n"] for p in c.params]
    want = {"CScriptCheck::m_tx_out": ["param", pn[0]], "CScriptCheck::ptxTo": ["u", "&", ["param", pn[1]]], "CScriptCheck::m_signature_cache": ["u", "&", ["param", pn[2]]],
            "CScriptCheck::nIn": ["param", pn[3]], "CScriptCheck::m_flags": ["param", pn[4]], "CScriptCheck::cacheStore": ["param", pn[5]], "CScriptCheck::txdata": ["param", pn[6]]}
    got = _ctor_inits(c)
    badf = [k for k, v in want.items() if strip(got.get(k)) != v]
    body_writes = [show(x) for _, e in all_exprs(c.body) for x in subexprs(e) if x[0] == "b" and x[1] in ASSIGN_OPS]
    ctx.ob("CScriptCheck/ctor", "PROVENANCE", "CScriptCheck's constructor stores (spent output, &tx, &signature cache, nIn, flags, cacheStore, txdata) from the arguments in "
           "that position, unmodified", not badf and not body_writes, c.where, None if not badf else {"fields": {k: show(got.get(k)) if is_expr(got.get(k)) else None for k in badf}})
    op = ctx.used(P.fn("CScriptCheck::operator()"))
    subst = naming_x(op, P)
    vs = sites(op, call_to("VerifyScript"), P)
    ctx.floor("CScriptCheck::operator() VerifyScript calls", len(vs), 1)
    for s in vs:
        a = [show(F.expand(x, subst)) for x in call_args(s.expr)]
        want = ["ptxTo.vin[nIn].scriptSig", "m_tx_out.scriptPubKey", "&ptxTo.vin[nIn].scriptWitness", "m_flags",
                "CachingTransactionSignatureChecker{ptxTo, nIn, m_tx_out.nValue, cacheStore, *m_signature_cache, *txdata}"]
        ok = a[:5] == want
        ctx.ob("CScriptCheck/verify-args@L%s" % s.line, "PROVENANCE", "CScriptCheck::operator() verifies input nIn of ptxTo against m_tx_out.scriptPubKey under m_flags with a "
               "caching checker over (ptxTo, nIn, m_tx_out.nValue, cacheStore, signature cache, txdata)", ok, s.where, None if ok else {"args": a[:5]})
    vatom = None
    for e in exits(op, P, subst):
        if e.kind == "ret" and contains(["global", "std::nullopt"], e.value):
            ats = [x for x in F.atoms(e.formula) if x.startswith("VerifyScript(")]
            ok = len(ats) == 1 and F.implies(e.formula, F.atom(ats[0]))
            ctx.ob("CScriptCheck/success@L%s" % e.line, "LADDER", "CScriptCheck::operator() reports no error only if VerifyScript returned true", ok, "%s:%s" % (op.file, e.line))
            vatom = True
    if vatom is None:
        raise AnalysisBroken("CScriptCheck::operator(): no `return std::nullopt` exit")
    cc = ctx.used(P.fn("CachingTransactionSignatureChecker::CachingTransactionSignatureChecker"))
    pn = [p["n"] for p in cc.params]
    got = _ctor_inits(cc)
    base = [v for k, v in got.items() if k.startswith("base:")]
    ok = len(pn) == 6 and len(base) == 1 and [show(x) for x in call_args(base[0])[:4]] == [pn[0], pn[1], pn[2], pn[5]] and \
        strip(got.get("CachingTransactionSignatureChecker::store")) == ["param", pn[3]] and strip(got.get("CachingTransactionSignatureChecker::m_signature_cache")) == ["param", pn[4]]
    ctx.ob("CachingChecker/ctor", "PROVENANCE", "the caching checker hands (tx, nIn, amount, txdata) to the base checker and keeps `store` and the cache reference", ok, cc.where)


# --------------------------------------------------------------------------------------------------
def sig_entries(ctx, P):
    roots = {}
    for scheme in ("ECDSA", "Schnorr"):
        f = ctx.used(P.fn("SignatureCache::ComputeEntry" + scheme))
        pn = [p["n"] for p in f.params]
        if len(pn) != 4:
            raise AnalysisBroken("%s: parameters changed" % f.q)
        fins = [x for _, e in all_exprs(f.body) for x in subexprs(e) if is_call_to("CSHA256::Finalize", x)]
        if len(fins) != 1:
            raise AnalysisBroken("%s: expected one Finalize" % f.q)
        root, writes, target = hash_chain(fins[0])
        tgt_ok = is_expr(target) and target[0] == "mcall" and target[2] == ["param", pn[0]] and target[1].endswith("::begin")
        covered = set()
        for d, n in writes:
            for p in pn[1:]:
                if is_expr(d) and d[0] == "mcall" and d[2] == ["param", p]:
                    # length: 32 for the uint256, else <same param>.size()
                    if (is_expr(n) and n[0] == "int" and n[1] == 32 and "uint256" in f.params[pn.index(p)]["ty"]) or \
                            (is_expr(n) and n[0] == "mcall" and n[1].endswith("::size") and n[2] == ["param", p]) or \
                            (is_expr(n) and n[0] == "call" and n[1].endswith("::size") and n[1].rsplit("::", 1)[0] in f.params[pn.index(p)]["ty"]):
                        covered.add(p)
        ok = tgt_ok and covered == set(pn[1:])
        ctx.ob("SignatureCache/entry-%s" % scheme, "PROVENANCE", "ComputeEntry%s hashes the complete sighash, public key and signature into the entry" % scheme, ok, f.where,
               None if ok else {"covered": sorted(covered), "params": pn, "writes": [(show(d), show(n)) for d, n in writes]})
        r = None
        if root[0] == "local":
            inits = [strip(st["i"]) for st in stmts(f.body) if st.get("k") == "decl" and st.get("n") == root[1] and is_expr(st.get("i"))]
            if len(inits) == 1 and match([".", ["this"], ANY], inits[0]):
                r = inits[0][2]
        roots[scheme] = r
    ctor = ctx.used(P.fn("SignatureCache::SignatureCache"))
    subst = naming_x(ctor, P, also=("nonce",))
    fed = {}
    for _, e in all_exprs(ctor.body):
        for x in subexprs(e):
            if is_call_to("CSHA256::Write", x) and match([".", ["this"], ANY], x[2]):
                fed.setdefault(x[2][2], []).append(F.expand(call_args(x)[0], subst))
    pads = {}
    for st in stmts(ctor.body):
        if st.get("k") == "decl" and st.get("static") and is_expr(st.get("i")):
            pads[st["n"]] = show(st["i"])
    def padval(e):
        return pads.get(e[1].rsplit("::", 1)[-1]) if is_expr(e) and e[0] == "global" else None
    pe = [padval(x) for x in fed.get(roots["ECDSA"], []) if padval(x)]
    ps = [padval(x) for x in fed.get(roots["Schnorr"], []) if padval(x)]
    ok = roots["ECDSA"] and roots["Schnorr"] and roots["ECDSA"] != roots["Schnorr"] and \
        all(any(contains(["call", "GetRandHash"], x) for x in fed.get(r, [])) for r in roots.values()) and \
        len(pe) == 1 and len(ps) == 1 and pe != ps
    ctx.ob("SignatureCache/salts", "PROVENANCE", "ECDSA and Schnorr entries start from different member hashers, both salted with GetRandHash() and domain-separated by "
           "different padding constants", bool(ok), ctor.where, {"roots": roots, "paddings": [pe, ps]})
    g, s = ctx.used(P.fn("SignatureCache::Get")), ctx.used(P.fn("SignatureCache::Set"))
    gv = [e.value for e in exits(g, P) if e.kind == "ret"]
    ok = len(gv) == 1 and is_call_to("CuckooCache::cache::contains", gv[0]) and match([".", ["this"], "SignatureCache::setValid"], gv[0][2]) and \
        call_args(gv[0])[0] == ["param", g.params[0]["n"]]
    ins = sites(s, call_to("CuckooCache::cache::insert"), P)
    ok = ok and len(ins) == 1 and match([".", ["this"], "SignatureCache::setValid"], ins[0].expr[2]) and call_args(ins[0].expr)[0] == ["param", s.params[0]["n"]]
    ctx.ob("SignatureCache/get-set", "PROVENANCE", "Get returns setValid.contains(entry, .) and Set inserts exactly its entry into setValid", ok, g.where)


def caching_checker(ctx, P, scheme):
    f = ctx.used(P.fn("CachingTransactionSignatureChecker::Verify%sSignature" % scheme))
    subst = naming_x(f, P)
    pn = [p["n"] for p in f.params]
    comp = sites(f, call_to("SignatureCache::ComputeEntry" + scheme), P)
    gets, sets = sites(f, call_to("SignatureCache::Get"), P), sites(f, call_to("SignatureCache::Set"), P)
    base = sites(f, call_to("GenericTransactionSignatureChecker::Verify%sSignature" % scheme), P)
    if len(comp) != 1 or len(gets) != 1 or len(base) != 1 or len(sets) < 1:
        raise AnalysisBroken("%s: expected one ComputeEntry, one Get, one base verification and a Set (found %d/%d/%d/%d)" % (f.q, len(comp), len(gets), len(base), len(sets)))
    ca = call_args(comp[0].expr)
    ent = ca[0]
    if ent[0] != "local":
        raise AnalysisBroken("%s: entry is not a local" % f.q)
    E = ent[1]
    ok = sorted(show(x) for x in ca[1:]) == sorted(pn) and sorted(show(x) for x in call_args(base[0].expr)) == sorted(pn) and base[0].expr[2] == ["this"]
    ctx.ob("Caching%s/entry-args" % scheme, "PROVENANCE", "the cache entry is computed from exactly the (signature, public key, sighash) that the base-class verification is given",
           ok, comp[0].where, {"entry_from": [show(x) for x in ca[1:]], "verified": [show(x) for x in call_args(base[0].expr)]})
    uses = uses_of_local(f, E)
    okuse = all(p is not None and callee(p) in ("SignatureCache::ComputeEntry" + scheme, "SignatureCache::Get", "SignatureCache::Set") and call_args(p)[0] == ["local", E] for _, p in uses)
    ctx.ob("Caching%s/entry-uses" % scheme, "PROVENANCE", "the entry variable is only written by ComputeEntry%s and only passed to Get/Set" % scheme, okuse, f.where)
    mf = MustFlow(f, P, marks=[("entry", call_to("SignatureCache::ComputeEntry" + scheme))])
    mf.watch = lambda e: is_call_to("SignatureCache::Get", e) or is_call_to("SignatureCache::Set", e)
    mf.run()
    ok = bool(mf.events) and all("entry" in st for _, st, _ in mf.events)
    ctx.ob("Caching%s/entry-before-use" % scheme, "ORDER", "ComputeEntry%s precedes every Get/Set" % scheme, ok, f.where)
    atoms = {"HIT": "m_signature_cache.Get(%s, !store)" % E, "STORE": "store",
             "BASEOK": "GenericTransactionSignatureChecker::Verify%sSignature(%s)" % (scheme, ", ".join(show(x) for x in call_args(base[0].expr)))}
    check_guard(ctx, f, P, call_to("SignatureCache::Set"), "!HIT && BASEOK && STORE", atoms, "Caching%s/Set" % scheme,
                "a signature-cache entry is stored only after a miss and a successful base-class verification, when storing is enabled", subst=subst)
    n = 0
    for e in exits(f, P, subst):
        fm, _, un = F.bind_atoms(e.formula, atoms)
        where = "%s:%s" % (f.file, e.line)
        if is_true_ret(e):
            cex = F.counterexample(fm, F.parse("HIT || BASEOK"))
            ctx.ob("Caching%s/true@L%s" % (scheme, e.line), "LADDER", "the caching checker returns true only on a cache hit or after the base-class verification succeeded",
                   cex is None, where, None if cex is None else {"counterexample": cex, "unbound": un})
            n += 1
        elif is_false_ret(e):
            cex = F.counterexample(fm, F.parse("!HIT && !BASEOK"))
            ctx.ob("Caching%s/false@L%s" % (scheme, e.line), "LADDER", "the caching checker returns false only on a miss whose base-class verification failed",
                   cex is None, where, None if cex is None else {"counterexample": cex, "unbound": un})
            n += 1
        else:
            ctx.ob("Caching%s/exit@L%s" % (scheme, e.line), "LADDER", "every exit of the caching checker is a literal true/false", False, where)
    ctx.floor("Caching%s exits" % scheme, n, 3)
