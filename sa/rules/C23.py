"""C23 Block templates built from the mempool are always valid (DESIGN §3 C23)."""
import re

from sa.engine.api import *
from sa.engine import callgraph
from sa.rules._helpers_D import *

UNITS = ["node/miner.cpp", "node/mining_args.cpp", "validation.cpp", "rpc/mining.cpp", "txgraph.cpp"]
BA = "node::BlockAssembler::"
EXPLANATION = ("MPT/ORDER on BlockAssembler::CreateNewBlock: the template is returned only if test_block_validity is off or TestBlockValidity(chainstate, *pblock) "
               "reported a valid state, and TestBlockValidity runs after the last write to the block; PROVENANCE: the coinbase output value is "
               "nFees + GetBlockSubsidy(nHeight, consensus), written once, after chunk selection, with nHeight = tip height + 1, and nFees is written only by "
               "resetBlock (= 0) and AddToBlock (+= entry.GetFee(), next to the vtx push and the weight / sigop counters); resetBlock initialises the counters with "
               "the reserved weight and the reserved coinbase sigops and runs before selection. LADDER: TestChunkBlockLimits accepts only if weight + chunk < "
               "block_max_weight and sigops + chunk < MAX_BLOCK_SIGOPS_COST; TestChunkTransactions rejects when any transaction is not IsFinalTx(tx, nHeight, "
               "m_lock_time_cutoff) with the cutoff = tip median-time-past; addChunks includes a chunk (AddToBlock for every selected transaction) only past both "
               "tests called on that chunk's own feerate / summed sigops / transactions. CheckMiningOptions accepts only block_max_weight <= MAX_BLOCK_WEIGHT, "
               "reserved <= max, coinbase sigops <= MAX_BLOCK_SIGOPS_COST, and the BlockAssembler constructor throws otherwise. SYMMETRY miner/consensus: the "
               "condition under which GetMinimumTime applies the BIP94 timewarp floor (height expression % modulus == 0) and the floor itself (prev block time - "
               "MAX_TIMEWARP) are extracted from the facts and compared with the `time-timewarp-attack` rung of ContextualCheckBlockHeader (same height term, every "
               "caller passes DifficultyAdjustmentInterval() as the modulus, same bound); min_time starts at the `time-too-old` bound + 1; UpdateTime sets nTime from "
               "max(GetMinimumTime, now) and CreateNewBlock always calls it on the tip. TOPOLOGY (necessary condition of parents-before-children): "
               "BlockBuilderImpl::m_known_end_of_cluster is written only by Next (false) and GetCurrentChunk, where the literal true is stored exactly under the "
               "end-of-cluster sentinel m_chunk_count == LinearizationIndex(-1) and otherwise the result of Cluster::GetClusterRefs; Skip() excludes the current "
               "cluster whenever there is one and the flag is not set, then advances; Next() stops only at the end or at a chunk whose cluster is not excluded; the "
               "mempool wrappers map SkipBuilderChunk/IncludeBuilderChunk/GetBlockBuilderChunk to Skip/Include/GetCurrentChunk, and addChunks calls Skip exactly "
               "when the chunk is not added and Include (with AddToBlock) exactly when it is.")
ASSUMPTIONS = ["TestBlockValidity performs full consensus validation of the block on top of the tip (C01-C06)",
               "CTxMemPool::GetBlockBuilderChunk returns chunks in a topologically valid order with their total weight in FeePerWeight::size (TxGraph BlockBuilder, not decided)",
               "CTxMemPoolEntry::GetTxWeight / GetSigOpCost / GetFee are the entry's weight, sigop cost and base fee"]
CLAIM = dict(
    technique="static analysis: must-pass-through / must-flow ordering, value provenance of the coinbase amount and the resource counters, reject-ladder conformance, who-may-write",
    text="For every path of CreateNewBlock: a template is handed out only past TestBlockValidity on its final contents (when enabled); the coinbase pays exactly "
         "subsidy(height) + the sum of GetFee() of the included entries; a chunk enters the block only if the running weight (starting at the reserved weight) "
         "stays below block_max_weight <= 4,000,000, the running sigop cost (starting at the reserved coinbase sigops) stays below 80,000, and every "
         "transaction of the chunk is final at the next height and the tip's median time past. miner_tests sample a few mempools.",
    note="Not decided: validity over all mempools as a semantic fact, parent-before-child order inside the template (TxGraph BlockBuilder), weight/sigop "
         "arithmetic of entries.",
    ref="DESIGN.md §3 C23")


def _field(name):
    return lambda e: is_expr(e) and e[0] == "." and e[2] == "node::BlockAssembler::" + name


def _writes(fn, P, name):
    return field_writes(fn, P, "node::BlockAssembler::" + name)


def check(ctx):
    P = ctx.program(UNITS)
    ctx.ob("const/MAX_BLOCK_SIGOPS_COST", "CONST", "MAX_BLOCK_SIGOPS_COST == 80000", P.const("MAX_BLOCK_SIGOPS_COST") == 80000, None)
    ctx.ob("const/MAX_BLOCK_WEIGHT", "CONST", "MAX_BLOCK_WEIGHT == 4000000", P.const("MAX_BLOCK_WEIGHT") == 4000000, None)
    _create_new_block(ctx, P)
    _counters(ctx, P)
    _chunk_tests(ctx, P)
    _add_chunks(ctx, P)
    _options(ctx, P)
    _min_time(ctx, P)
    _block_builder(ctx, P)


def _create_new_block(ctx, P):
    f = ctx.used(P.fn(BA + "CreateNewBlock"))
    sub = naming(f, P)
    rets = [e for e in exits(f, P, sub) if e.kind == "ret"]
    ctx.floor("CreateNewBlock returns", len(rets), 1)
    # the state tested is TestBlockValidity's result on this block
    tb = sites(f, call_to("TestBlockValidity"), P)
    if len(tb) != 1:
        raise AnalysisBroken("CreateNewBlock: expected one TestBlockValidity call, found %d" % len(tb))
    st = tb[0].stmt
    var = st.get("n") if st.get("k") == "decl" else None
    blk = call_args(tb[0].expr)[1] if len(call_args(tb[0].expr)) > 1 else None
    okb = blk is not None and xkey(blk, sub) in ("*pblock", "pblocktemplate.block", "*&pblocktemplate.block")
    pdecl = [s for s in stmts(f.body) if s.get("k") == "decl" and s.get("n") == "pblock"]
    okp = len(pdecl) == 1 and show(pdecl[0].get("i")) == "&pblocktemplate.block"
    ctx.ob("CreateNewBlock/tested-block", "PROVENANCE", "TestBlockValidity is given the template's own block (pblock = &pblocktemplate->block) on m_chainstate", okb and okp and
           show(call_args(tb[0].expr)[0]) == "m_chainstate", tb[0].where, {"args": [show(a) for a in call_args(tb[0].expr)]})
    for e in rets:
        okr = show(e.value) in ("pblocktemplate", "std::move(pblocktemplate)")
        ctx.ob("CreateNewBlock/returns-template@L%s" % e.line, "PROVENANCE", "the returned object is pblocktemplate", okr, "%s:%s" % (f.file, e.line), {"value": show(e.value)})
        implies_ob(ctx, "CreateNewBlock/valid@L%s" % e.line, "MPT", "the template is returned only if block validity testing is disabled or TestBlockValidity's state is valid",
                   e.formula, "!TEST || VALID", {"TEST": "m_options.test_block_validity", "VALID": "%s.IsValid()" % (var or "state")}, "%s:%s" % (f.file, e.line))
    ctx.ob("CreateNewBlock/state-var", "PROVENANCE", "the tested state is the variable initialised by TestBlockValidity", var is not None, tb[0].where)

    # order: nothing touches the block after the test; coinbase value written after selection
    def block_write(e):
        if e[0] == "b" and e[1] in ASSIGN_OPS and is_expr(e[2]):
            t = show(e[2])
            return t.startswith("pblock.") or t.startswith("pblocktemplate.block")
        c = callee(e)
        if c in ("ChainstateManager::GenerateCoinbaseCommitment", "node::UpdateTime", "UpdateTime", "node::BlockAssembler::addChunks", "node::BlockAssembler::AddToBlock"):
            return True
        if c and c.rsplit("::", 1)[-1] in ("emplace_back", "push_back", "resize", "clear", "erase", "insert") and is_expr(call_obj(e)) and \
                (show(call_obj(e)).startswith("pblock.") or show(call_obj(e)).startswith("pblocktemplate.block")):
            return True
        return False

    mf = MustFlow(f, P, marks=[("TESTED_OR_OFF", call_to("TestBlockValidity")), ("RESET", call_to(BA + "resetBlock")), ("SELECTED", call_to(BA + "addChunks")),
                               ("CUTOFF", lambda e: e[0] == "b" and e[1] == "=" and _field("m_lock_time_cutoff")(e[2])),
                               ("HEIGHT", lambda e: e[0] == "b" and e[1] == "=" and _field("nHeight")(e[2]))],
                  branch_marks=[("TESTED_OR_OFF", lambda a: show(a) == "m_options.test_block_validity", False),
                                ("SELECTED", lambda a: match([".", ["this"], "node::BlockAssembler::m_mempool"], a), False)],
                  kills=[("TESTED_OR_OFF", block_write)])
    mf.watch = lambda e: is_call_to(BA + "addChunks", e) or (e[0] == "b" and e[1] == "=" and show(e[2]).endswith(".nValue"))
    mf.run()
    rexits = [(stt, s) for stt, s in mf.exits if s.get("k") == "ret"]
    for stt, s in rexits:
        ctx.ob("CreateNewBlock/tested-last@L%s" % s.get("l"), "ORDER", "when validity testing is enabled TestBlockValidity runs after the last modification of the block "
               "(no write to the block between the test and the return)", "TESTED_OR_OFF" in stt, "%s:%s" % (f.file, s.get("l")))
    sel = [(e, stt, s) for e, stt, s in mf.events if is_call_to(BA + "addChunks", e)]
    ctx.floor("addChunks calls", len(sel), 1)
    for e, stt, s in sel:
        ctx.ob("CreateNewBlock/before-selection@L%s" % s.get("l"), "ORDER", "chunk selection runs after resetBlock and after nHeight and m_lock_time_cutoff were set",
               {"RESET", "CUTOFF", "HEIGHT"} <= set(stt), "%s:%s" % (f.file, s.get("l")), {"done": sorted(stt)})
    val = [(e, stt, s) for e, stt, s in mf.events if not is_call_to(BA + "addChunks", e)]
    ok = len(val) == 1 and xkey(val[0][0][3], sub) in ("nFees + GetBlockSubsidy(nHeight, chainparams.GetConsensus())", "GetBlockSubsidy(nHeight, chainparams.GetConsensus()) + nFees") \
        and "SELECTED" in val[0][1] and show(val[0][0][2]) == "coinbaseTx.vout[0].nValue"
    ctx.ob("CreateNewBlock/coinbase-value", "PROVENANCE", "the coinbase output value is written once, after chunk selection, as nFees + GetBlockSubsidy(nHeight, consensus params)",
           ok, "%s:%s" % (f.file, val[0][2].get("l")) if val else f.where, {"writes": [show(e) for e, _, _ in val]})
    cb = [s for s in sites(f, lambda e: e[0] == "b" and e[1] == "=" and show(e[2]) == "pblock.vtx[0]", P)]
    ok = len(cb) == 1 and "coinbaseTx" in show(cb[0].expr[3]) and val and cb[0].line > val[0][2].get("l")
    ctx.ob("CreateNewBlock/coinbase-installed", "PROVENANCE", "the transaction carrying that value becomes vtx[0] afterwards", bool(ok), cb[0].where if cb else f.where)
    hs = [s for s in sites(f, lambda e: e[0] == "b" and e[1] == "=" and _field("nHeight")(e[2]), P)]
    ok = len(hs) == 1 and xkey(hs[0].expr[3], sub) in ("1 + m_chainstate.m_chain.Tip().nHeight", "m_chainstate.m_chain.Tip().nHeight + 1")
    ctx.ob("CreateNewBlock/height", "PROVENANCE", "nHeight = tip height + 1", ok, hs[0].where if hs else f.where, {"value": xkey(hs[0].expr[3], sub) if hs else None})
    cs = [s for s in sites(f, lambda e: e[0] == "b" and e[1] == "=" and _field("m_lock_time_cutoff")(e[2]), P)]
    ok = len(cs) == 1 and xkey(cs[0].expr[3], sub) == "m_chainstate.m_chain.Tip().GetMedianTimePast()"
    ctx.ob("CreateNewBlock/cutoff", "PROVENANCE", "m_lock_time_cutoff = tip median time past", ok, cs[0].where if cs else f.where)


def _counters(ctx, P):
    rb = ctx.used(P.fn(BA + "resetBlock"))
    want = {"nBlockWeight": r"\*ASSERT\(m_options\.block_reserved_weight\)|\*m_options\.block_reserved_weight", "nBlockSigOpsCost": r"m_options\.coinbase_output_max_additional_sigops",
            "nFees": "0", "nBlockTx": "0"}
    for name, pat in want.items():
        ws = _writes(rb, P, name)
        ok = len(ws) == 1 and ws[0].expr[1] == "=" and re.fullmatch(pat, show(ws[0].expr[3])) is not None and not [g for g in ws[0].guards if g.kind != "post"]
        ctx.ob("resetBlock/%s" % name, "PROVENANCE", "resetBlock sets %s = %s" % (name, pat.replace("\\", "")), ok, ws[0].where if ws else rb.where,
               {"writes": [show(s.expr) for s in ws]})
    ab = ctx.used(P.fn(BA + "AddToBlock"))
    want = {"nBlockWeight": ("+=", "entry.GetTxWeight()"), "nBlockSigOpsCost": ("+=", "entry.GetSigOpCost()"), "nFees": ("+=", "entry.GetFee()")}
    for name, (op, val) in want.items():
        ws = _writes(ab, P, name)
        ok = len(ws) == 1 and ws[0].expr[0] == "b" and ws[0].expr[1] == op and show(ws[0].expr[3]) == val and not [g for g in ws[0].guards if g.kind != "post"]
        ctx.ob("AddToBlock/%s" % name, "PROVENANCE", "AddToBlock unconditionally does %s %s %s" % (name, op, val), ok, ws[0].where if ws else ab.where,
               {"writes": [show(s.expr) for s in ws]})
    push = [s for s in sites(ab, lambda e: callee(e) in ("std::vector::emplace_back", "std::vector::push_back") and show(call_obj(e)) == "pblocktemplate.block.vtx", P)]
    ok = len(push) == 1 and [show(a) for a in call_args(push[0].expr)] == ["entry.GetSharedTx()"] and not [g for g in push[0].guards if g.kind != "post"]
    ctx.ob("AddToBlock/vtx", "PROVENANCE", "AddToBlock appends exactly the entry's transaction to the block", ok, push[0].where if push else ab.where)
    cg = callgraph.load_all()
    for fld, allowed in (("nFees", {BA + "resetBlock", BA + "AddToBlock"}), ("nBlockWeight", {BA + "resetBlock", BA + "AddToBlock"}),
                         ("nBlockSigOpsCost", {BA + "resetBlock", BA + "AddToBlock"}), ("nHeight", {BA + "CreateNewBlock"}),
                         ("m_lock_time_cutoff", {BA + "CreateNewBlock"})):
        w = {x[0] for x in cg.writers(BA + fld)} - {BA + "BlockAssembler"}
        ctx.ob("who-writes/%s" % fld, "WHO-MAY-WRITE", "BlockAssembler::%s is written only by %s" % (fld, sorted(allowed)), bool(w) and w <= allowed, None, {"writers": sorted(w)})
    for q, allowed in ((BA + "AddToBlock", {BA + "addChunks"}), (BA + "addChunks", {BA + "CreateNewBlock"})):
        c = set(cg.callers(q))
        ctx.ob("who-calls/%s" % q.rsplit("::", 1)[-1], "WHO-MAY-CALL", "%s is called only from %s" % (q, sorted(allowed)), bool(c) and c <= allowed, None, {"callers": sorted(c)})


def _chunk_tests(ctx, P):
    f = ctx.used(P.fn(BA + "TestChunkBlockLimits"))

    def sig(key):
        m = re.fullmatch(r"(?:chunk_sigops_cost \+ nBlockSigOpsCost|nBlockSigOpsCost \+ chunk_sigops_cost) < (\d+)", key)
        return bool(m) and int(m.group(1)) <= 80000

    accept_implies(ctx, f, P, is_true_ret, "WEIGHT_FITS && SIGOPS_FIT",
                   {"WEIGHT_FITS": re.compile(r"(chunk_feerate\.size \+ nBlockWeight|nBlockWeight \+ chunk_feerate\.size) < \*m_options\.block_max_weight"), "SIGOPS_FIT": sig},
                   "TestChunkBlockLimits/accept", "a chunk fits only if nBlockWeight + chunk weight < block_max_weight and nBlockSigOpsCost + chunk sigops < MAX_BLOCK_SIGOPS_COST")
    g = ctx.used(P.fn(BA + "TestChunkTransactions"))
    check_ladder(ctx, g, P, [
        Rung("non-final transaction", "NONFINAL", {"NONFINAL": (re.compile(r"IsFinalTx\(each\(txs\)\.get\(\)\.GetTx\(\), nHeight, m_lock_time_cutoff\)"), False)}, loop=r"each\(txs\)"),
    ], is_accept=is_true_ret, is_reject=is_false_ret, oid="TestChunkTransactions")


def _add_chunks(ctx, P):
    f = ctx.used(P.fn(BA + "addChunks"))
    sub = naming(f, P)
    atoms = {"FITS": re.compile(r"node::BlockAssembler::TestChunkBlockLimits\(\w+, \w+\)"), "FINAL": re.compile(r"node::BlockAssembler::TestChunkTransactions\(\w+\)")}
    inc = sites(f, lambda e: callee(e) in (BA + "AddToBlock", "CTxMemPool::IncludeBuilderChunk"), P)
    ctx.floor("addChunks inclusion sites", len(inc), 2)
    site_implies(ctx, inc, sub, "FITS && FINAL", atoms, "addChunks/include", "a chunk is included only past TestChunkBlockLimits and TestChunkTransactions")
    lim = sites(f, call_to(BA + "TestChunkBlockLimits"), P)
    fin = sites(f, call_to(BA + "TestChunkTransactions"), P)
    add = sites(f, call_to(BA + "AddToBlock"), P)
    if len(lim) != 1 or len(fin) != 1 or len(add) != 1:
        raise AnalysisBroken("addChunks: expected one call each of TestChunkBlockLimits, TestChunkTransactions, AddToBlock")
    fr, so = call_args(lim[0].expr)[:2]
    sel = call_args(fin[0].expr)[0]
    ok = fr[0] == "local" and so[0] == "local" and sel[0] == "local"
    if not ok:
        raise AnalysisBroken("addChunks: test arguments are not plain locals")
    # the feerate and the transactions come from the same GetBlockBuilderChunk call
    gets = sites(f, lambda e: e[0] == "b" and e[1] == "=" and match(["local", fr[1]], e[2]) and is_call_to("CTxMemPool::GetBlockBuilderChunk", e[3]), P)
    nondefault = [v for _, v in local_values(f, fr[1]) if not (is_expr(v) and v[0] == "ctor" and len(v) == 2)]
    okg = len(gets) >= 1 and all([show(a) for a in call_args(s.expr[3])] == [sel[1]] for s in gets) and len(gets) == len(nondefault) and \
        min(s.line for s in gets) < lim[0].line
    ctx.ob("addChunks/chunk-source", "PROVENANCE", "the weight tested (`%s`) is only ever the result of GetBlockBuilderChunk(%s), the call that fills the tested / added transactions" % (fr[1], sel[1]),
           okg, gets[0].where if gets else f.where, {"values": [show(v) for _, v in local_values(f, fr[1])]})
    # summed sigops over exactly those transactions, before the test
    vals = local_values(f, so[1])
    accs = [s for s in sites(f, lambda e: e[0] == "b" and e[1] == "+=" and match(["local", so[1]], e[2]), P)]
    oks = len(accs) == 1 and accs[0].loops and loop_range_key(accs[0].loops[-1], sub) == "each(%s)" % sel[1] and loop_is_total(accs[0].loops[-1]) and \
        not in_loop_guards(accs[0], accs[0].loops[-1]) and xkey(accs[0].expr[3], site_subst(sub, accs[0])) == "each(%s).get().GetSigOpCost()" % sel[1] and \
        F.implies(lim[0].formula(sub), done_atom(accs[0].loops[-1])) and any(match(["int", 0], v) for _, v in vals)
    ctx.ob("addChunks/chunk-sigops", "PROVENANCE", "the sigop cost tested is 0 + GetSigOpCost() of every transaction of the chunk, summed before the test", bool(oks),
           accs[0].where if accs else f.where, {"values": [show(v) for _, v in vals]})
    a = add[0]
    oka = a.loops and loop_range_key(a.loops[-1], sub) == "each(%s)" % sel[1] and loop_is_total(a.loops[-1]) and not in_loop_guards(a, a.loops[-1]) and \
        xkey(call_args(a.expr)[0], site_subst(sub, a)).startswith("each(%s)" % sel[1])
    ctx.ob("addChunks/add-all", "PROVENANCE", "every transaction of the tested chunk (and nothing else) is added", bool(oka), a.where)
    # the declared-then-cleared vector: cleared before each refill
    mf = MustFlow(f, P, marks=[("CLEARED", lambda e: callee(e) == "std::vector::clear" and match(["local", sel[1]], call_obj(e)))],
                  kills=[("CLEARED", call_to(BA + "AddToBlock"))])
    mf.watch = lambda e: is_call_to("CTxMemPool::GetBlockBuilderChunk", e)
    mf.run()
    inloop = [(e, st, s) for e, st, s in mf.events if s.get("l") > lim[0].line]
    ok = bool(inloop) and all("CLEARED" in st for _, st, _ in inloop)
    ctx.ob("addChunks/clear-before-next", "ORDER", "the chunk vector is cleared before the next chunk is fetched (no transaction is tested or added twice)", ok, f.where)


def _options(ctx, P):
    f = ctx.used(P.fn("node::CheckMiningOptions"))

    def le(prefix, k):
        def m(key):
            mm = re.fullmatch(prefix + r" < (\d+)", key)
            return bool(mm) and int(mm.group(1)) <= k
        return m

    is_ok = lambda e: e.kind == "ret" and is_expr(e.value) and not contains(["ctor", "util::Error"], e.value) and not contains(["init", "util::Error"], e.value)
    accept_implies(ctx, f, P, is_ok, "MAX_OK && !RES_GT_MAX && SIGOPS_OK",
                   {"MAX_OK": le(r"\*options\.block_max_weight", 4000001), "RES_GT_MAX": "*options.block_max_weight < *options.block_reserved_weight",
                    "SIGOPS_OK": le(r"options\.coinbase_output_max_additional_sigops", 80001)}, "CheckMiningOptions/accept",
                   "mining options are accepted only if block_max_weight <= MAX_BLOCK_WEIGHT, the reserved weight does not exceed it and the reserved coinbase sigops <= MAX_BLOCK_SIGOPS_COST")
    fl = [s for s in sites(f, lambda e: e[0] == "b" and e[1] == "=" and match(["param", "options"], e[2]) and any(is_call_to("node::FlattenMiningOptions", x) for x in subexprs(e[3])), P)]
    ctx.ob("CheckMiningOptions/flattened", "PROVENANCE", "the limits are checked on the flattened (defaults filled in) options", len(fl) == 1 and not [g for g in fl[0].guards], f.where)
    ct = ctx.used(P.fn(BA + "BlockAssembler"))
    lam = [x for i in (ct.d.get("inits") or []) if i.get("f") == "node::BlockAssembler::m_options" and is_expr(i.get("i")) for x in subexprs(i["i"]) if x[0] == "lambda"]
    ok = False
    if len(lam) == 1 and len(P.fns(lam[0][1])) == 1:
        g = inline_condvars(P.fns(lam[0][1])[0], inits=True)
        gsub = naming(g, P)
        rets = [e for e in exits(g, P, gsub) if e.kind == "ret"]
        ok = bool(rets)
        for e in rets:
            gb, _, un = F.bind_atoms(e.formula, {"CHECKED": re.compile(r"node::CheckMiningOptions\(options, \w+\)")})
            ok = ok and F.counterexample(gb, F.parse("CHECKED")) is None and any(is_call_to("node::FlattenMiningOptions", x) for x in subexprs(e.value))
    ctx.ob("BlockAssembler/options-checked", "MPT", "a BlockAssembler's options are installed only if CheckMiningOptions succeeded (otherwise the constructor throws), flattened",
           ok, ct.where)


# ------------------------------------------------------------------------------------------ miner time floor vs. consensus timestamp rungs

def _canon_prev(fn, e, subst):
    """key of e with single-definition locals expanded and the function's `const CBlockIndex*` parameter renamed to PREV"""
    prevs = [p["n"] for p in fn.params if "CBlockIndex" in p.get("ty", "")]
    e = F.expand(e, subst)

    def ren(x):
        if isinstance(x, list):
            if len(x) == 2 and x[0] == "param" and x[1] in prevs:
                return ["param", "PREV"]
            return [ren(y) for y in x]
        return x
    return F.key(ren(e))


def _mods(e):
    return [x for x in subexprs(e) if x[0] == "b" and x[1] == "%"]


def _min_time(ctx, P):
    gm = ctx.used(P.fn("node::GetMinimumTime"))
    gs = naming(gm, P)
    cc = ctx.used(P.fn("ContextualCheckBlockHeader"))
    cs = naming(cc, P)
    # ---- consensus side: the two timestamp rungs
    rung = {}
    for e in exits(cc, P, cs):
        ic = invalid_call(e.value)
        if ic and ic[1] in ("time-timewarp-attack", "time-too-old"):
            rung[ic[1]] = e
    if set(rung) != {"time-timewarp-attack", "time-too-old"}:
        raise AnalysisBroken("ContextualCheckBlockHeader: timestamp rungs not found (%s)" % sorted(rung))
    tw = rung["time-timewarp-attack"]
    tw_guards = [g for g in tw.guards if g.kind in ("if", "sc")]
    c_mod = [m for g in tw_guards for m in _mods(F.expand(g.expr, cs))]
    c_cmp = [x for g in tw_guards for x in subexprs(F.expand(g.expr, cs)) if x[0] == "b" and x[1] in ("<", ">", "<=", ">=") and "GetBlockTime" in show(x)]
    if len(c_mod) != 1 or len(c_cmp) != 1:
        raise AnalysisBroken("ContextualCheckBlockHeader: time-timewarp-attack rung has an unexpected shape")
    # the rung fires when  H % M == 0  and  block time < bound
    twf, _, _ = F.bind_atoms(F.mk_and([g.formula(cs) for g in tw_guards]), {"MOD": F.key(F.expand(c_mod[0], cs)), "EARLY": re.compile(r"block\.GetBlockTime\(\) < .*")})
    ok_shape = F.counterexample(twf, F.parse("!MOD && EARLY")) is None and c_cmp[0][1] == "<" and show(c_cmp[0][2]) == "block.GetBlockTime()"
    ctx.ob("ContextualCheckBlockHeader/timewarp-shape", "LADDER", "the time-timewarp-attack rung fires only when height % interval == 0 and block time < previous block time - MAX_TIMEWARP",
           ok_shape, "%s:%s" % (cc.file, tw.line), {"guard": F.fshow(F.mk_and([g.formula(cs) for g in tw_guards]))})
    c_height, c_modulus, c_bound = _canon_prev(cc, c_mod[0][2], cs), c_mod[0][3], _canon_prev(cc, c_cmp[0][3], cs)
    old = rung["time-too-old"]
    o_cmp = [x for g in old.guards if g.kind in ("if", "sc") for x in subexprs(F.expand(g.expr, cs)) if x[0] == "b" and x[1] in ("<=", ">=", "<", ">")]
    if len(o_cmp) != 1:
        raise AnalysisBroken("ContextualCheckBlockHeader: time-too-old rung has an unexpected shape")
    oc = o_cmp[0]
    mtp_side = oc[3] if show(oc[2]) == "block.GetBlockTime()" else oc[2]
    # time <= MTP rejects (or MTP >= time): the smallest acceptable time is MTP + 1
    nonstrict = (oc[1] == "<=" and show(oc[2]) == "block.GetBlockTime()") or (oc[1] == ">=" and show(oc[3]) == "block.GetBlockTime()")
    c_mtp = _canon_prev(cc, mtp_side, cs)

    # ---- miner side
    wr = [s for s in sites(gm, lambda e: e[0] == "b" and e[1] == "=" and e[2][0] == "local", P)]
    rets = [e for e in exits(gm, P, gs) if e.kind == "ret"]
    if len(rets) != 1 or rets[0].value[0] != "local":
        raise AnalysisBroken("GetMinimumTime: result is not a single local")
    acc = rets[0].value[1]
    vals = local_values(gm, acc)
    wr = [s for s in wr if s.expr[2][1] == acc]
    ok = len(vals) == 2 and len(wr) == 1 and not [v for _, v in vals if v[0] == "compound"]
    ctx.ob("GetMinimumTime/shape", "PROVENANCE", "GetMinimumTime's result is initialised once and raised in exactly one place", ok, gm.where, {"values": [show(v) for _, v in vals]})
    if not ok:
        return
    init = [v for l, v in vals if l != wr[0].line][0]
    m_init = _canon_prev(gm, init, gs)
    ok = nonstrict and m_init in ("1 + %s" % c_mtp, "%s + 1" % c_mtp)
    ctx.ob("symmetry/min-time-start", "SYMMETRY", "the miner's minimum time starts at (the bound the consensus `time-too-old` rung rejects up to) + 1, i.e. median time past + 1",
           ok, gm.where, {"miner": m_init, "consensus_rejects_up_to": c_mtp, "consensus_op": oc[1]})
    s = wr[0]
    g_if = [g for g in s.guards if g.kind in ("if", "sc")]
    m_mod = [m for g in g_if for m in _mods(F.expand(g.expr, gs))]
    cond = F.mk_and([g.formula(gs) for g in g_if])
    ok_guard = len(m_mod) == 1 and F.equivalent(cond, F.mk_not(F.atom(F.key(F.expand(m_mod[0], gs)))))
    ctx.ob("GetMinimumTime/floor-guard", "LADDER", "the timewarp floor is applied exactly when <height> % <interval> == 0 (no other condition)", ok_guard, s.where, {"guard": F.fshow(cond)})
    if not ok_guard:
        return
    m_height, m_modulus = _canon_prev(gm, m_mod[0][2], gs), m_mod[0][3]
    ctx.ob("symmetry/timewarp-height", "SYMMETRY", "the miner tests the same height as the consensus rung: the height of the block being built (previous height + 1)",
           m_height == c_height, s.where, {"miner": m_height, "consensus": c_height})
    rhs = F.expand(s.expr[3], gs)
    mx = [x for x in subexprs(rhs) if callee(x) == "std::max"]
    okv = len(mx) == 1 and len(call_args(mx[0])) == 2 and any(match(["local", acc], strip_wrappers(a)) for a in call_args(mx[0]))
    other = [a for a in call_args(mx[0]) if not match(["local", acc], strip_wrappers(a))] if okv else []
    m_bound = _canon_prev(gm, other[0], gs) if len(other) == 1 else None
    ctx.ob("symmetry/timewarp-bound", "SYMMETRY", "the floor is max(min_time, B) with B the very bound the consensus rung compares the block time with (previous block time - MAX_TIMEWARP)",
           okv and m_bound == c_bound and any(x[0] == "int" and len(x) > 2 and x[2] == "MAX_TIMEWARP" for x in subexprs(other[0])), s.where,
           {"miner": m_bound, "consensus": c_bound})
    # the modulus: a parameter on the miner side; every caller passes the consensus interval
    okm = m_modulus[0] == "param" and is_expr(c_modulus) and callee(c_modulus) == "Consensus::Params::DifficultyAdjustmentInterval"
    pidx = [p["n"] for p in gm.params].index(m_modulus[1]) if okm else None
    calls = []
    for q, fl in P.funcs.items():
        for fn in fl:
            if fn.body is not None:
                for st, e in all_exprs(fn.body):
                    for x in subexprs(e):
                        if is_call_to("node::GetMinimumTime", x):
                            calls.append((fn, st, x))
    cg = callgraph.load_all()
    known = {c[1] for c in cg.call_sites("node::GetMinimumTime")}
    loaded = {fn.file for fn, _, _ in calls}
    if not known <= loaded:
        raise AnalysisBroken("GetMinimumTime has callers in units this rule does not load: %s" % sorted(known - loaded))
    okc = okm and len(calls) >= 1 and all(len(call_args(x)) > pidx and callee(strip_wrappers(call_args(x)[pidx])) == "Consensus::Params::DifficultyAdjustmentInterval" for _, _, x in calls)
    ctx.ob("symmetry/timewarp-modulus", "SYMMETRY", "the modulus is the consensus DifficultyAdjustmentInterval(): the consensus rung uses it directly and every caller of "
           "GetMinimumTime passes it", bool(okc), gm.where, {"callers": ["%s:%s %s" % (fn.q, st.get("l"), show(x)) for fn, st, x in calls]})
    # nTime is derived from GetMinimumTime
    ut = ctx.used(P.fn("node::UpdateTime"))
    us = naming(ut, P)
    tw_ = [s2 for s2 in sites(ut, lambda e: e[0] == "b" and e[1] == "=" and show(e[2]).endswith(".nTime"), P)]
    ok = len(tw_) == 1
    if ok:
        v = F.expand(tw_[0].expr[3], us)
        mxs = [x for x in subexprs(v) if callee(x) == "std::max"]
        prevp = [p["n"] for p in ut.params if "CBlockIndex" in p.get("ty", "")]
        ok = len(mxs) == 1 and any(is_call_to("node::GetMinimumTime", strip_wrappers(a)) and match(["param", prevp[0]], call_args(strip_wrappers(a))[0]) for a in call_args(mxs[0])) and \
            F.fshow(F.mk_and([g.formula(us) for g in tw_[0].guards if g.kind != "post"])) == "pblock.nTime < %s" % F.key(v)
    ctx.ob("UpdateTime/min-time", "PROVENANCE", "UpdateTime raises nTime to max(GetMinimumTime(pindexPrev, interval), now) whenever the current nTime is smaller", bool(ok), ut.where)
    cn = ctx.used(P.fn(BA + "CreateNewBlock"))
    cns = naming(cn, P)
    mf = MustFlow(cn, P, marks=[("TIME_UPDATED", lambda e: is_call_to("node::UpdateTime", e) and xkey(call_args(e)[2], cns) == "m_chainstate.m_chain.Tip()"
                                 and xkey(call_args(e)[0], cns) in ("pblock", "&pblocktemplate.block"))])
    mf.run()
    rr = [(st, s2) for st, s2 in mf.exits if s2.get("k") == "ret"]
    ctx.ob("CreateNewBlock/update-time", "ORDER", "every returned template went through UpdateTime(pblock, consensus params, tip)", bool(rr) and all("TIME_UPDATED" in st for st, _ in rr), cn.where)


# ------------------------------------------------------------------------------------------ TxGraph block builder: skip/exclude protocol

BB = "BlockBuilderImpl::"
FLAG = "BlockBuilderImpl::m_known_end_of_cluster"


def _own(s, sub, kinds=("if", "sc", "case", "loop")):
    return F.mk_and([g.formula(sub) for g in s.guards if g.kind in kinds])


def _block_builder(ctx, P):
    cg = callgraph.load_all()
    w = {x[0] for x in cg.writers(FLAG)}
    ctx.ob("BlockBuilder/flag-writers", "WHO-MAY-WRITE", "m_known_end_of_cluster is written only by BlockBuilderImpl::Next and BlockBuilderImpl::GetCurrentChunk",
           w == {BB + "Next", BB + "GetCurrentChunk"}, None, {"writers": sorted(w)})
    gc = ctx.used(P.fn(BB + "GetCurrentChunk"))
    gs = naming(gc, P)
    nx = ctx.used(P.fn(BB + "Next"))
    ns = naming(nx, P)
    is_flag_write = lambda e: e[0] == "b" and e[1] in ASSIGN_OPS and match([".", ANY, FLAG], e[2])
    wr = sites(gc, is_flag_write, P)
    ctx.floor("GetCurrentChunk writes of m_known_end_of_cluster", len(wr), 2)
    NOTDONE = (re.compile(r"m_cur_iter == m_graph\.m_main_chunkindex\.end\(\)|m_graph\.m_main_chunkindex\.end\(\) == m_cur_iter"), False)
    SENT = re.compile(r"\*m_cur_iter\.m_chunk_count == 4294967295")
    for s in wr:
        v = strip_wrappers(s.expr[3])
        own, _, un = F.bind_atoms(_own(s, gs), {"NOTDONE": NOTDONE, "SENTINEL": SENT})
        if s.expr[1] == "=" and match(["bool", True], v):
            ok = F.counterexample(own, F.parse("SENTINEL")) is None and not un
            ctx.ob("GetCurrentChunk/flag-true@L%s" % s.line, "LADDER", "m_known_end_of_cluster = true is stored only under the end-of-cluster sentinel "
                   "m_chunk_count == LinearizationIndex(-1) (a single remaining transaction), under no weaker condition", ok, s.where, {"guard": F.fshow(_own(s, gs)), "unbound": un})
        elif s.expr[1] == "=" and callee(v) == "Cluster::GetClusterRefs" or (s.expr[1] == "=" and (callee(v) or "").endswith("::GetClusterRefs")):
            ok = show(call_obj(v)) == "m_cur_cluster" and F.counterexample(own, F.parse("!SENTINEL")) is None
            ctx.ob("GetCurrentChunk/flag-from-cluster@L%s" % s.line, "PROVENANCE", "otherwise the flag is what the current cluster's GetClusterRefs reports for this chunk", ok, s.where,
                   {"value": show(v)})
        else:
            ctx.ob("GetCurrentChunk/flag-value@L%s" % s.line, "TABLE", "m_known_end_of_cluster only ever receives `true` (sentinel case) or GetClusterRefs' result in GetCurrentChunk",
                   False, s.where, {"write": show(s.expr)})
    kinds = sorted(("true" if match(["bool", True], strip_wrappers(s.expr[3])) else "refs") for s in wr)
    ctx.ob("GetCurrentChunk/flag-both-cases", "TABLE", "both cases (sentinel -> true, otherwise GetClusterRefs) are present", kinds == ["refs", "true"], gc.where, {"kinds": kinds})
    nw = sites(nx, is_flag_write, P)
    ok = len(nw) >= 1 and all(s.expr[1] == "=" and match(["bool", False], strip_wrappers(s.expr[3])) for s in nw)
    ctx.ob("Next/flag-reset", "TABLE", "Next only ever resets the flag to false (when it moves to another chunk)", ok, nx.where, {"writes": [show(s.expr) for s in nw]})
    # Next stops only at the end or at a chunk of a cluster that was not excluded
    brk = [s for s in stmt_sites(nx, lambda st: st.get("k") == "break", P)]
    ctx.floor("Next loop exits", len(brk), 2)
    okb = True
    gl = []
    for s in brk:
        own, _, un = F.bind_atoms(_own(s, ns, ("if", "sc", "case")), {"END": re.compile(r"m_cur_iter == m_graph\.m_main_chunkindex\.end\(\)|m_graph\.m_main_chunkindex\.end\(\) == m_cur_iter"),
                                                                     "EXCLUDED": re.compile(r"m_excluded_clusters\.contains\(m_cur_cluster\.m_sequence\)")})
        gl.append(F.fshow(_own(s, ns, ("if", "sc", "case"))))
        okb = okb and not un and (F.equivalent(own, F.parse("END")) or F.equivalent(own, F.parse("!EXCLUDED")))
    loops = [st for st in stmts(nx.body) if st.get("k") in ("while", "for", "do")]
    okb = okb and len(loops) == 1 and not any(st.get("k") in ("ret", "continue") for st in stmts(loops[0].get("b")))
    ctx.ob("Next/skips-excluded", "LADDER", "Next advances until the end or until the current chunk belongs to a cluster that is not excluded (chunks of excluded clusters are "
           "never offered)", okb, nx.where, {"break_guards": gl})
    cur = [s for s in sites(nx, lambda e: e[0] == "b" and e[1] == "=" and match([".", ANY, "BlockBuilderImpl::m_cur_cluster"], e[2]) and not match(["null"], strip_wrappers(e[3])), P)]
    ok = len(cur) == 1 and re.fullmatch(r"m_graph\.m_entries\[\*m_cur_iter\.m_graph_index\]\.m_locator\[0\]\.cluster", xkey(cur[0].expr[3], ns)) is not None
    ctx.ob("Next/cur-cluster", "PROVENANCE", "m_cur_cluster is the main-level cluster of the chunk m_cur_iter points at", ok, cur[0].where if cur else nx.where,
           {"value": xkey(cur[0].expr[3], ns) if cur else None})
    # Skip
    sk = ctx.used(P.fn(BB + "Skip"))
    ss = naming(sk, P)
    ex = sites(sk, lambda e: callee(e) in ("std::set::insert", "std::unordered_set::insert", "std::set::emplace", "std::unordered_set::emplace") and
               match([".", ANY, "BlockBuilderImpl::m_excluded_clusters"], call_obj(e)), P)
    ok = len(ex) == 1
    if ok:
        own, _, un = F.bind_atoms(_own(ex[0], ss), {"CLUSTER": "m_cur_cluster", "KNOWN_END": "m_known_end_of_cluster"})
        ok = F.counterexample(F.parse("CLUSTER && !KNOWN_END"), own) is None and [xkey(a, ss) for a in call_args(ex[0].expr)] == ["m_cur_cluster.m_sequence"]
    ctx.ob("Skip/excludes-cluster", "LADDER", "Skip() excludes the current cluster (by its sequence number) whenever there is one and the chunk is not known to be its last",
           ok, ex[0].where if ex else sk.where, {"guard": F.fshow(_own(ex[0], ss)) if ex else None})
    for fn, what in ((sk, "Skip"), (ctx.used(P.fn(BB + "Include")), "Include")):
        mf = MustFlow(fn, P, marks=[("NEXT", call_to(BB + "Next"))])
        mf.run()
        ctx.ob("%s/advances" % what, "ORDER", "%s() always advances to the next chunk" % what, bool(mf.exits) and all("NEXT" in st for st, _ in mf.exits), fn.where)
    inc = P.fn(BB + "Include")
    bad = [show(x) for _, e in all_exprs(inc.body) for x in subexprs(e) if callee(x) and "m_excluded_clusters" in show(x)]
    ctx.ob("Include/no-exclusion", "EFFECT", "Include() does not exclude anything", not bad, inc.where)
    # mempool wrappers
    for q, target in (("CTxMemPool::SkipBuilderChunk", "Skip"), ("CTxMemPool::IncludeBuilderChunk", "Include"), ("CTxMemPool::GetBlockBuilderChunk", "GetCurrentChunk")):
        f = ctx.used(P.fn(q))
        cs_ = [x for _, e in all_exprs(f.body) for x in subexprs(e) if (callee(x) or "").startswith("TxGraph::BlockBuilder::") and show(call_obj(x)) == "m_builder"]
        names = sorted({callee(x).rsplit("::", 1)[-1] for x in cs_})
        ctx.ob("%s/forwards" % q.rsplit("::", 1)[-1], "PROVENANCE", "%s forwards to m_builder->%s() and to no other builder operation" % (q, target), names == [target], f.where,
               {"calls": names})
    ov = {k.rsplit("::", 1)[-1]: sorted(cg.overriders.get(k, ())) for k in ("TxGraph::BlockBuilder::Skip", "TxGraph::BlockBuilder::Include", "TxGraph::BlockBuilder::GetCurrentChunk")}
    ctx.ob("BlockBuilder/single-implementation", "CALLGRAPH", "BlockBuilderImpl is the only implementation of TxGraph::BlockBuilder", all(v == [BB + k] for k, v in ov.items()), None, ov)
    # the miner: Skip exactly when not added, Include (and AddToBlock) exactly when added
    ac = ctx.used(P.fn(BA + "addChunks"))
    asub = naming(ac, P)
    loops = [st for st in stmts(ac.body) if st.get("k") == "while"]
    if len(loops) != 1:
        raise AnalysisBroken("addChunks: chunk loop not found")
    lp = loops[0]
    sks = [s for s in sites(ac, call_to("CTxMemPool::SkipBuilderChunk"), P) if lp in s.loops]
    ins = [s for s in sites(ac, call_to("CTxMemPool::IncludeBuilderChunk"), P) if lp in s.loops]
    ads = [s for s in sites(ac, call_to(BA + "AddToBlock"), P) if lp in s.loops]
    allb = sites(ac, lambda e: callee(e) in ("CTxMemPool::SkipBuilderChunk", "CTxMemPool::IncludeBuilderChunk", BA + "AddToBlock"), P)
    ok = len(sks) == 1 and len(ins) == 1 and len(ads) == 1 and len(allb) == 3
    if ok:
        inl = lambda s: F.mk_and([g.formula(site_subst(asub, s)) for g in in_loop_guards(s, lp) if g.kind != "post"])
        S, I, A = inl(sks[0]), inl(ins[0]), inl(ads[0])
        ok = F.equivalent(S, F.mk_not(I)) and F.equivalent(A, I) and F.equivalent(F.mk_and([g.formula(asub) for g in in_loop_guards(sks[0], lp) if g.kind == "post"]),
                                                                                    F.mk_and([g.formula(asub) for g in in_loop_guards(ins[0], lp) if g.kind == "post"]))
    ctx.ob("addChunks/skip-iff-not-included", "LADDER", "in every round of addChunks that decides on a chunk, SkipBuilderChunk is called exactly when the chunk is not added and "
           "IncludeBuilderChunk (with AddToBlock for its transactions) exactly when it is", bool(ok), ac.where,
           {"skip": F.fshow(S), "include": F.fshow(I), "add": F.fshow(A)} if len(sks) == 1 and len(ins) == 1 and len(ads) == 1 and len(allb) == 3 else None)
