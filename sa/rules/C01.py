"""C01 No coins are created beyond the block subsidy schedule (DESIGN §3 C01)."""
import re

from sa.engine.api import *
from sa.rules import C03
from sa.rules._consensus import *

UNITS = CONSENSUS_UNITS
EXPLANATION = ("Necessary structure of the supply invariant, decided on all paths: (1) CheckTransaction's accepting exit excludes negative/oversized/"
               "overflowing output values (LADDER, per-output loop); (2) Consensus::CheckTxInputs accepts only if inputs exist, every input value "
               "and the running sum are in MoneyRange, value-in >= value-out and the fee is in range, and its fee out-parameter is value_in - "
               "value_out; (3) in ConnectBlock's transaction loop UpdateCoins is reached for a non-coinbase transaction only after CheckTxInputs "
               "returned true and the accumulated fee passed MoneyRange, the fee accumulator adds exactly the out-parameter of that call; "
               "(4) the coinbase-amount rejection fires whenever vtx[0]->GetValueOut() > nFees + GetBlockSubsidy(pindex->nHeight, consensus) and "
               "lies on every path to acceptance; (5) TYPESTATE: after state.Invalid no success return / undo write / SetBestBlock; (6) every "
               "accepting path of ConnectBlock (non-genesis) passed CheckBlock's true edge and CheckBlock runs CheckTransaction on every "
               "transaction of the block.")
ASSUMPTIONS = ["CTransaction::GetValueOut sums the outputs (checked for range by CheckTransaction)", "the subsidy schedule itself is C31's obligation"]
CLAIM = dict(
    technique="static analysis: LADDER (truth tables), guard implication on commit effects, accumulator provenance, typestate of the validation state",
    text="Decides the per-path structure that keeps block value creation bounded: value-range rungs, inputs>=outputs, fee accumulation, and the "
         "coinbase <= fees + subsidy rejection dominate every accepting path of block connection. A dropped/weakened guard, a fee taken from "
         "the wrong variable or a `>`/`>=` slip is reported with the offending site.",
    note="Not decided: the history-level bound (UTXO total <= sum of subsidies), arithmetic inside GetValueOut, cache/reorg behaviour (C02/C09/C15).",
    ref="DESIGN.md §3 C01")

INP = r"(tx\.vin\[i\]|each\(tx\.vin\))"
MR_IN = r"MoneyRange\(inputs\.AccessCoin\(" + INP + r"\.prevout\)\.out\.nValue\)"
VINLOOP = r"(for\(0; i < tx\.vin\.size\(\)\)|each\(tx\.vin\))"


def check(ctx):
    P = ctx.program(UNITS)
    # (1) output value rungs of CheckTransaction
    ct = ctx.used(P.fn("CheckTransaction"))
    rungs = [r for r in C03.RUNGS if r.label in ("bad-txns-vout-negative", "bad-txns-vout-toolarge", "bad-txns-txouttotal-toolarge")]
    check_ladder(ctx, ct, P, rungs, is_accept=is_true_ret, mode="NECESSARY")
    C03.accumulator(ctx, P, ct)
    mr = ctx.used(P.fn("MoneyRange"))
    check_return_formula(ctx, mr, P, "!NEG && !BIG", {"NEG": "nValue < 0", "BIG": ("nValue < 2100000000000001", False)})
    ctx.ob("const/MAX_MONEY", "CONST", "MAX_MONEY == 21,000,000 * 100,000,000", P.const("MAX_MONEY") == 21000000 * 100000000, None)

    # (2) CheckTxInputs
    ci = ctx.used(P.fn("Consensus::CheckTxInputs"))
    atoms = {"HAVE": "inputs.HaveInputs(tx)", "INRANGE": re.compile(MR_IN), "SUMRANGE": "MoneyRange(nValueIn)",
             "BELOW": "nValueIn < tx.GetValueOut()", "FEERANGE": re.compile(r"MoneyRange\(nValueIn - tx\.GetValueOut\(\)\)")}
    rungs = [
        Rung("bad-txns-inputs-missingorspent", "!HAVE", atoms),
        Rung("bad-txns-inputvalues-outofrange", "!INRANGE || !SUMRANGE", atoms, loop=VINLOOP),
        Rung("bad-txns-in-belowout", "BELOW", atoms),
        Rung("bad-txns-fee-outofrange", "!FEERANGE", atoms),
    ]
    check_ladder(ctx, ci, P, rungs, is_accept=is_true_ret, mode="NECESSARY")
    # the input accumulator adds every input's value before the range test; the fee out-parameter is value_in - value_out
    acc_ok = False
    for st in stmts(ci.body):
        if (st.get("k") == "for" and "tx.vin.size()" in show(st.get("c"))) or (st.get("k") == "foreach" and show(st.get("range")) == "tx.vin"):
            for b in stmts(st["b"]):
                if b.get("k") == "expr" and match(["b", "+=", ["local", "nValueIn"]], b.get("e")) and show(b["e"][3]).endswith(".out.nValue"):
                    acc_ok = True
    nvals = local_values(ci, "nValueIn")
    acc_ok = acc_ok and len(nvals) == 2 and match(["int", 0], nvals[0][1])
    ctx.ob("CheckTxInputs/accumulator", "PROVENANCE", "nValueIn is 0 plus the sum of every spent coin's out.nValue (single += in the input loop)", acc_ok, ci.where,
           [show(v) for _, v in nvals])
    fee_writes = sites(ci, lambda e: match(["b", "=", ["param", "txfee"]], e), P)
    defs = local_defs(ci, P)
    ok = len(fee_writes) == 1 and F.key(F.expand(fee_writes[0].expr[3], defs)) == "nValueIn - tx.GetValueOut()"
    ctx.ob("CheckTxInputs/txfee", "PROVENANCE", "the fee out-parameter is assigned exactly once, value_in - tx.GetValueOut(), on the accepting path", ok, ci.where,
           [show(F.expand(s.expr[3], defs)) for s in fee_writes])

    # (3) ConnectBlock transaction loop
    cb = ctx.used(P.fn("Chainstate::ConnectBlock"))
    loop = tx_loop(cb)
    body = sub_function(cb, loop["b"], "txloop")
    TX = r"(tx|\*block\.vtx\[i\])"
    latoms = {"COINBASE": re.compile(TX + r"\.IsCoinBase\(\)"),
              "CTI": re.compile(r"Consensus::CheckTxInputs\(" + TX + r", tx_state, view, pindex\.nHeight, txfee\)"),
              "FEESRANGE": "MoneyRange(nFees)"}
    check_guard(ctx, body, P, call_to("UpdateCoins"), "COINBASE || (CTI && FEESRANGE)", latoms, "ConnectBlock/txloop/UpdateCoins",
                "a transaction's coins are updated only if it is the coinbase or CheckTxInputs accepted it and the accumulated fee is in range")
    # fee accumulation: nFees += <the out-parameter of the CheckTxInputs call>, between that call and the range test
    adds = sites(body, lambda e: match(["b", "+=", ["local", "nFees"]], e), P)
    okadd = len(adds) == 1 and match(["local", "txfee"], adds[0].expr[3])
    if okadd:
        fa = adds[0].formula(naming(body, P))
        fb, _, _ = F.bind_atoms(fa, latoms)
        okadd = F.implies(fb, F.parse("!COINBASE && CTI"))
    ctx.ob("ConnectBlock/txloop/fee-accumulation", "PROVENANCE", "nFees += txfee happens exactly once per non-coinbase transaction, after CheckTxInputs(…, txfee) returned true",
           okadd, "%s:%s" % (cb.file, adds[0].line if adds else loop["l"]))
    allfees = local_values(cb, "nFees")
    okvals = len(allfees) == 2 and match(["int", 0], allfees[0][1])
    ctx.ob("ConnectBlock/nFees-writes", "PROVENANCE", "nFees starts at 0 and is only ever increased by the per-transaction fee", okvals, cb.where, [show(v) for _, v in allfees])
    txfee_vals = [v for _, v in local_values(cb, "txfee")]
    ctx.ob("ConnectBlock/txfee-reset", "PROVENANCE", "the per-transaction fee variable is a fresh 0 for every transaction (written only by CheckTxInputs)",
           len(txfee_vals) == 1 and match(["int", 0], txfee_vals[0]), cb.where)
    # failures inside the loop mark the block invalid
    for name, pat in (("CheckTxInputs", "CheckTxInputs"), ("accumulated-fee", "MoneyRange(nFees)")):
        inv = [s for s in sites(body, lambda e: e[0] == "mcall" and e[1] == "ValidationState::Invalid" and match(["param", "state"], e[2]), P)
               if any(pat in F.fshow(g.formula(None)) for g in s.guards if g.kind == "if")]
        ctx.ob("ConnectBlock/txloop/%s-failure-invalid" % name, "MPT", "a failing %s check calls state.Invalid(BLOCK_CONSENSUS, ...)" % name, len(inv) >= 1, cb.where)

    # (4) coinbase amount
    subst = naming(cb, P)
    cbinv = [s for s in sites(cb, lambda e: e[0] == "mcall" and e[1] == "ValidationState::Invalid" and len(e) > 4 and match(["str", "bad-cb-amount"], e[4]), P)]
    ctx.floor("bad-cb-amount rejection sites", len(cbinv), 1)
    SUB = r"GetBlockSubsidy\(pindex\.nHeight, [^<]*GetConsensus\(\)\)"
    catoms = {"TOOMUCH": re.compile(r"(nFees \+ %s|%s \+ nFees) < block\.vtx\[0\]\.GetValueOut\(\)" % (SUB, SUB)),
              "VALID": "state.IsValid()"}
    for s in cbinv:
        own = F.mk_and([g.formula(subst) for g in s.guards if g.kind in ("if", "sc")])
        fb, mp, un = F.bind_atoms(own, catoms)
        cex = F.counterexample(F.parse("TOOMUCH && VALID"), fb)
        ctx.ob("ConnectBlock/bad-cb-amount@L%s" % s.line, "LADDER", "the block is rejected with bad-cb-amount whenever vtx[0]->GetValueOut() > nFees + "
               "GetBlockSubsidy(pindex->nHeight, consensus) (and no earlier failure)", cex is None, s.where,
               None if cex is None else {"own_guard": F.fshow(own), "unbound": un, "counterexample": cex})
    # ... and the comparison lies on every accepting path after the loop
    cdefs = local_defs(cb, P)
    is_cmp = lambda e: e[0] == "b" and e[1] in ("<", ">", "<=", ">=") and "GetBlockSubsidy" in show(F.expand(e, cdefs)) and "GetValueOut" in show(e)
    mf = MustFlow(cb, P, marks=[("cbcheck", is_cmp)])
    mf.run()
    for st, stmt in mf.exits:
        if stmt.get("k") == "ret" and match(["bool", True], stmt.get("v")) and stmt.get("l") > loop["l"]:
            ctx.ob("ConnectBlock/cb-amount-before-accept@L%s" % stmt.get("l"), "ORDER", "every accepting return after the transaction loop has evaluated the coinbase-amount test",
                   "cbcheck" in st, "%s:%s" % (cb.file, stmt.get("l")))

    # (5) typestate
    n = check_validation_state(ctx, cb, P, lambda o: match(["param", "state"], o),
                               [("WriteBlockUndo", call_to("node::BlockManager::WriteBlockUndo")), ("SetBestBlock", call_to("CCoinsViewCache::SetBestBlock")),
                                ("RaiseValidity", call_to("CBlockIndex::RaiseValidity"))], "ConnectBlock")
    ctx.floor("typestate obligations", n, 5)

    # (6) CheckBlock on every accepting path; CheckBlock checks every transaction
    gen = re.compile(r"block_hash == .*hashGenesisBlock|.*hashGenesisBlock == block_hash")
    for e in exits(cb, P, subst):
        if is_true_ret(e):
            fb, _, _ = F.bind_atoms(e.formula, {"CHECKBLOCK": re.compile(r"CheckBlock\(block, state, .*\)"), "GENESIS": gen})
            cex = F.counterexample(fb, F.parse("CHECKBLOCK"))
            ctx.ob("ConnectBlock/CheckBlock-before-accept@L%s" % e.line, "MPT", "ConnectBlock returns true only after CheckBlock(block, ...) returned true", cex is None,
                   "%s:%s" % (cb.file, e.line), None if cex is None else {"counterexample": cex})
    chk, csubst, acc = checkblock_accept_sites(ctx, P)
    r = Rung("tx-check", "BADTX", {"BADTX": (re.compile(r"CheckTransaction\(\*each\(block\.vtx\), \w+\)"), False)}, loop=r"each\(block\.vtx\)")
    check_ladder(ctx, chk, P, [r], is_accept=lambda e: e.line in {a.line for a in acc} and is_true_ret(e), is_reject=lambda e: not is_true_ret(e), mode="NECESSARY", oid="CheckBlock")
    # fChecked = true is written only where the final accept is reached
    for s in sites(chk, lambda e: match(["b", "=", [".", ANY, "CBlock::fChecked"], ["bool", True]], e), P):
        ok = F.implies(s.formula(csubst), F.mk_and([a.formula for a in acc][:1])) if acc else False
        ctx.ob("CheckBlock/fChecked-set@L%s" % s.line, "MPT", "block.fChecked = true is written only on the fully-checked accepting path", ok, s.where)
