"""C54 Block index navigation and chainwork are correct - structural clauses only (originally listed N/A)."""
import re

from sa.engine.api import *
from sa.engine import callgraph

UNITS = ["chain.cpp", "node/blockstorage.cpp"]
EXPLANATION = ("Taken whole (ancestor lookup, fork points and 256-bit work sums on every block tree) the property is algorithmic; decided are the "
               "structural necessary conditions that keep the index fields meaningful: (1) who-may-write and value shape: every non-constructor write "
               "of CBlockIndex::nChainWork is `(X->pprev ? X->pprev->nChainWork : 0) + GetBlockProof(*X)` for the block X being written, nTimeMax "
               "likewise is the running maximum, nHeight is pprev->nHeight + 1 with pprev looked up by hashPrevBlock, pskip is written only by "
               "BuildSkip as pprev->GetAncestor(GetSkipHeight(nHeight)) after nHeight was set; (2) GetBitsProof returns 0 exactly for a negative, "
               "overflowing or zero target and otherwise (~target / (target + 1)) + 1, and GetBlockProof is GetBitsProof(nBits); (3) GetAncestor "
               "returns null exactly for heights outside [0, nHeight], walks while heightWalk > height, moves pointer and height together on both "
               "branches (pskip with GetSkipHeight(heightWalk) - the function BuildSkip uses - or pprev with height-1), and follows the skip pointer "
               "only if it does not overshoot the requested height; (4) LastCommonAncestor first equalises heights through GetAncestor and returns "
               "only when both cursors are equal; FindFork clamps to the chain height and walks pprev until contained; LocatorEntries always "
               "includes the start and genesis.")
ASSUMPTIONS = ["arith_uint256 arithmetic (~, /, +) is exact 256-bit arithmetic (numeric, not decided)", "the skip-height function only needs to be < height (any such value keeps GetAncestor correct)"]
CLAIM = dict(
    technique="static analysis: who-may-write + value-shape of index fields, predicate twins by truth table, paired-assignment and guard rules on the skip-list walk",
    text="Necessary structure behind ancestor lookup and accumulated work: the fields navigation relies on (height, skip pointer, chain work) are "
         "written only with the defining expressions, the skip walk never overshoots and keeps pointer/height in step, and the per-block work formula "
         "has the reference shape. A wrong parent in the work sum, a skip followed past the target, or a changed zero-target case is reported.",
    note="Not decided: the arithmetic itself, optimality of the skip pattern, correctness on all trees as a behavioural fact (this is a weak, structural claim).",
    ref="DESIGN.md §3 C54 (claimed partially after the design; see §6.1)")


def unwrap(e):
    """arith_uint256{x} / base_uint{x} conversions are value-preserving wrappers."""
    if not is_expr(e):
        return e
    if e[0] == "ctor" and e[1] in ("arith_uint256", "base_uint") and len(e) == 3:
        return unwrap(e[2])
    return [e[0]] + [unwrap(x) if is_expr(x) else x for x in e[1:]]


def K(e, sub=None):
    return F.key(unwrap(F.expand(e, sub) if sub else e))


def _branch(site):
    """The branch a site lies in (the enclosing conditions by position and polarity, whatever was assigned since)."""
    return [(g.line, g.kind, g.pol) for g in site.guards if g.kind in ("if", "sc", "case")]


def check(ctx):
    P = ctx.program(UNITS)
    cg = callgraph.load_all()
    # (1) writers and value shapes
    def writers(field):
        return sorted({q for q, fl, ls in cg.writers("CBlockIndex::" + field) if not q.startswith("CBlockIndex::CBlockIndex")})
    w = writers("nChainWork")
    ctx.ob("who-writes/nChainWork", "WHO-MAY-WRITE", "accumulated work is written only when a header enters the index or the index is loaded",
           set(w) == {"node::BlockManager::AddToBlockIndex", "node::BlockManager::LoadBlockIndex"}, None, {"writers": w})
    w = writers("pskip")
    ctx.ob("who-writes/pskip", "WHO-MAY-WRITE", "the skip pointer is written only by CBlockIndex::BuildSkip", w == ["CBlockIndex::BuildSkip"], None, {"writers": w})
    n = 0
    for q in ("node::BlockManager::AddToBlockIndex", "node::BlockManager::LoadBlockIndex"):
        f = ctx.used(P.fn(q))
        sub = naming(f, P)
        for s in sites(f, lambda e: e[0] == "b" and e[1] in ASSIGN_OPS and match([".", ANY, "CBlockIndex::nChainWork"], e[2]), P):
            n += 1
            x = F.key(F.expand(s.expr[2][1], sub))
            rhs = K(s.expr[3], sub)
            X = re.escape(x)
            want = r"(\(%s\.pprev \? %s\.pprev\.nChainWork : 0\) \+ GetBlockProof\(\*%s\)|GetBlockProof\(\*%s\) \+ \(%s\.pprev \? %s\.pprev\.nChainWork : 0\))" % (X, X, X, X, X, X)
            ok = s.expr[1] == "=" and re.fullmatch(want, rhs) is not None
            ctx.ob("%s/nChainWork@L%s" % (q.rsplit("::", 1)[-1], s.line), "VALUE-SHAPE", "chain work of a block = (parent ? parent's chain work : 0) + GetBlockProof(that block)", ok, s.where,
                   {"block": x, "value": rhs})
        for s in sites(f, lambda e: e[0] == "b" and e[1] in ASSIGN_OPS and match([".", ANY, "CBlockIndex::nTimeMax"], e[2]), P):
            x = re.escape(F.key(F.expand(s.expr[2][1], sub)))
            rhs = F.key(F.expand(s.expr[3], sub))
            ok = re.fullmatch(r"%s\.pprev \? std::max\((%s\.pprev\.nTimeMax, %s\.nTime|%s\.nTime, %s\.pprev\.nTimeMax)\) : %s\.nTime" % (x, x, x, x, x, x), rhs) is not None
            ctx.ob("%s/nTimeMax@L%s" % (q.rsplit("::", 1)[-1], s.line), "VALUE-SHAPE", "nTimeMax is the running maximum of block times along the ancestry", ok, s.where, {"value": rhs})
    ctx.floor("nChainWork assignments", n, 2)
    add = P.fn("node::BlockManager::AddToBlockIndex")
    asub = naming(add, P)
    hs = sites(add, lambda e: e[0] == "b" and e[1] == "=" and match([".", ANY, "CBlockIndex::nHeight"], e[2]), P)
    ctx.floor("AddToBlockIndex height assignment", len(hs), 1)
    for s in hs:
        x = re.escape(F.key(F.expand(s.expr[2][1], asub)))
        rhs = F.key(F.expand(s.expr[3], asub))
        ok = re.fullmatch(r"(1 \+ %s\.pprev\.nHeight|%s\.pprev\.nHeight \+ 1)" % (x, x), rhs) is not None
        ctx.ob("AddToBlockIndex/nHeight@L%s" % s.line, "VALUE-SHAPE", "a new index entry's height is its parent's height + 1", ok, s.where, {"value": rhs})
    ps = sites(add, lambda e: e[0] == "b" and e[1] == "=" and match([".", ANY, "CBlockIndex::pprev"], e[2]), P)
    adefs = local_defs(add, P)
    full = dict(asub)
    for st in stmts(add.body):
        if st.get("k") == "decl" and st.get("n") and is_expr(st.get("i")) and st["n"] not in full:
            full[st["n"]] = st["i"]
    ok = len(ps) == 1 and "hashPrevBlock" in F.key(F.expand(ps[0].expr[3], full)) and "find(" in F.key(F.expand(ps[0].expr[3], full))
    ctx.ob("AddToBlockIndex/pprev", "PROVENANCE", "the parent pointer is the index entry found under the header's hashPrevBlock", ok, add.where,
           [F.key(F.expand(s.expr[3], asub)) for s in ps])
    mf = MustFlow(add, P, marks=[("height", lambda e: e[0] == "b" and e[1] == "=" and match([".", ANY, "CBlockIndex::nHeight"], e[2])),
                                 ("pprev", lambda e: e[0] == "b" and e[1] == "=" and match([".", ANY, "CBlockIndex::pprev"], e[2]))])
    mf.watch = call_to("CBlockIndex::BuildSkip")
    mf.run()
    ctx.floor("AddToBlockIndex BuildSkip call", len(mf.events), 1)
    for e, st, stmt in mf.events:
        ctx.ob("AddToBlockIndex/BuildSkip-order@L%s" % stmt.get("l"), "ORDER", "BuildSkip runs after parent pointer and height are set", {"height", "pprev"} <= st,
               "%s:%s" % (add.file, stmt.get("l")))
    bs = ctx.used(P.fn("CBlockIndex::BuildSkip"))
    ws = sites(bs, lambda e: e[0] == "b" and e[1] == "=" and match([".", ANY, "CBlockIndex::pskip"], e[2]), P)
    ok = len(ws) == 1 and F.key(ws[0].expr[3]) == "pprev.GetAncestor(GetSkipHeight(nHeight))" and F.implies(ws[0].formula({}), F.atom("pprev"))
    ctx.ob("BuildSkip/value", "VALUE-SHAPE", "pskip = pprev->GetAncestor(GetSkipHeight(nHeight)), only when there is a parent", ok, bs.where, [F.key(s.expr[3]) for s in ws])
    sk = ctx.used(P.fn("GetSkipHeight"))
    for e in exits(sk, P):
        pass
    # (2) work formula
    gp = ctx.used(P.fn("GetBitsProof"))
    gsub = naming(gp, P)
    gex = exits(gp, P, gsub)
    zero = [e for e in gex if e.kind == "ret" and K(e.value) == "0"]
    rest = [e for e in gex if e not in zero]
    atoms = {"NEG": "fNegative", "OVF": "fOverflow", "ZERO": [("bnTarget", False), re.compile(r"(bnTarget == 0|bnTarget == arith_uint256\{0\})")]}
    okz = len(zero) == 1 and F.equivalent(F.bind_atoms(zero[0].own_formula(None), atoms)[0], F.parse("NEG || OVF || ZERO"))
    ctx.ob("GetBitsProof/zero", "TWIN", "work is 0 exactly for a negative, overflowing or zero target", okz, gp.where, [F.fshow(e.own_formula(None)) for e in zero])
    okr = len(rest) == 1 and re.fullmatch(r"(1 \+ \(?~bnTarget / \(?(1 \+ bnTarget|bnTarget \+ 1)\)?\)?|\(?~bnTarget / \(?(1 \+ bnTarget|bnTarget \+ 1)\)?\)? \+ 1)", K(rest[0].value)) is not None
    ctx.ob("GetBitsProof/formula", "TWIN", "otherwise work = (~target / (target + 1)) + 1  (= floor(2^256 / (target + 1)))", okr, gp.where, [K(e.value) for e in rest])
    sc = sites(gp, lambda e: e[0] == "mcall" and e[1] == "arith_uint256::SetCompact", P)
    ok = len(sc) == 1 and [F.key(a) for a in call_args(sc[0].expr)] == ["bits", "&fNegative", "&fOverflow"] and not [g for g in sc[0].guards if g.kind in ("if", "sc")]
    ctx.ob("GetBitsProof/decode", "PROVENANCE", "the target is decoded from the `bits` argument with both status flags", ok, gp.where)
    for f in P.fns("GetBlockProof"):
        ctx.used(f)
        ex = exits(f, P)
        ok = len(ex) == 1 and re.fullmatch(r"GetBitsProof\((block|header)\.nBits\)", F.key(ex[0].value)) is not None
        ctx.ob("GetBlockProof/%s" % f.params[0]["ty"].split()[1 if f.params[0]["ty"].startswith("const") else 0], "TWIN", "GetBlockProof(x) is GetBitsProof(x.nBits)", ok, f.where)
    # (3) GetAncestor
    ga = [f for f in P.fns("CBlockIndex::GetAncestor") if f.d.get("const")]
    if len(ga) != 1:
        raise AnalysisBroken("const CBlockIndex::GetAncestor not found")
    ga = ctx.used(ga[0])
    gsub = {}
    aex = exits(ga, P, gsub)
    nulls = [e for e in aex if e.kind == "ret" and is_expr(e.value) and e.value[0] == "null"]
    okn = len(nulls) == 1 and F.equivalent(F.bind_atoms(nulls[0].own_formula(None), {"ABOVE": "nHeight < height", "NEG": "height < 0"})[0], F.parse("ABOVE || NEG"))
    ctx.ob("GetAncestor/range", "TWIN", "GetAncestor returns null exactly for a height above the block's own or below 0", okn, ga.where, [F.fshow(e.own_formula(None)) for e in nulls])
    loops = [st for st in stmts(ga.body) if st.get("k") == "while"]
    okl = len(loops) == 1 and F.fshow(F.to_formula(loops[0]["c"], {})) == "height < heightWalk" and not has_break(loops[0]["b"])
    ctx.ob("GetAncestor/loop", "LOOP", "the walk continues exactly while the walk height is above the requested height", okl, ga.where)
    if loops:
        body = sub_function(ga, loops[0]["b"], "walk")
        # heightSkip = GetSkipHeight(heightWalk) is read (test, new height) before heightWalk is overwritten in the same iteration
        bsub = local_defs(body, P, allow_overwritten=True)
        wp = sites(body, lambda e: e[0] == "b" and e[1] == "=" and match(["local", "pindexWalk"], e[2]), P)
        ctx.floor("GetAncestor pointer moves", len(wp), 2)
        for s in wp:
            tgt = F.key(s.expr[3])
            # the paired height update in the same branch
            sib = [x for x in sites(body, lambda e: (e[0] == "b" and e[1] in ASSIGN_OPS and match(["local", "heightWalk"], e[2])) or
                                    (e[0] == "u" and e[1] in ("--", "post--") and match(["local", "heightWalk"], e[2])), P)
                   if _branch(x) == _branch(s)]
            if tgt == "pindexWalk.pskip":
                ok = len(sib) == 1 and sib[0].expr[0] == "b" and F.key(F.expand(sib[0].expr[3], bsub)) == "GetSkipHeight(heightWalk)"
                own = F.mk_and([g.formula(bsub) for g in s.guards if g.kind in ("if", "sc")])
                fb, _, un = F.bind_atoms(own, {"EQ": re.compile(r"(GetSkipHeight\(heightWalk\) == height|height == GetSkipHeight\(heightWalk\))"),
                                               "GT": "height < GetSkipHeight(heightWalk)", "HAVE": "pindexWalk.pskip"})
                ok2 = F.implies(fb, F.parse("HAVE && (EQ || GT)"))
                ctx.ob("GetAncestor/skip-step@L%s" % s.line, "PAIRING", "following pskip sets the walk height to GetSkipHeight(heightWalk) (the height BuildSkip links to)", ok, s.where,
                       [F.key(x.expr) for x in sib])
                ctx.ob("GetAncestor/skip-no-overshoot@L%s" % s.line, "MPT", "the skip pointer is followed only if it exists and does not jump below the requested height", ok2, s.where,
                       {"guard": F.fshow(own)})
            elif tgt == "pindexWalk.pprev":
                ok = len(sib) == 1 and (sib[0].expr[0] == "u" or F.key(sib[0].expr) in ("heightWalk -= 1",))
                ctx.ob("GetAncestor/prev-step@L%s" % s.line, "PAIRING", "following pprev lowers the walk height by exactly one", ok, s.where, [F.key(x.expr) for x in sib])
            else:
                ctx.ob("GetAncestor/step@L%s" % s.line, "PAIRING", "the walk moves only along pskip or pprev", False, s.where, {"target": tgt})
    rets = [e for e in aex if e not in nulls]
    ok = len(rets) == 1 and F.key(rets[0].value) == "pindexWalk"
    ctx.ob("GetAncestor/result", "TWIN", "the result is the walk cursor after the loop", ok, ga.where)
    ws = [st for st in stmts(ga.body) if st.get("k") == "decl" and st.get("n") in ("pindexWalk", "heightWalk")]
    ok = {st["n"]: F.key(st.get("i")) for st in ws} == {"pindexWalk": "this", "heightWalk": "nHeight"}
    ctx.ob("GetAncestor/start", "TWIN", "the walk starts at this block with its own height", ok, ga.where)
    # (4) LastCommonAncestor / FindFork / LocatorEntries
    lca = ctx.used(P.fn("LastCommonAncestor"))
    ex = exits(lca, P, {})
    outer = [st for st in lca.body.get("s", []) if st.get("k") == "while"]
    ok = len(ex) == 1 and F.key(ex[0].value) in ("pa", "pb") and len(outer) == 1 and F.fshow(F.to_formula(outer[0]["c"], {})) in ("!(pa == pb)", "!(pb == pa)") and not has_break(outer[0]["b"])
    ctx.ob("LastCommonAncestor/result", "LOOP", "LastCommonAncestor returns a cursor only once both cursors are the same block", ok, lca.where)
    eq = sites(lca, call_to("CBlockIndex::GetAncestor"), P)
    args = sorted(F.key(call_obj(s.expr)) + "->" + F.key(call_args(s.expr)[0]) for s in eq)
    ctx.ob("LastCommonAncestor/equalise", "PROVENANCE", "the deeper cursor is first moved to the other one's height", args == ["pa->pb.nHeight", "pb->pa.nHeight"], lca.where, args)
    ff = ctx.used(P.fn("CChain::FindFork"))
    fsub = naming(ff, P)
    ex = exits(ff, P, fsub)
    wl = [st for st in stmts(ff.body) if st.get("k") == "while"]
    ok = len(ex) == 1 and len(wl) == 1 and F.equivalent(F.to_formula(wl[0]["c"], {}), F.parse("P && !C").__class__ and F.mk_and([F.atom("pindex"), F.mk_not(F.atom("CChain::Contains(*pindex)"))]))
    ctx.ob("FindFork/walk", "LOOP", "FindFork walks pprev until the block is contained in the chain (or runs out)", ok, ff.where, [F.fshow(F.to_formula(w["c"], {})) for w in wl])
    cl = sites(ff, call_to("CBlockIndex::GetAncestor"), P)
    ok = len(cl) == 1 and F.key(call_args(cl[0].expr)[0]) == "CChain::Height()" and F.implies(cl[0].formula({}), F.atom("CChain::Height() < pindex.nHeight"))
    ctx.ob("FindFork/clamp", "MPT", "a block above the chain tip is first replaced by its ancestor at the chain height", ok, ff.where)
    le = ctx.used(P.fn("LocatorEntries"))
    lw = [st for st in stmts(le.body) if st.get("k") == "while"]
    first = None
    if lw:
        body = lw[0]["b"].get("s", [])
        first = body[0] if body else None
    ok = first is not None and first.get("k") == "expr" and re.search(r"emplace_back|push_back", show(first.get("e"))) and "GetBlockHash" in show(first.get("e"))
    brk = [s for s in stmt_sites(le, lambda st: st.get("k") == "break", P)]
    okb = len(brk) == 1 and F.implies(F.mk_and([g.formula({}) for g in brk[0].guards if g.kind == "if" and g.line > lw[0]["l"]]), F.mk_not(F.atom("index.nHeight"))) if lw and brk else False
    ctx.ob("LocatorEntries/entries", "LOOP", "every visited block (the start first) is recorded before stepping back, and the walk stops only after genesis was recorded", bool(ok) and bool(okb), le.where)
    st_ = sites(le, call_to("CBlockIndex::GetAncestor"), P)
    defs = local_defs(le, P)
    ok = len(st_) == 1 and F.key(F.expand(call_args(st_[0].expr)[0], {k: v for k, v in naming(sub_function(le, lw[0]["b"], "step"), P, allow_overwritten=True).items()})) in ("std::max(index.nHeight - step, 0)", "std::max(0, index.nHeight - step)") if lw else False
    ctx.ob("LocatorEntries/step", "PROVENANCE", "the next entry is the ancestor at max(height - step, 0)", ok, le.where)
