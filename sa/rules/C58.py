"""C58 Unrequested blocks cannot fill the node's storage (DESIGN §3 C58)."""
from sa.engine.api import *

UNITS = ["validation.cpp", "net_processing.cpp"]
EXPLANATION = ("MPT/guard rule on ChainstateManager::AcceptBlock: the storage effects (WriteBlock, UpdateBlockInfo, ReceivedBlockTransactions, "
               "*fNewBlock = true) and the validity-marking path (CheckBlock, ContextualCheckBlock, InvalidBlockFound) are reached only if "
               "!already_have && (requested || (nTx == 0 && work >= tip work && height <= tip+288 && work >= minimum chain work)), decided "
               "as a truth-table implication from the sites' dominating path conditions; PROVENANCE: AcceptBlock's fRequested is "
               "ProcessNewBlock's force_processing, which in the peer BLOCK handler is only ever false or IsBlockRequested(hash).")
ASSUMPTIONS = ["arith_uint256 comparison operators order by numeric value", "IsBlockRequested is true only for hashes in mapBlocksInFlight"]
CLAIM = dict(
    technique="static analysis: must-pass-through guard implication (truth table over canonical atoms) + argument provenance across ProcessNewBlock/ProcessBlock",
    text="For every path of AcceptBlock, storing an unrequested block (or validating/marking it) implies the anti-DoS condition of the "
         "property; unrequested blocks failing it return before CheckBlock/InvalidBlockFound, so nothing is marked. The 'requested' flag "
         "reaching AcceptBlock from the P2P BLOCK handler derives only from IsBlockRequested. Tests sample a few block/tip combinations.",
    note="Not decided: chain-work arithmetic; the compact-block paths pass force_processing=true by design (reconstructed blocks count as requested).",
    ref="DESIGN.md §3 C58")

ATOMS = {
    "HAVE": "BLOCK_HAVE_DATA & pindex.nStatus",
    "REQ": "fRequested",
    "NTX": "pindex.nTx",
    "TIP": "ChainstateManager::ActiveTip()",
    "LESSWORK": "pindex.nChainWork < ChainstateManager::ActiveTip().nChainWork",
    "TOOFAR": ("pindex.nHeight < 289 + ChainstateManager::ActiveHeight()", False),
    "BELOWMIN": "pindex.nChainWork < ChainstateManager::MinimumChainWork()",
}
SPEC = "!HAVE && (REQ || (!NTX && (!TIP || !LESSWORK) && !TOOFAR && !BELOWMIN))"

EFFECTS = [
    ("node::BlockManager::WriteBlock", "the block is written to disk"),
    ("node::BlockManager::UpdateBlockInfo", "the block position is recorded (reindex path)"),
    ("ChainstateManager::ReceivedBlockTransactions", "the block is marked as having data"),
    ("CheckBlock", "the block is context-free validated (a failure would mark it invalid)"),
    ("ContextualCheckBlock", "the block is contextually validated (a failure would mark it invalid)"),
    ("Chainstate::InvalidBlockFound", "the block is marked invalid"),
]


def check(ctx):
    P = ctx.program(UNITS)
    f = ctx.used(P.fn("ChainstateManager::AcceptBlock"))
    # the far-ahead atom is `nHeight > ActiveHeight() + MIN_BLOCKS_TO_KEEP`; pin the constant
    k = P.const("MIN_BLOCKS_TO_KEEP")
    ctx.ob("const/MIN_BLOCKS_TO_KEEP", "CONST", "MIN_BLOCKS_TO_KEEP == 288", k == 288, None, {"value": k})
    atoms = dict(ATOMS)
    import re
    atoms["TOOFAR"] = [(re.compile(r"pindex\.nHeight < 289 \+ ChainstateManager::ActiveHeight\(\)"), False),
                       re.compile(r"288 \+ ChainstateManager::ActiveHeight\(\) < pindex\.nHeight"),
                       re.compile(r"ChainstateManager::ActiveHeight\(\) \+ 288 < pindex\.nHeight")]
    n = 0
    for q, what in EFFECTS:
        ss = check_guard(ctx, f, P, call_to(q), SPEC, atoms, "AcceptBlock/%s" % q.rsplit("::", 1)[-1],
                         "%s only under the anti-DoS storage condition" % what)
        n += len(ss)
    # *fNewBlock = true
    newblock = lambda e: match(["b", "=", ["u", "*", ["param", "fNewBlock"]], ["bool", True]], e)
    n += len(check_guard(ctx, f, P, newblock, SPEC, atoms, "AcceptBlock/fNewBlock", "*fNewBlock = true only under the storage condition"))
    ctx.floor("AcceptBlock guarded effects", n, 7)

    # provenance of fRequested
    pnb = ctx.used(P.fn("ChainstateManager::ProcessNewBlock"))
    calls = sites(pnb, call_to("ChainstateManager::AcceptBlock"), P)
    ctx.floor("ProcessNewBlock->AcceptBlock call sites", len(calls), 1)
    for s in calls:
        a = call_args(s.expr)
        ok = len(a) >= 4 and match(["param", "force_processing"], a[3])
        ctx.ob("ProcessNewBlock/fRequested@L%s" % s.line, "PROVENANCE", "ProcessNewBlock passes its force_processing parameter as AcceptBlock's fRequested",
               ok, s.where, None if ok else {"arg": show(a[3]) if len(a) >= 4 else None})
    pb = ctx.used(P.fn("PeerManagerImpl::ProcessBlock"))
    calls = sites(pb, call_to("ChainstateManager::ProcessNewBlock"), P)
    ctx.floor("ProcessBlock->ProcessNewBlock call sites", len(calls), 1)
    for s in calls:
        a = call_args(s.expr)
        ok = len(a) >= 2 and match(["param", "force_processing"], a[1])
        ctx.ob("ProcessBlock/force@L%s" % s.line, "PROVENANCE", "PeerManagerImpl::ProcessBlock forwards its force_processing parameter unchanged",
               ok, s.where, None if ok else {"arg": show(a[1]) if len(a) >= 2 else None})
    pm = ctx.used(P.fn("PeerManagerImpl::ProcessMessage"))
    region = handler_region(pm, "BLOCK")
    rcalls = [(st, x) for st, e in all_exprs(region) for x in subexprs(e) if is_call_to("PeerManagerImpl::ProcessBlock", x)]
    ctx.floor("BLOCK handler ProcessBlock calls", len(rcalls), 1)
    for st, x in rcalls:
        a = call_args(x)[2]
        where = "%s:%s" % (pm.file, st.get("l"))
        if a[0] == "local":
            vals = local_values(pm, a[1])
            bad = [(l, show(v)) for l, v in vals if not (match(["bool", False], v) or is_call_to("PeerManagerImpl::IsBlockRequested", v))]
            ok = bool(vals) and not bad
            ctx.ob("BLOCKmsg/force-provenance@L%s" % st.get("l"), "PROVENANCE",
                   "in the BLOCK message handler the force_processing argument is only ever `false` or IsBlockRequested(hash)", ok, where,
                   None if ok else {"other_values": bad})
            # and the hash queried is the received block's hash
            for l, v in vals:
                if is_call_to("PeerManagerImpl::IsBlockRequested", v):
                    arg = call_args(v)[0]
                    decls = [d.get("i") for d in stmts(region) if d.get("k") == "decl" and arg[0] == "local" and d.get("n") == arg[1]]
                    src = decls[0] if len(decls) == 1 else (arg if arg[0] != "local" else None)
                    ok2 = src is not None and contains(["mcall", "CBlockHeader::GetHash"], src) or contains(["mcall", "CBlock::GetHash"], src or [])
                    ctx.ob("BLOCKmsg/hash@L%s" % l, "PROVENANCE", "IsBlockRequested is asked about the received block's own hash", bool(ok2), "%s:%s" % (pm.file, l),
                           None if ok2 else {"arg": show(arg), "def": show(src) if src else None})
        else:
            ok = is_call_to("PeerManagerImpl::IsBlockRequested", a) or match(["bool", False], a)
            ctx.ob("BLOCKmsg/force-provenance@L%s" % st.get("l"), "PROVENANCE",
                   "in the BLOCK message handler the force_processing argument is only ever `false` or IsBlockRequested(hash)", ok, where, {"arg": show(a)})
