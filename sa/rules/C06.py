"""C06 Accepted blocks have the required structure and respect resource limits (DESIGN §3 C06)."""
import re

from sa.engine.api import *
from sa.rules._helpers_A import *

UNITS = ["validation.cpp", "consensus/tx_verify.cpp"]
EXPLANATION = ("LADDER (NECESSARY + only-if + result enums) on CheckBlock: no accepting path with an empty block, vtx.size()*4 > 4,000,000, stripped size*4 > 4,000,000, "
               "a non-coinbase first transaction, a coinbase at any index 1..size-1 (complete loop from 1), or 4 * sum(GetLegacySigOpCount) > 80,000; the memo flag is set "
               "only behind all of them. ContextualCheckBlock: BIP34 rung (HEIGHTINCB active after prev: scriptSig shorter than, or not starting with, CScript() << height) and "
               "GetBlockWeight(block) > 4,000,000, both necessary for acceptance and raised only then. ConnectBlock: nSigOpsCost = sum over every transaction that reaches the "
               "accounting point (coinbase included) of GetTransactionSigOpCost(tx, view, GetBlockScriptFlags(*pindex)), rung > 80,000 evaluated in the loop, valid state required "
               "for `return true`. SUM twins of GetTransactionSigOpCost, GetLegacySigOpCount, GetP2SHSigOpCount and the GetBlockWeight formula. Constants pinned.")
ASSUMPTIONS = ["CScript::GetSigOpCount / CountWitnessSigOps count opcodes correctly (opaque atoms)", "GetSerializeSize computes the serialized size",
               "std::equal compares the whole expected prefix", "ValidationState::IsValid() is false after Invalid() and is never reset"]
CLAIM = dict(
    technique="static analysis: reject-ladder conformance by truth tables over canonical atoms, accumulator (sum) twins, constants",
    text="Decides, for all paths, that CheckBlock / ContextualCheckBlock / ConnectBlock accept only blocks within the structural and resource limits named by the property, with "
         "the exact comparison operators and constants (smallest violation rejected), that each limit's rejection fires only when the limit is exceeded, and that the sigop "
         "cost is the specified sum (legacy x4, P2SH x4 under SCRIPT_VERIFY_P2SH, witness per input; coinbase legacy only).",
    note="Not decided: opcode-level sigop counting inside CScript::GetSigOpCount / CountWitnessSigOps (e.g. 'after OP_RETURN'), serialization sizes, CScript() << height encoding.",
    ref="DESIGN.md §3 C06")

BC = "BlockValidationResult::BLOCK_CONSENSUS"


def check(ctx):
    P = ctx.program(UNITS)
    consts(ctx, P)
    check_block(ctx, P)
    contextual(ctx, P)
    connect_block(ctx, P)
    sigop_twins(ctx, P)


def consts(ctx, P):
    for name, want, txt in [("MAX_BLOCK_WEIGHT", 4000000, "4,000,000"), ("MAX_BLOCK_SIGOPS_COST", 80000, "80,000"), ("WITNESS_SCALE_FACTOR", 4, "4"),
                            ("MAX_BLOCK_SERIALIZED_SIZE", 4000000, "4,000,000")]:
        v = P.const(name)
        ctx.ob("const/%s" % name, "CONST", "%s == %s" % (name, txt), v == want, None, {"value": v})


# ---------------------------------------------------------------------------------------------- CheckBlock
def check_block(ctx, P):
    f = ctx.used(P.fn("CheckBlock"))
    subst = naming(f, P)
    ex = exits(f, P, subst)
    acc = [e for e in ex if is_true_ret(e)]
    ctx.floor("CheckBlock accepting exits", len(acc), 2)
    # discover the sigop accumulator and the coinbase loop index
    sig = [e for e in ex if (invalid_call(e.value) or (0, 0))[1] == "bad-blk-sigops"]
    mult = [e for e in ex if (invalid_call(e.value) or (0, 0))[1] == "bad-cb-multiple"]
    if len(sig) != 1 or len(mult) != 1 or len(mult[0].loops) != 1:
        raise AnalysisBroken("CheckBlock: expected one bad-blk-sigops exit and one bad-cb-multiple exit inside one loop")
    i = for_shape(mult[0].loops[0], subst)[0]
    adds = sites(f, lambda e: e[0] == "b" and e[1] in ASSIGN_OPS and is_expr(e[2]) and e[2][0] == "local" and contains(["call", "GetLegacySigOpCount"], e[3]), P)
    if len(adds) != 1:
        raise AnalysisBroken("CheckBlock: expected exactly one statement accumulating GetLegacySigOpCount")
    nsig = adds[0].expr[2][1]
    atoms = {"FCHECKED": "block.fChecked", "EMPTY": "block.vtx.empty()", "COUNT": ("4 * block.vtx.size() < 4000001", False),
             "SIZE": ("4 * GetSerializeSize(TX_NO_WITNESS(block)) < 4000001", False), "CB0": "block.vtx[0].IsCoinBase()",
             "CBI": "block.vtx[%s].IsCoinBase()" % i, "INRANGE": "%s < block.vtx.size()" % i, "SIGOPS": ("4 * %s < 80001" % nsig, False)}
    scalar = [("bad-blk-length", "EMPTY || COUNT || SIZE", "an empty block, more than 1,000,000 transactions or a stripped size above 1,000,000 bytes (x4 > 4,000,000)"),
              ("bad-cb-missing", "EMPTY || !CB0", "a block whose first transaction is not a coinbase"),
              ("bad-blk-sigops", "SIGOPS", "a block whose legacy sigop count x4 exceeds 80,000")]
    for label, cond, text in scalar:
        check_excludes(ctx, f, P, acc, "!FCHECKED && (%s)" % cond, atoms, "CheckBlock/rung:%s" % label, "CheckBlock never accepts " + text)
        for e in ex:
            ic = invalid_call(e.value)
            if ic and ic[1] == label:
                f_, mapping, un = bound(drop_done(e.own_formula(None)), atoms)
                cex = F.counterexample(f_, F.parse(cond))
                ok = cex is None and not un
                ctx.ob("CheckBlock/only-if:%s@L%s" % (label, e.line), "LADDER", "CheckBlock rejects with '%s' only when (%s)" % (label, cond), ok, "%s:%s" % (f.file, e.line),
                       None if ok else {"own_guard": F.fshow(e.own_formula(None)), "unbound_code_atoms": un, "counterexample": cex})
    lp = check_loop_rung(ctx, f, P, "bad-cb-multiple", "CBI", atoms, r"for\(1; %s < block\.vtx\.size\(\)\)" % re.escape(i), acc, mult, when="!FCHECKED", subst=subst)
    if lp is not None:
        sh = for_shape(lp, subst)
        ok = sh[1] == "1" and sh[3] in ("%s++" % i, "++%s" % i) and not [w for w in writes_to_local(f, i) if w[1] not in ("post++", "++")]
        ctx.ob("CheckBlock/cb-multiple-loop", "LADDER", "the extra-coinbase scan covers every index 1 .. vtx.size()-1 (starts at 1, steps by 1)", ok, "%s:%s" % (f.file, lp.get("l")), {"loop": sh})
        e = mult[0]
        f_, mapping, un = bound(drop_done(in_loop_formula(e.site, lp, subst)), atoms)
        ok = F.equivalent(f_, F.parse("INRANGE && CBI")) and not un
        ctx.ob("CheckBlock/only-if:bad-cb-multiple", "LADDER", "CheckBlock rejects with 'bad-cb-multiple' only for a coinbase at an index >= 1", ok, "%s:%s" % (f.file, e.line),
               None if ok else {"unbound_code_atoms": un})
    check_results(ctx, f, P, {"bad-blk-length": BC, "bad-cb-missing": BC, "bad-cb-multiple": BC, "bad-blk-sigops": BC}, closed=False, ex=ex)
    # the legacy sigop sum
    check_accumulator(ctx, f, P, nsig, r"0", [(r"GetLegacySigOpCount\(\*?each\(block\.vtx\)\)", "true", {}, r"each\(block\.vtx\)", "GetLegacySigOpCount(tx) for every transaction of the block")],
                      oid="CheckBlock/sigops", subst=subst, own=True)
    ws = sites(f, lambda e: e[0] == "b" and e[1] == "+=" and match(["local", nsig], e[2]), P)
    okb = len(ws) == 1 and F.implies(sig[0].formula, F.atom("done(loop@%s)" % ws[0].loops[-1].get("l"))) if ws and ws[0].loops else False
    ctx.ob("CheckBlock/sigops-before-rung", "ORDER", "the sigop rung is evaluated after the complete summation loop", bool(okb), "%s:%s" % (f.file, sig[0].line))
    # memo flag only behind all rungs
    check_guard(ctx, f, P, lambda e: match(["b", "=", [".", ANY, "CBlock::fChecked"], ["bool", True]], e), "!EMPTY && !COUNT && !SIZE && CB0 && !SIGOPS", atoms,
                "CheckBlock/memo", "block.fChecked is set only after the size, coinbase and sigop rungs passed")


# ---------------------------------------------------------------------------------------------- ContextualCheckBlock
def contextual(ctx, P):
    f = ctx.used(P.fn("ContextualCheckBlock"))
    subst = full_subst(f, P)
    h = r"\(\(?(?:nullptr == pindexPrev|pindexPrev == nullptr|!\(?pindexPrev\)?)\)? \? 0 : \(?(?:1 \+ pindexPrev\.nHeight|pindexPrev\.nHeight \+ 1)\)?\)"
    expect = r"\(CScript\{\} << " + h + r"\)"
    sig = r"block\.vtx\[0\]\.vin\[0\]\.scriptSig"
    atoms = {"BIP34": "DeploymentActiveAfter(pindexPrev, chainman, Consensus::DEPLOYMENT_HEIGHTINCB)",
             "SHORT": re.compile(sig + r"\.size\(\) < " + expect + r"\.size\(\)"),
             "PREFIX": re.compile(r"std::equal\(" + expect + r"\.begin\(\), " + expect + r"\.end\(\), " + sig + r"\.begin\(\)\)"),
             "HEAVY": ("GetBlockWeight(block) < 4000001", False)}
    ex = exits(f, P, subst)
    acc = [e for e in ex if is_true_ret(e)]
    ctx.floor("ContextualCheckBlock accepting exits", len(acc), 1)
    rungs = [("bad-cb-height", "BIP34 && (SHORT || !PREFIX)", "a block whose coinbase scriptSig does not start with the serialized height once BIP34 is active"),
             ("bad-blk-weight", "HEAVY", "a block whose weight exceeds 4,000,000")]
    for label, cond, text in rungs:
        check_excludes(ctx, f, P, acc, cond, atoms, "ContextualCheckBlock/rung:%s" % label, "ContextualCheckBlock never accepts " + text)
        hits = [e for e in ex if (invalid_call(e.value) or (0, 0))[1] == label]
        for e in hits:
            f_, mapping, un = bound(drop_done(e.own_formula(None)), atoms)
            cex = F.counterexample(f_, F.parse(cond))
            ok = cex is None and not un
            ctx.ob("ContextualCheckBlock/only-if:%s@L%s" % (label, e.line), "LADDER", "ContextualCheckBlock rejects with '%s' only when (%s)" % (label, cond), ok,
                   "%s:%s" % (f.file, e.line), None if ok else {"own_guard": F.fshow(e.own_formula(None))[:900], "unbound_code_atoms": un, "counterexample": cex})
    check_results(ctx, f, P, {"bad-cb-height": BC, "bad-blk-weight": BC}, closed=False, ex=ex)
    # the weight formula
    g = ctx.used(P.fn("GetBlockWeight"))
    rv = [F.key(e.value) for e in exits(g, P) if is_expr(e.value)]
    want = {"(3 * GetSerializeSize(TX_NO_WITNESS(block))) + GetSerializeSize(TX_WITH_WITNESS(block))", "(GetSerializeSize(TX_NO_WITNESS(block)) * 3) + GetSerializeSize(TX_WITH_WITNESS(block))"}
    ctx.ob("GetBlockWeight/formula", "TWIN", "GetBlockWeight(block) == stripped size * (WITNESS_SCALE_FACTOR - 1) + total size", len(rv) == 1 and rv[0] in want, g.where, {"returns": rv})


# ---------------------------------------------------------------------------------------------- ConnectBlock
def connect_block(ctx, P):
    f = ctx.used(P.fn("Chainstate::ConnectBlock"))
    calls = sites(f, call_to("GetTransactionSigOpCost"), P)
    if len(calls) != 1 or not calls[0].loops:
        raise AnalysisBroken("ConnectBlock: expected exactly one GetTransactionSigOpCost call inside the transaction loop")
    c = calls[0]
    txloop = c.loops[0]
    subst = loop_subst(f, P, txloop)
    iv, st, cond, inc = for_shape(txloop, subst)
    okl = st == "0" and cond == "%s < block.vtx.size()" % iv and inc in ("%s++" % iv, "++%s" % iv) and not [w for w in writes_to_local(f, iv) if w[1] not in ("post++", "++")]
    ctx.ob("ConnectBlock/tx-loop", "SUM", "the transaction loop of ConnectBlock runs i = 0 .. vtx.size()-1 (coinbase included)", okl, "%s:%s" % (f.file, txloop.get("l")),
           {"loop": [iv, st, cond, inc]})
    a = call_args(c.expr)
    ak = [F.key(F.expand(x, subst)) for x in a]
    fl = a[2][1] if len(a) == 3 and a[2][0] == "local" else None
    d = decl_of(f, fl) if fl else None
    okargs = (len(a) == 3 and ak[0] in ("*block.vtx[%s]" % iv, "block.vtx[%s]" % iv) and ak[1] == "view" and d is not None and is_expr(d.get("i"))
              and any(is_call_to("GetBlockScriptFlags", x) and [F.key(y) for y in call_args(x)] == ["*pindex", "m_chainman"] for x in subexprs(d["i"]))
              and not writes_to_local(f, fl))
    ctx.ob("ConnectBlock/sigop-args", "PROVENANCE", "the cost of each transaction is GetTransactionSigOpCost(block.vtx[i], view, GetBlockScriptFlags(*pindex, m_chainman))", okargs, c.where,
           {"args": ak, "flags_init": show(d.get("i")) if d else None})
    ws = sites(f, lambda e: e[0] == "b" and e[1] in ASSIGN_OPS and is_expr(e[2]) and e[2][0] == "local" and any(x is c.expr for x in subexprs(e[3])), P)
    if len(ws) != 1:
        raise AnalysisBroken("ConnectBlock: GetTransactionSigOpCost is not assigned/accumulated into a local")
    acc = ws[0].expr[2][1]
    tx = r"\(?\*?\(?block\.vtx\[%s\]\)?\)?" % iv
    atoms = {"INRANGE": "%s < block.vtx.size()" % iv, "VALID": "state.IsValid()", "COINBASE": re.compile(tx + r"\.IsCoinBase\(\)"),
             "CTI": re.compile(r"Consensus::CheckTxInputs\(.*\)"), "FEESOK": re.compile(r"MoneyRange\(\w+\)"),
             "HEIGHTSDONE": (re.compile(r"\w+ < .*vin\.size\(\)"), False), "SEQLOCKS": re.compile(r"SequenceLocks\(.*\)"),
             "OVER": ("%s < 80001" % acc, False)}
    reach = "INRANGE && VALID && (COINBASE || (CTI && FEESOK && HEIGHTSDONE && SEQLOCKS))"
    check_accumulator(ctx, f, P, acc, r"0", [(r"GetTransactionSigOpCost\(.*\)", reach, atoms, None, "GetTransactionSigOpCost(tx) for the coinbase and for every transaction that passed the input checks")],
                      oid="ConnectBlock/sigops", subst=subst, scope=txloop)
    check_deferred_rung(ctx, f, P, "bad-blk-sigops", BC, reach + " && OVER", atoms, subst)
    s = invalid_sites(f, P, "bad-blk-sigops")
    if s:
        ctx.ob("ConnectBlock/sigops-order", "ORDER", "the limit is tested after the current transaction's cost was added (same iteration)", ws[0].line < s[0].line and s[0].loops and s[0].loops[0] is txloop,
               s[0].where)
    check_deferred_accepts(ctx, f, P, "VALID || GENESIS", {"VALID": "state.IsValid()", "GENESIS": re.compile(r".*hashGenesisBlock.*")}, subst)


# ---------------------------------------------------------------------------------------------- sigop cost twins
def sigop_twins(ctx, P):
    # GetTransactionSigOpCost
    f = ctx.used(P.fn("GetTransactionSigOpCost"))
    subst = naming(f, P)
    ex = exits(f, P, subst)
    names = {show(e.value) for e in ex if is_expr(e.value) and e.value[0] == "local"}
    if len(names) != 1 or len(ex) != 2:
        raise AnalysisBroken("GetTransactionSigOpCost: expected two exits returning the same accumulator")
    acc = names.pop()
    lps = loops_in(f, "for")
    i = for_shape(lps[0], subst)[0] if len(lps) == 1 else "?"
    coin = r"inputs\.AccessCoin\(tx\.vin\[%s\]\.prevout\)" % i
    p2sh = re.compile(r"(?:flags & script_verify_flags\{script_verify_flag_name::SCRIPT_VERIFY_P2SH\}|script_verify_flags\{script_verify_flag_name::SCRIPT_VERIFY_P2SH\} & flags|flags & SCRIPT_VERIFY_P2SH|SCRIPT_VERIFY_P2SH & flags)")
    atoms = {"COINBASE": "tx.IsCoinBase()", "P2SH": p2sh, "INRANGE": "%s < tx.vin.size()" % i, "UNSPENT": (re.compile(coin + r"\.IsSpent\(\)"), False)}
    check_accumulator(ctx, f, P, acc, r"(?:4 \* GetLegacySigOpCount\(tx\)|GetLegacySigOpCount\(tx\) \* 4)", [
        (r"\(?(?:4 \* GetP2SHSigOpCount\(tx, inputs\)|GetP2SHSigOpCount\(tx, inputs\) \* 4)\)?", "!COINBASE && P2SH", atoms, None, "4 * GetP2SHSigOpCount(tx, inputs) under SCRIPT_VERIFY_P2SH"),
        (r"CountWitnessSigOps\(tx\.vin\[%s\]\.scriptSig, %s\.out\.scriptPubKey, tx\.vin\[%s\]\.scriptWitness, flags\)" % (i, coin, i), "!COINBASE && INRANGE && UNSPENT", atoms,
         r"for\(0; %s < tx\.vin\.size\(\)\)" % i, "CountWitnessSigOps(scriptSig, spent scriptPubKey, witness, flags) per input"),
    ], oid="GetTransactionSigOpCost/sum", subst=subst, init_text="4 * GetLegacySigOpCount(tx)")
    early = [e for e in ex if not e.loops and not any(DONE.fullmatch(a) for a in F.atoms(e.formula))]
    late = [e for e in ex if e not in early]
    ok = len(early) == 1 and len(late) == 1
    if ok:
        check_equiv(ctx, early[0].formula, "COINBASE", atoms, "GetTransactionSigOpCost/coinbase-exit", "SUM", "a coinbase costs exactly its legacy sigops x4 (early return before P2SH/witness terms)",
                    "%s:%s" % (f.file, early[0].line))
        adds = sites(f, lambda e: e[0] == "b" and e[1] == "+=" and match(["local", acc], e[2]), P)
        ctx.ob("GetTransactionSigOpCost/coinbase-exit-first", "ORDER", "the coinbase return precedes every addition", all(early[0].line < s.line for s in adds), "%s:%s" % (f.file, early[0].line))
        check_equiv(ctx, late[0].formula, "!COINBASE && !INRANGE", atoms, "GetTransactionSigOpCost/final-exit", "SUM", "the total is returned after the complete input loop", "%s:%s" % (f.file, late[0].line))
    else:
        ctx.ob("GetTransactionSigOpCost/exits", "SUM", "GetTransactionSigOpCost has one early (coinbase) exit and one final exit", False, f.where)
    # GetLegacySigOpCount
    g = ctx.used(P.fn("GetLegacySigOpCount"))
    gs = naming(g, P)
    gx = exits(g, P, gs)
    gacc = show(gx[0].value) if len(gx) == 1 and is_expr(gx[0].value) and gx[0].value[0] == "local" else None
    if gacc is None:
        raise AnalysisBroken("GetLegacySigOpCount: expected a single exit returning the accumulator")
    check_accumulator(ctx, g, P, gacc, r"0", [
        (r"each\(tx\.vin\)\.scriptSig\.GetSigOpCount\(false\)", "true", {}, r"each\(tx\.vin\)", "scriptSig.GetSigOpCount(false) for every input"),
        (r"each\(tx\.vout\)\.scriptPubKey\.GetSigOpCount\(false\)", "true", {}, r"each\(tx\.vout\)", "scriptPubKey.GetSigOpCount(false) for every output"),
    ], oid="GetLegacySigOpCount/sum", subst=gs)
    # GetP2SHSigOpCount
    h = ctx.used(P.fn("GetP2SHSigOpCount"))
    hs = naming(h, P)
    hx = exits(h, P, hs)
    hl = loops_in(h, "for")
    j = for_shape(hl[0], hs)[0] if len(hl) == 1 else "?"
    hcoin = r"inputs\.AccessCoin\(tx\.vin\[%s\]\.prevout\)" % j
    hat = {"COINBASE": "tx.IsCoinBase()", "INRANGE": "%s < tx.vin.size()" % j, "UNSPENT": (re.compile(hcoin + r"\.IsSpent\(\)"), False),
           "ISP2SH": re.compile(hcoin + r"\.out\.scriptPubKey\.IsPayToScriptHash\(\)")}
    accs = {show(e.value) for e in hx if is_expr(e.value) and e.value[0] == "local"}
    zero = [e for e in hx if is_expr(e.value) and match(["int", 0], e.value)]
    if len(accs) != 1 or len(zero) != 1 or len(hx) != 2:
        raise AnalysisBroken("GetP2SHSigOpCount: expected `return 0` for coinbase and one accumulator exit")
    hacc = accs.pop()
    check_equiv(ctx, zero[0].formula, "COINBASE", hat, "GetP2SHSigOpCount/coinbase", "SUM", "GetP2SHSigOpCount is 0 exactly for a coinbase (early return)", "%s:%s" % (h.file, zero[0].line))
    check_accumulator(ctx, h, P, hacc, r"0", [
        (hcoin + r"\.out\.scriptPubKey\.GetSigOpCount\(tx\.vin\[%s\]\.scriptSig\)" % j, "!COINBASE && INRANGE && UNSPENT && ISP2SH", hat, r"for\(0; %s < tx\.vin\.size\(\)\)" % j,
         "spent scriptPubKey.GetSigOpCount(scriptSig) for every input spending a P2SH output"),
    ], oid="GetP2SHSigOpCount/sum", subst=hs)
