"""C06 Accepted blocks have the required structure and respect resource limits (DESIGN §3 C06)."""
import re

from sa.engine.api import *
from sa.rules._helpers_A import *

UNITS = ["validation.cpp", "consensus/tx_verify.cpp", "script/script.cpp"]
EXPLANATION = ("LADDER (NECESSARY + only-if + result enums) on CheckBlock: no accepting path with an empty block, vtx.size()*4 > 4,000,000, stripped size*4 > 4,000,000, "
               "a non-coinbase first transaction, a coinbase at any index 1..size-1 (complete loop from 1), or 4 * sum(GetLegacySigOpCount) > 80,000; the memo flag is set "
               "only behind all of them. ContextualCheckBlock: BIP34 rung (HEIGHTINCB active after prev: scriptSig shorter than, or not starting with, CScript() << height) and "
               "GetBlockWeight(block) > 4,000,000, both necessary for acceptance and raised only then. ConnectBlock: nSigOpsCost = sum over every transaction that reaches the "
               "accounting point (coinbase included) of GetTransactionSigOpCost(tx, view, GetBlockScriptFlags(*pindex)), rung > 80,000 evaluated in the loop, valid state required "
               "for `return true`. SUM twins of GetTransactionSigOpCost, GetLegacySigOpCount, GetP2SHSigOpCount and the GetBlockWeight formula. Constants pinned.")
ASSUMPTIONS = ["CScript::GetSigOpCount / CountWitnessSigOps count opcodes correctly (opaque atoms)", "GetSerializeSize computes the serialized size",
               "std::equal compares the whole expected prefix", "ValidationState::IsValid() is false after Invalid() and is never reset"]
CLAIM = dict(
    technique="static analysis: reject-ladder conformance by truth tables over canonical atoms, accumulator (sum) twins, constants",
    text="Decides, for all paths, that CheckBlock / ContextualCheckBlock / ConnectBlock accept only blocks within the structural and resource limits named by the property, with "
         "the exact comparison operators and constants (smallest violation rejected), that each limit's rejection fires only when the limit is exceeded, and that the sigop "
         "cost is the specified sum (legacy x4, P2SH x4 under SCRIPT_VERIFY_P2SH, witness per input; coinbase legacy only).",
    note="Decided for CScript::GetSigOpCount(bool): the per-opcode increments (CHECKSIG/VERIFY +1; CHECKMULTISIG/VERIFY +DecodeOP_N(previous opcode) only if accurate and OP_1..OP_16, else +20), "
         "the whole-script scan and the previous-opcode update. Not decided: CScript::GetOp decoding, CountWitnessSigOps and the P2SH redeem-script extraction, serialization sizes, "
         "CScript() << height encoding.",
    ref="DESIGN.md §3 C06")

BC = "BlockValidationResult::BLOCK_CONSENSUS"


def check(ctx):
    P = ctx.program(UNITS)
    consts(ctx, P)
    check_block(ctx, P)
    contextual(ctx, P)
    connect_block(ctx, P)
    sigop_twins(ctx, P)
    script_sigops(ctx, P)


def consts(ctx, P):
    for name, want, txt in [("MAX_BLOCK_WEIGHT", 4000000, "4,000,000"), ("MAX_BLOCK_SIGOPS_COST", 80000, "80,000"), ("WITNESS_SCALE_FACTOR", 4, "4"),
                            ("MAX_BLOCK_SERIALIZED_SIZE", 4000000, "4,000,000")]:
        v = P.const(name)
        ctx.ob("const/%s" % name, "CONST", "%s == %s" % (name, txt), v == want, None, {"value": v})


# ---------------------------------------------------------------------------------------------- CheckBlock
def check_block(ctx, P):
    f = ctx.used(P.fn("CheckBlock"))
    subst = naming(f, P)
    ex = exits(f, P, subst)
    acc = [e for e in ex if is_true_ret(e)]
    ctx.floor("CheckBlock accepting exits", len(acc), 2)
    # discover the sigop accumulator and the coinbase loop index
    sig = [e for e in ex if (invalid_call(e.value) or (0, 0))[1] == "bad-blk-sigops"]
    mult = [e for e in ex if (invalid_call(e.value) or (0, 0))[1] == "bad-cb-multiple"]
    if len(sig) != 1 or len(mult) != 1 or len(mult[0].loops) != 1:
        raise AnalysisBroken("CheckBlock: expected one bad-blk-sigops exit and one bad-cb-multiple exit inside one loop")
    i = for_shape(mult[0].loops[0], subst)[0]
    # the legacy sigop sum: either accumulated in CheckBlock itself, or in a repository helper whose result initialises the tested value
    holder, hsubst, barg = f, subst, "block"
    adds = sites(f, lambda e: e[0] == "b" and e[1] in ASSIGN_OPS and is_expr(e[2]) and e[2][0] == "local" and contains(["call", "GetLegacySigOpCount"], e[3]), P)
    sigterm = None
    if len(adds) == 1:
        nsig = adds[0].expr[2][1]
        sigterm = re.escape(nsig)
    elif not adds:
        # follow `x = Helper(block)` / a direct `Helper(block)` operand of the rung into the helper's body
        cands = []
        for a_ in F.atoms(sig[0].own_formula(None)):
            m = re.fullmatch(r"4 \* ((?:\w|::)+)\((\w+)\) < \d+", a_)
            if m and len(P.fns(m.group(1))) == 1 and P.fns(m.group(1))[0].body is not None:
                cands.append((P.fns(m.group(1))[0], m.group(2), "%s(%s)" % (m.group(1), m.group(2))))
        if len(cands) != 1 or cands[0][1] != "block" or len(cands[0][0].params) != 1:
            raise AnalysisBroken("CheckBlock: the legacy sigop sum was found neither in CheckBlock nor in a single-argument helper applied to the block")
        holder = ctx.used(cands[0][0])
        hsubst = naming(holder, P)
        barg = holder.params[0]["n"]
        hx = exits(holder, P, hsubst)
        accs = {show(e.value) for e in hx if is_expr(e.value) and e.value[0] == "local"}
        if len(accs) != 1 or len(hx) != 1:
            raise AnalysisBroken("%s: expected a single exit returning the accumulator" % holder.q)
        nsig = accs.pop()
        sigterm = re.escape(cands[0][2])
        ctx.note("CheckBlock: legacy sigop sum is computed by helper %s (followed)" % holder.q)
    else:
        raise AnalysisBroken("CheckBlock: expected exactly one statement accumulating GetLegacySigOpCount")
    atoms = {"FCHECKED": "block.fChecked", "EMPTY": "block.vtx.empty()", "COUNT": ("4 * block.vtx.size() < 4000001", False),
             "SIZE": ("4 * GetSerializeSize(TX_NO_WITNESS(block)) < 4000001", False), "CB0": "block.vtx[0].IsCoinBase()",
             "CBI": "block.vtx[%s].IsCoinBase()" % i, "INRANGE": "%s < block.vtx.size()" % i, "SIGOPS": (re.compile(r"4 \* " + sigterm + r" < 80001"), False)}
    scalar = [("bad-blk-length", "EMPTY || COUNT || SIZE", "an empty block, more than 1,000,000 transactions or a stripped size above 1,000,000 bytes (x4 > 4,000,000)"),
              ("bad-cb-missing", "EMPTY || !CB0", "a block whose first transaction is not a coinbase"),
              ("bad-blk-sigops", "SIGOPS", "a block whose legacy sigop count x4 exceeds 80,000")]
    for label, cond, text in scalar:
        check_excludes(ctx, f, P, acc, "!FCHECKED && (%s)" % cond, atoms, "CheckBlock/rung:%s" % label, "CheckBlock never accepts " + text)
        for e in ex:
            ic = invalid_call(e.value)
            if ic and ic[1] == label:
                f_, mapping, un = bound(drop_done(e.own_formula(None)), atoms)
                cex = F.counterexample(f_, F.parse(cond))
                ok = cex is None and not un
                ctx.ob("CheckBlock/only-if:%s@L%s" % (label, e.line), "LADDER", "CheckBlock rejects with '%s' only when (%s)" % (label, cond), ok, "%s:%s" % (f.file, e.line),
                       None if ok else {"own_guard": F.fshow(e.own_formula(None)), "unbound_code_atoms": un, "counterexample": cex})
    lp = check_loop_rung(ctx, f, P, "bad-cb-multiple", "CBI", atoms, r"for\(1; %s < block\.vtx\.size\(\)\)" % re.escape(i), acc, mult, when="!FCHECKED", subst=subst)
    if lp is not None:
        sh = for_shape(lp, subst)
        ok = sh[1] == "1" and sh[3] in ("%s++" % i, "++%s" % i) and not [w for w in writes_to_local(f, i) if w[1] not in ("post++", "++")]
        ctx.ob("CheckBlock/cb-multiple-loop", "LADDER", "the extra-coinbase scan covers every index 1 .. vtx.size()-1 (starts at 1, steps by 1)", ok, "%s:%s" % (f.file, lp.get("l")), {"loop": sh})
        e = mult[0]
        f_, mapping, un = bound(drop_done(in_loop_formula(e.site, lp, subst)), atoms)
        ok = F.equivalent(f_, F.parse("INRANGE && CBI")) and not un
        ctx.ob("CheckBlock/only-if:bad-cb-multiple", "LADDER", "CheckBlock rejects with 'bad-cb-multiple' only for a coinbase at an index >= 1", ok, "%s:%s" % (f.file, e.line),
               None if ok else {"unbound_code_atoms": un})
    check_results(ctx, f, P, {"bad-blk-length": BC, "bad-cb-missing": BC, "bad-cb-multiple": BC, "bad-blk-sigops": BC}, closed=False, ex=ex)
    # the legacy sigop sum
    vtx_each = r"each\(" + re.escape(barg) + r"\.vtx\)"
    check_accumulator(ctx, holder, P, nsig, r"0", [(r"GetLegacySigOpCount\(\*?" + vtx_each + r"\)", "true", {}, vtx_each, "GetLegacySigOpCount(tx) for every transaction of the block")],
                      oid="CheckBlock/sigops", subst=hsubst, own=True)
    ws = sites(holder, lambda e: e[0] == "b" and e[1] == "+=" and match(["local", nsig], e[2]), P)
    if holder is f:
        okb = len(ws) == 1 and F.implies(sig[0].formula, F.atom("done(loop@%s)" % ws[0].loops[-1].get("l"))) if ws and ws[0].loops else False
    else:
        hx = exits(holder, P, hsubst)
        okb = len(ws) == 1 and bool(ws[0].loops) and all(F.implies(e.formula, F.atom("done(loop@%s)" % ws[0].loops[-1].get("l"))) for e in hx)
    ctx.ob("CheckBlock/sigops-before-rung", "ORDER", "the sigop rung is evaluated after the complete summation loop", bool(okb), "%s:%s" % (f.file, sig[0].line))
    # memo flag only behind all rungs
    check_guard(ctx, f, P, lambda e: match(["b", "=", [".", ANY, "CBlock::fChecked"], ["bool", True]], e), "!EMPTY && !COUNT && !SIZE && CB0 && !SIGOPS", atoms,
                "CheckBlock/memo", "block.fChecked is set only after the size, coinbase and sigop rungs passed")


# ---------------------------------------------------------------------------------------------- ContextualCheckBlock
def contextual(ctx, P):
    f = ctx.used(P.fn("ContextualCheckBlock"))
    subst = full_subst(f, P)
    h = r"\(\(?(?:nullptr == pindexPrev|pindexPrev == nullptr|!\(?pindexPrev\)?)\)? \? 0 : \(?(?:1 \+ pindexPrev\.nHeight|pindexPrev\.nHeight \+ 1)\)?\)"
    expect = r"\(CScript\{\} << " + h + r"\)"
    sig = r"block\.vtx\[0\]\.vin\[0\]\.scriptSig"
    atoms = {"BIP34": "DeploymentActiveAfter(pindexPrev, chainman, Consensus::DEPLOYMENT_HEIGHTINCB)",
             "SHORT": re.compile(sig + r"\.size\(\) < " + expect + r"\.size\(\)"),
             "PREFIX": re.compile(r"std::equal\(" + expect + r"\.begin\(\), " + expect + r"\.end\(\), " + sig + r"\.begin\(\)\)"),
             "HEAVY": ("GetBlockWeight(block) < 4000001", False)}
    ex = exits(f, P, subst)
    acc = [e for e in ex if is_true_ret(e)]
    ctx.floor("ContextualCheckBlock accepting exits", len(acc), 1)
    rungs = [("bad-cb-height", "BIP34 && (SHORT || !PREFIX)", "a block whose coinbase scriptSig does not start with the serialized height once BIP34 is active"),
             ("bad-blk-weight", "HEAVY", "a block whose weight exceeds 4,000,000")]
    for label, cond, text in rungs:
        check_excludes(ctx, f, P, acc, cond, atoms, "ContextualCheckBlock/rung:%s" % label, "ContextualCheckBlock never accepts " + text)
        hits = [e for e in ex if (invalid_call(e.value) or (0, 0))[1] == label]
        for e in hits:
            f_, mapping, un = bound(drop_done(e.own_formula(None)), atoms)
            cex = F.counterexample(f_, F.parse(cond))
            ok = cex is None and not un
            ctx.ob("ContextualCheckBlock/only-if:%s@L%s" % (label, e.line), "LADDER", "ContextualCheckBlock rejects with '%s' only when (%s)" % (label, cond), ok,
                   "%s:%s" % (f.file, e.line), None if ok else {"own_guard": F.fshow(e.own_formula(None))[:900], "unbound_code_atoms": un, "counterexample": cex})
    check_results(ctx, f, P, {"bad-cb-height": BC, "bad-blk-weight": BC}, closed=False, ex=ex)
    # the weight formula
    g = ctx.used(P.fn("GetBlockWeight"))
    rv = [F.key(e.value) for e in exits(g, P) if is_expr(e.value)]
    want = {"(3 * GetSerializeSize(TX_NO_WITNESS(block))) + GetSerializeSize(TX_WITH_WITNESS(block))", "(GetSerializeSize(TX_NO_WITNESS(block)) * 3) + GetSerializeSize(TX_WITH_WITNESS(block))"}
    ctx.ob("GetBlockWeight/formula", "TWIN", "GetBlockWeight(block) == stripped size * (WITNESS_SCALE_FACTOR - 1) + total size", len(rv) == 1 and rv[0] in want, g.where, {"returns": rv})


# ---------------------------------------------------------------------------------------------- ConnectBlock
def connect_block(ctx, P):
    f = ctx.used(P.fn("Chainstate::ConnectBlock"))
    calls = sites(f, call_to("GetTransactionSigOpCost"), P)
    if len(calls) != 1 or not calls[0].loops:
        raise AnalysisBroken("ConnectBlock: expected exactly one GetTransactionSigOpCost call inside the transaction loop")
    c = calls[0]
    txloop = c.loops[0]
    subst = loop_subst(f, P, txloop)
    txinfo = loop_info(f, txloop, subst)
    TX = r"\(?\*?\(?" + elem_rx(txinfo) + r"\)?\)?"
    okl = txinfo["start"] == "0" and "block.vtx" in txinfo["ranges"] and txinfo["counted"]
    ctx.ob("ConnectBlock/tx-loop", "SUM", "the transaction loop of ConnectBlock visits block.vtx from the first element, one by one (coinbase included)", okl,
           "%s:%s" % (f.file, txloop.get("l")), {"kind": txinfo["kind"], "range": txinfo["ranges"], "start": txinfo["start"]})
    a = call_args(c.expr)
    ak = [F.key(F.expand(x, subst)) for x in a]
    fl = a[2][1] if len(a) == 3 and a[2][0] == "local" else None
    d = decl_of(f, fl) if fl else None
    okargs = (len(a) == 3 and re.fullmatch(TX, ak[0]) is not None and ak[1] == "view" and d is not None and is_expr(d.get("i"))
              and any(is_call_to("GetBlockScriptFlags", x) and [F.key(y) for y in call_args(x)] == ["*pindex", "m_chainman"] for x in subexprs(d["i"]))
              and not writes_to_local(f, fl))
    ctx.ob("ConnectBlock/sigop-args", "PROVENANCE", "the cost of each transaction is GetTransactionSigOpCost(<current transaction>, view, GetBlockScriptFlags(*pindex, m_chainman))", okargs, c.where,
           {"args": ak, "flags_init": show(d.get("i")) if d else None})
    ws = sites(f, lambda e: e[0] == "b" and e[1] in ASSIGN_OPS and is_expr(e[2]) and e[2][0] == "local" and any(x is c.expr for x in subexprs(e[3])), P)
    if len(ws) != 1:
        raise AnalysisBroken("ConnectBlock: GetTransactionSigOpCost is not assigned/accumulated into a local")
    acc = ws[0].expr[2][1]
    atoms = {"VALID": "state.IsValid()", "COINBASE": re.compile(TX + r"\.IsCoinBase\(\)"),
             "CTI": re.compile(r"Consensus::CheckTxInputs\(.*\)"), "FEESOK": re.compile(r"MoneyRange\(\w+\)"), "SEQLOCKS": re.compile(r"SequenceLocks\(.*\)"),
             "OVER": ("%s < 80001" % acc, False)}
    reach = "VALID && (COINBASE || (CTI && FEESOK && SEQLOCKS))"
    check_accumulator(ctx, f, P, acc, r"0", [(r"GetTransactionSigOpCost\(.*\)", reach, atoms, None, "GetTransactionSigOpCost(tx) for the coinbase and for every transaction that passed the input checks")],
                      oid="ConnectBlock/sigops", subst=subst, scope=txloop)
    check_deferred_rung(ctx, f, P, "bad-blk-sigops", BC, reach + " && OVER", atoms, subst)
    s = invalid_sites(f, P, "bad-blk-sigops")
    if s:
        ctx.ob("ConnectBlock/sigops-order", "ORDER", "the limit is tested after the current transaction's cost was added (same iteration)", ws[0].line < s[0].line and s[0].loops and s[0].loops[0] is txloop,
               s[0].where)
    check_deferred_accepts(ctx, f, P, "VALID || GENESIS", {"VALID": "state.IsValid()", "GENESIS": re.compile(r".*hashGenesisBlock.*")}, subst)


# ---------------------------------------------------------------------------------------------- sigop cost twins
def sum_exits(ctx, fn, P, subst, acc, atoms, oid, text):
    """Exits of a summing function, independent of early-return vs. nested-if style: every exit returns the accumulator (or the literal 0 for a
    coinbase); an exit taken for a non-coinbase lies behind every addition (behind the complete loop for additions made in a loop)."""
    ex = exits(fn, P, subst)
    adds = sites(fn, lambda e: e[0] == "b" and e[1] == "+=" and match(["local", acc], e[2]), P)
    okall = bool(ex)
    detail = []
    for e in ex:
        v = e.value
        isacc = is_expr(v) and match(["local", acc], v)
        iszero = is_expr(v) and match(["int", 0], v)
        f_, m_, un = bound(drop_done(e.formula), atoms)
        if iszero:
            ok = F.implies(f_, F.parse("COINBASE"))
        elif isacc:
            ok = True
            for a in adds:
                concl = [F.parse("COINBASE")]
                if a.loops:
                    concl.append(F.atom("done(loop@%s)" % a.loops[0].get("l")))
                    g_, _, _ = F.bind_atoms(e.formula, atoms)
                    ok = ok and F.counterexample(g_, F.mk_or(concl)) is None
                else:
                    ok = ok and (F.implies(f_, F.parse("COINBASE")) or (e.line or 0) > (a.line or 0))
        else:
            ok = False
        detail.append((e.line, show(v) if is_expr(v) else None, ok))
        okall = okall and ok
    ctx.ob("%s/exits" % oid, "SUM", text, okall, fn.where, {"exits": detail})


def sigop_twins(ctx, P):
    # GetTransactionSigOpCost
    f = ctx.used(P.fn("GetTransactionSigOpCost"))
    subst = naming(f, P)
    ex = exits(f, P, subst)
    names = {show(e.value) for e in ex if is_expr(e.value) and e.value[0] == "local"}
    if len(names) != 1:
        raise AnalysisBroken("GetTransactionSigOpCost: expected every exit to return the same accumulator")
    acc = names.pop()
    wsites = sites(f, call_to("CountWitnessSigOps"), P)
    if len(wsites) != 1 or len(wsites[0].loops) != 1:
        raise AnalysisBroken("GetTransactionSigOpCost: expected one CountWitnessSigOps call inside one loop over the inputs")
    info = loop_info(f, wsites[0].loops[0], subst)
    el = elem_rx(info)
    coin = r"inputs\.AccessCoin\(" + el + r"\.prevout\)"
    p2sh = re.compile(r"(?:flags & script_verify_flags\{script_verify_flag_name::SCRIPT_VERIFY_P2SH\}|script_verify_flags\{script_verify_flag_name::SCRIPT_VERIFY_P2SH\} & flags|flags & SCRIPT_VERIFY_P2SH|SCRIPT_VERIFY_P2SH & flags)")
    atoms = {"COINBASE": "tx.IsCoinBase()", "P2SH": p2sh, "UNSPENT": (re.compile(coin + r"\.IsSpent\(\)"), False)}
    okl = info["start"] == "0" and "tx.vin" in info["ranges"] and info["complete"]
    ctx.ob("GetTransactionSigOpCost/loop", "SUM", "the witness-sigop loop visits every input of tx", okl, "%s:%s" % (f.file, info["loop"].get("l")),
           {"kind": info["kind"], "range": info["ranges"], "start": info["start"], "complete": info["complete"]})
    check_accumulator(ctx, f, P, acc, r"(?:4 \* GetLegacySigOpCount\(tx\)|GetLegacySigOpCount\(tx\) \* 4)", [
        (r"\(?(?:4 \* GetP2SHSigOpCount\(tx, inputs\)|GetP2SHSigOpCount\(tx, inputs\) \* 4)\)?", "!COINBASE && P2SH", atoms, None, "4 * GetP2SHSigOpCount(tx, inputs) under SCRIPT_VERIFY_P2SH"),
        (r"CountWitnessSigOps\(" + el + r"\.scriptSig, " + coin + r"\.out\.scriptPubKey, " + el + r"\.scriptWitness, flags\)", "!COINBASE && UNSPENT", atoms,
         loop_key_rx(info), "CountWitnessSigOps(scriptSig, spent scriptPubKey, witness, flags) per input"),
    ], oid="GetTransactionSigOpCost/sum", subst=subst, init_text="4 * GetLegacySigOpCount(tx)")
    sum_exits(ctx, f, P, subst, acc, atoms, "GetTransactionSigOpCost",
              "a coinbase costs exactly its legacy sigops x4 (no P2SH/witness term is added for it) and for any other transaction the total is returned only behind the P2SH term and the complete input loop")
    # GetLegacySigOpCount
    g = ctx.used(P.fn("GetLegacySigOpCount"))
    gs = naming(g, P)
    gx = exits(g, P, gs)
    gacc = show(gx[0].value) if len(gx) == 1 and is_expr(gx[0].value) and gx[0].value[0] == "local" else None
    if gacc is None:
        raise AnalysisBroken("GetLegacySigOpCount: expected a single exit returning the accumulator")
    check_accumulator(ctx, g, P, gacc, r"0", [
        (r"each\(tx\.vin\)\.scriptSig\.GetSigOpCount\(false\)", "true", {}, r"each\(tx\.vin\)", "scriptSig.GetSigOpCount(false) for every input"),
        (r"each\(tx\.vout\)\.scriptPubKey\.GetSigOpCount\(false\)", "true", {}, r"each\(tx\.vout\)", "scriptPubKey.GetSigOpCount(false) for every output"),
    ], oid="GetLegacySigOpCount/sum", subst=gs)
    ctx.ob("GetLegacySigOpCount/exit", "SUM", "GetLegacySigOpCount returns its sum after both loops",
           all(F.implies(gx[0].formula, F.atom("done(loop@%s)" % lp.get("l"))) for lp in loops_in(g) if lp.get("k") in ("for", "foreach")) and len(loops_in(g)) >= 2, g.where)
    # GetP2SHSigOpCount
    h = ctx.used(P.fn("GetP2SHSigOpCount"))
    hs = naming(h, P)
    hx = exits(h, P, hs)
    accs = {show(e.value) for e in hx if is_expr(e.value) and e.value[0] == "local"}
    if len(accs) != 1:
        raise AnalysisBroken("GetP2SHSigOpCount: expected one accumulator")
    hacc = accs.pop()
    hadds = sites(h, lambda e: e[0] == "b" and e[1] in ASSIGN_OPS and match(["local", hacc], e[2]), P)
    if len(hadds) != 1 or len(hadds[0].loops) != 1:
        ctx.ob("GetP2SHSigOpCount/sum", "SUM", "GetP2SHSigOpCount has a single addition inside one loop over the inputs", False, h.where, {"writes": [(x.line, show(x.expr)) for x in hadds]})
        return
    hi = loop_info(h, hadds[0].loops[0], hs)
    hel = elem_rx(hi)
    hcoin = r"inputs\.AccessCoin\(" + hel + r"\.prevout\)"
    hat = {"COINBASE": "tx.IsCoinBase()", "UNSPENT": (re.compile(hcoin + r"\.IsSpent\(\)"), False),
           "ISP2SH": re.compile(hcoin + r"\.out\.scriptPubKey\.IsPayToScriptHash\(\)")}
    ctx.ob("GetP2SHSigOpCount/loop", "SUM", "the P2SH-sigop loop visits every input of tx", hi["start"] == "0" and "tx.vin" in hi["ranges"] and hi["complete"],
           "%s:%s" % (h.file, hi["loop"].get("l")), {"kind": hi["kind"], "range": hi["ranges"], "start": hi["start"], "complete": hi["complete"]})
    check_accumulator(ctx, h, P, hacc, r"0", [
        (hcoin + r"\.out\.scriptPubKey\.GetSigOpCount\(" + hel + r"\.scriptSig\)", "!COINBASE && UNSPENT && ISP2SH", hat, loop_key_rx(hi),
         "spent scriptPubKey.GetSigOpCount(scriptSig) for every input spending a P2SH output"),
    ], oid="GetP2SHSigOpCount/sum", subst=hs)
    sum_exits(ctx, h, P, hs, hacc, hat, "GetP2SHSigOpCount", "GetP2SHSigOpCount is 0 for a coinbase and otherwise the sum over the complete input loop")


# ---------------------------------------------------------------------------------------------- CScript::GetSigOpCount(bool)
def script_sigops(ctx, P):
    v = P.const("MAX_PUBKEYS_PER_MULTISIG")
    ctx.ob("const/MAX_PUBKEYS_PER_MULTISIG", "CONST", "MAX_PUBKEYS_PER_MULTISIG == 20", v == 20, None, {"value": v})
    fs = [x for x in P.fns("CScript::GetSigOpCount") if len(x.params) == 1 and x.params[0]["ty"] == "bool"]
    if len(fs) != 1:
        raise AnalysisBroken("CScript::GetSigOpCount(bool) not found")
    f = ctx.used(fs[0])
    acc_flag = f.params[0]["n"]
    subst = naming(f, P)
    ex = exits(f, P, subst)
    lps = [lp for lp in loops_in(f)]
    if len(ex) != 1 or not (is_expr(ex[0].value) and ex[0].value[0] == "local") or len(lps) != 1 or lps[0].get("k") != "while":
        raise AnalysisBroken("CScript::GetSigOpCount(bool): expected one `while` scan and a single exit returning the counter")
    n = ex[0].value[1]
    lp = lps[0]
    gets = sites(f, call_to("CScript::GetOp"), P)
    if len(gets) != 1 or len(call_args(gets[0].expr)) < 2 or not all(a[0] == "local" for a in call_args(gets[0].expr)[:2]):
        raise AnalysisBroken("CScript::GetSigOpCount(bool): expected one GetOp(<iterator>, <opcode>) call")
    pc, op = [a[1] for a in call_args(gets[0].expr)[:2]]
    dec = [a[1] for x in sites(f, call_to("CScript::DecodeOP_N"), P) for a in call_args(x.expr)[:1] if a[0] == "local"]
    cand = sorted({e.expr[2][1] for e in sites(f, lambda e: e[0] == "b" and e[1] == "=" and is_expr(e[2]) and e[2][0] == "local" and match(["local", op], e[3]), P)} | set(dec))
    if len(cand) != 1:
        raise AnalysisBroken("CScript::GetSigOpCount(bool): the previous-opcode local was not recognised")
    last = cand[0]
    prev_sites = sites(f, lambda e: e[0] == "b" and e[1] in ASSIGN_OPS and match(["local", last], e[2]), P)
    getop = "CScript::GetOp(%s, %s)" % (pc, op)
    atoms = {"MORE": ["%s < prevector::end()" % pc, "%s < CScript::end()" % pc, "%s < end()" % pc], "GETOP": getop,
             "CS": "%s == OP_CHECKSIG" % op, "CSV": "%s == OP_CHECKSIGVERIFY" % op, "CMS": "%s == OP_CHECKMULTISIG" % op, "CMSV": "%s == OP_CHECKMULTISIGVERIFY" % op,
             "ACC": acc_flag, "LT1": "%s < OP_1" % last, "GT16": "OP_16 < %s" % last}
    dpc, dn, dl = decl_of(f, pc), decl_of(f, n), decl_of(f, last)
    okinit = (dn is not None and match(["int", 0], dn.get("i")) and dpc is not None and is_expr(dpc.get("i")) and dpc["i"][0] == "mcall" and dpc["i"][1].endswith("::begin")
              and match(["this"], dpc["i"][2]) and dl is not None and show(dl.get("i")) == "OP_INVALIDOPCODE"
              and F.equivalent(F.bind_atoms(F.to_formula(lp.get("c"), subst), atoms)[0], F.parse("MORE")) and not writes_to_local(f, pc) and not writes_to_local(f, op))
    ctx.ob("CScript::GetSigOpCount/scan", "TWIN", "the count starts at 0 and the scan runs from begin() while pc < end(), the iterator and the opcode being advanced only by GetOp; "
           "the previous opcode starts as OP_INVALIDOPCODE", okinit, f.where, {"iterator": pc, "opcode": op, "previous": last})
    # leaving the loop early only when GetOp fails
    brk = stmt_sites(f, lambda st: st.get("k") in ("break", "ret", "throw", "continue"), P)
    brk = [b for b in brk if b.loops and b.loops[0] is lp]
    okb = all(F.equivalent(F.bind_atoms(nf(f, subst, in_loop_formula(b, lp, subst)), atoms)[0], F.parse("MORE && !GETOP")) and b.stmt.get("k") == "break" for b in brk) and len(brk) == 1
    ctx.ob("CScript::GetSigOpCount/whole-script", "TWIN", "the scan covers the whole script: the loop is left early only by `break` when GetOp fails (malformed push)", okb,
           "%s:%s" % (f.file, lp.get("l")), {"early_exits": [(b.line, b.stmt.get("k"), F.fshow(in_loop_formula(b, lp, subst))[:200]) for b in brk]})
    # the increments
    MULTI = "(CMS || CMSV) && !(CS || CSV)"
    want = [("post++|++|+= 1", "MORE && GETOP && (CS || CSV)", "OP_CHECKSIG / OP_CHECKSIGVERIFY count 1"),
            (r"+= CScript::DecodeOP_N(%s)" % last, "MORE && GETOP && %s && ACC && !LT1 && !GT16" % MULTI,
             "OP_CHECKMULTISIG(VERIFY) counts DecodeOP_N(previous opcode) only if fAccurate and OP_1 <= previous opcode <= OP_16"),
            ("+= 20", "MORE && GETOP && %s && !(ACC && !LT1 && !GT16)" % MULTI, "OP_CHECKMULTISIG(VERIFY) otherwise counts MAX_PUBKEYS_PER_MULTISIG (20)")]
    ws = sites(f, lambda e: (e[0] == "b" and e[1] in ASSIGN_OPS and match(["local", n], e[2])) or (e[0] == "u" and e[1] in ("++", "--", "post++", "post--", "&") and match(["local", n], e[2])), P)

    def shape(s):
        e = s.expr
        if e[0] == "u":
            return e[1]
        return "%s %s" % (e[1], F.key(F.expand(e[3], subst)))
    used = set()
    for kinds, spec, text in want:
        hit = [i for i, s_ in enumerate(ws) if i not in used and shape(s_) in kinds.split("|") and s_.loops and s_.loops[0] is lp]
        ok, detail = False, {"writes": [(s_.line, shape(s_)) for s_ in ws]}
        if len(hit) == 1:
            used.add(hit[0])
            s_ = ws[hit[0]]
            f_, m_, un = bound(nf(f, subst, in_loop_formula(s_, lp, subst)), atoms)
            c1, c2 = F.counterexample(f_, F.parse(spec)), F.counterexample(F.parse(spec), f_)
            ok = c1 is None and c2 is None and not un
            detail = None if ok else {"code": F.fshow(in_loop_formula(s_, lp, subst))[:700], "spec": spec, "unbound_code_atoms": un, "counterexample": c1 or c2}
        ctx.ob("CScript::GetSigOpCount/count:%s" % kinds.split("|")[0], "TWIN", "%s [exact condition: %s]" % (text, spec), ok, ws[hit[0]].where if len(hit) == 1 else f.where, detail)
    extra = [(s_.line, shape(s_)) for i, s_ in enumerate(ws) if i not in used]
    ctx.ob("CScript::GetSigOpCount/no-other-write", "TWIN", "the counter is modified by nothing but the three specified increments", not extra, f.where, {"other": extra} if extra else None)
    # previous opcode: updated at the end of every completed iteration, after the counting
    okp, pdetail = False, {"writes": [(x.line, show(x.expr)) for x in prev_sites]}
    if len(prev_sites) == 1:
        p = prev_sites[0]
        f_, m_, un = bound(nf(f, subst, in_loop_formula(p, lp, subst)), atoms)
        okp = F.equivalent(f_, F.parse("MORE && GETOP")) and not un and match(["local", op], p.expr[3]) and p.expr[1] == "=" and len(p.loops) == 1 and p.loops[0] is lp \
            and all((s_.line or 0) < (p.line or 0) for s_ in ws) and len(writes_to_local(f, last)) == 1
        pdetail["cond"] = F.fshow(in_loop_formula(p, lp, subst))[:500]
    ctx.ob("CScript::GetSigOpCount/previous-opcode", "TWIN", "the previous opcode is set to the current opcode exactly once per iteration that decoded one, after the counting step "
           "(so CHECKMULTISIG sees the opcode before it)", okp, prev_sites[0].where if prev_sites else f.where, None if okp else pdetail)
    ctx.ob("CScript::GetSigOpCount/result", "TWIN", "the counter is returned after the scan", F.implies(ex[0].formula, F.atom("done(loop@%s)" % lp.get("l"))), "%s:%s" % (f.file, ex[0].line))
    # DecodeOP_N
    g = ctx.used(P.fn("CScript::DecodeOP_N"))
    gx = exits(g, P)
    vals = sorted((F.key(e.value), F.fshow(drop_done(e.formula))) for e in gx if is_expr(e.value))
    okd = len(gx) == 2 and any(v == "0" and c == "opcode == OP_0" for v, c in vals) and any(re.fullmatch(r"(?:\(int\))?opcode - 80", v) for v, c in vals)
    o1 = dict((x[0], x[1]) for x in P.enum("opcodetype")["values"]).get("OP_1")
    ctx.ob("CScript::DecodeOP_N/formula", "TWIN", "DecodeOP_N(OP_0) == 0 and DecodeOP_N(op) == op - (OP_1 - 1) with OP_1 == 0x51", okd and o1 == 81, g.where, {"returns": vals, "OP_1": o1})
