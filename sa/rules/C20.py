"""C20 A UTXO snapshot is used only if it matches its commitment (DESIGN §3 C20)."""
import re

from sa.engine.api import *
from sa.rules._helpers_C import (assigned_locals, calls_local_lambda, is_empty_init, member_calls_on_local, naming_x, strip, unlock, unlocked_fn)

UNITS = ["validation.cpp"]
STATS_UNITS = ["kernel/coinstats.cpp"]
EXPLANATION = ("MPT/guard rules on the three snapshot routines of validation.cpp, decided as truth-table implications from the dominating path "
               "conditions. ActivateSnapshot: AddChainstate (the only effect that makes the snapshot chainstate visible) is reached only if no "
               "snapshot chainstate exists yet, the metadata's base hash is an assumeutxo hash, the base block is in the index and not "
               "BLOCK_FAILED_VALID, the best header descends from it, the mempool is empty, PopulateAndValidateSnapshot of the very same "
               "chainstate object succeeded and CBlockIndexWorkComparator(ActiveTip, snapshot tip) holds; every exit after the coins DB was created "
               "either added the chainstate or went through the cleanup lambda (which deletes the on-disk coins DB and never adds). "
               "PopulateAndValidateSnapshot: the success exit and SetTip imply base block known, assumeutxo data for its height, more work than the "
               "active tip, coin loop completed with coins_left == 0, the trailing-data probe failed to read a byte, stats computed, and "
               "AssumeutxoHash{stats.hashSerialized} == au_data.hash_serialized where stats come only from ComputeUTXOStats(HASH_SERIALIZED, the "
               "snapshot chainstate's coins DB) issued after the loading loop, and au_data only from the chain parameters for the base height; "
               "every coin insertion is dominated by the count/height/index/MoneyRange guards on the coin just deserialised from the file; "
               "deserialisation failures inside the loop always end in an error return. MaybeValidateSnapshot: m_assumeutxo = VALIDATED and the "
               "SUCCESS result are reached only if the background chainstate reached the snapshot base and the recomputed hash of *its* coins DB "
               "equals the committed one; the HASH_MISMATCH result has passed the invalidation lambda.")
ASSUMPTIONS = ["AssumeutxoHash::operator== / operator!= compare the wrapped uint256 values",
               "ComputeUTXOStats(HASH_SERIALIZED, view) hashes exactly the coins of `view` (hash function treated as an opaque atom)",
               "AutoFile::operator>> throws std::ios_base::failure on a short read"]
CLAIM = dict(
    technique="static analysis: must-pass-through guard implication (truth tables over canonical atoms) + argument provenance + must-flow ordering",
    text="For every path of ActivateSnapshot / PopulateAndValidateSnapshot / MaybeValidateSnapshot: the snapshot chainstate becomes visible, its tip is "
         "set, and background validation reports SUCCESS only past the complete list of checks the property names (known assumeutxo base on the best "
         "header chain, not failed, more work, every coin within bounds, no truncation, no trailing bytes, recomputed HASH_SERIALIZED equal to the "
         "committed value, computed over the right database after loading). Tests mutate a handful of snapshot fields; this quantifies over all paths.",
    note="Not decided: correctness of the hash function and of ComputeUTXOStats, AutoFile short-read behaviour, the metadata parser (utxo_snapshot.cpp), "
         "'existing chainstate untouched' beyond the ordering of effects (cache-size rebalancing after a failure is not claimed).",
    ref="DESIGN.md §3 C20")

ERR = lambda v: is_expr(v) and (contains(["init", "util::Error"], v) or contains(["ctor", "util::Error"], v))


def _one(d, what, fn):
    if len(d) != 1:
        raise AnalysisBroken("%s: expected exactly one local holding %s, found %s" % (fn.q, what, sorted(d)))
    return next(iter(d.items()))


def _esc(s):
    return re.escape(s)


def check(ctx):
    P = ctx.program(UNITS)
    activate(ctx, P)
    populate(ctx, P)
    background(ctx, P)
    utxo_stats(ctx, ctx.program(STATS_UNITS))


# --------------------------------------------------------------------------------------------------
def activate(ctx, P):
    f = unlocked_fn(P, ctx.used(P.fn("ChainstateManager::ActivateSnapshot")))
    subst = naming_x(f, P, also=("base_blockhash",))
    HASH = "metadata.m_base_blockhash"
    # the local holding the base block index
    nm, vals = _one(assigned_locals(f, call_to("node::BlockManager::LookupBlockIndex")), "LookupBlockIndex(...)", f)
    allv = [(l, v) for l, v in local_values(f, nm) if not is_empty_init(v)]
    src = [show(F.expand(call_args(v)[0], subst)) for _, v in vals]
    ok = len(allv) == len(vals) == 1 and src == [HASH]
    ctx.ob("ActivateSnapshot/base-provenance", "PROVENANCE",
           "the base block index used by ActivateSnapshot is only ever LookupBlockIndex(metadata.m_base_blockhash)", ok, f.where,
           None if ok else {"values": [(l, show(v)) for l, v in allv], "looked_up": src})
    # the local holding the new chainstate: argument of AddChainstate
    adds = sites(f, call_to("ChainstateManager::AddChainstate"), P)
    ctx.floor("ActivateSnapshot AddChainstate sites", len(adds), 1)
    a0 = strip(call_args(adds[0].expr)[0])
    if not (is_expr(a0) and a0[0] == "local"):
        raise AnalysisBroken("ActivateSnapshot: AddChainstate argument is not a local (idiom changed)")
    cs = a0[1]
    csdef = [strip(unlock(P, st["i"])) for st in stmts(f.body) if st.get("k") == "decl" and st.get("n") == cs and is_expr(st.get("i"))]
    ok = len(csdef) == 1 and callee(csdef[0]) == "std::make_unique" and len(call_args(csdef[0])) >= 4 and \
        show(F.expand(call_args(csdef[0])[3], subst)) == HASH and not [v for _, v in local_values(f, cs)][1:]
    ctx.ob("ActivateSnapshot/chainstate-hash", "PROVENANCE",
           "the chainstate handed to AddChainstate is the one created with from_snapshot_blockhash = metadata.m_base_blockhash (single definition)",
           ok, f.where, None if ok else {"definition": [show(x) for x in csdef]})
    atoms = {
        "ALREADY": "ChainstateManager::CurrentChainstate().m_from_snapshot_blockhash",
        "AU": "ChainstateManager::GetParams().AssumeutxoForBlockhash(%s)" % HASH,
        "BASE": nm,
        "FAILED": "BLOCK_FAILED_VALID & %s.nStatus" % nm,
        "BESTHDR": "m_best_header",
        "ANCESTOR": "m_best_header.GetAncestor(%s.nHeight) == %s" % (nm, nm),
        "MEMPOOL": "ChainstateManager::CurrentChainstate().GetMempool()",
        "EMPTY": "ChainstateManager::CurrentChainstate().GetMempool().empty()",
        "POPULATED": "ChainstateManager::PopulateAndValidateSnapshot(*%s, coins_file, metadata)" % cs,
        "MOREWORK": "node::CBlockIndexWorkComparator{}(ChainstateManager::ActiveTip(), %s.m_chain.Tip())" % cs,
    }
    spec = "!ALREADY && AU && BASE && !FAILED && BESTHDR && ANCESTOR && (!MEMPOOL || EMPTY) && POPULATED && MOREWORK"
    check_guard(ctx, f, P, call_to("ChainstateManager::AddChainstate"), spec, atoms, "ActivateSnapshot/AddChainstate",
                "the snapshot chainstate is added only past every activation check", subst=subst)
    # the success exit returns the base block and has added the chainstate; failures after DB creation clean up
    q = None
    for st in stmts(f.body):
        if st.get("k") == "decl" and is_expr(st.get("i")) and st["i"][0] == "lambda":
            lf = P.fns(st["i"][1])
            if len(lf) == 1 and any(is_call_to("DeleteCoinsDBFromDisk", x) for _, e in all_exprs(lf[0].body) for x in subexprs(e)):
                q = st["i"][1]
    if q is None:
        raise AnalysisBroken("ActivateSnapshot: cleanup lambda (calling DeleteCoinsDBFromDisk) not found")
    lam = P.fns(q)[0]
    lcalls = [x for _, e in all_exprs(lam.body) for x in subexprs(e)]
    dels = [x for x in lcalls if is_call_to("DeleteCoinsDBFromDisk", x)]
    ok = bool(dels) and all(len(call_args(x)) >= 2 and match(["bool", True], strip(call_args(x)[1])) for x in dels) and \
        not any(is_call_to("ChainstateManager::AddChainstate", x) for x in lcalls) and \
        any(x[0] == "mcall" and x[1].endswith("::reset") and match(["local", cs], x[2]) for x in lcalls)
    ctx.ob("ActivateSnapshot/cleanup-lambda", "EFFECT", "the cleanup lambda destroys the new chainstate object, deletes the snapshot coins DB from disk "
           "(is_snapshot=true) and never calls AddChainstate", ok, lam.where)
    mf = MustFlow(f, P, marks=[("created", call_to("Chainstate::InitCoinsDB")), ("added", call_to("ChainstateManager::AddChainstate")),
                               ("cleanup", lambda e: calls_local_lambda(e, q))])
    mf.run()
    n = 0
    for state, st in mf.exits:
        if "created" not in state:
            continue
        n += 1
        v = st.get("v")
        if "added" in state:
            ok = not ERR(v) and "cleanup" not in state
            ctx.ob("ActivateSnapshot/success@L%s" % st.get("l"), "ORDER", "an exit of ActivateSnapshot that has added the chainstate is the success "
                   "return (no error value, no cleanup)", ok, "%s:%s" % (f.file, st.get("l")))
        else:
            ok = "cleanup" in state and is_expr(v) and any(calls_local_lambda(x, q) for x in subexprs(v))
            ctx.ob("ActivateSnapshot/fail-cleanup@L%s" % st.get("l"), "ORDER", "every exit of ActivateSnapshot after the snapshot coins DB was created "
                   "that did not add the chainstate returns the result of the cleanup lambda (on-disk snapshot removed)", ok,
                   "%s:%s" % (f.file, st.get("l")), None if ok else {"must_have_happened": sorted(state)})
    ctx.floor("ActivateSnapshot exits after DB creation", n, 3)


# --------------------------------------------------------------------------------------------------
def populate(ctx, P):
    f = unlocked_fn(P, ctx.used(P.fn("ChainstateManager::PopulateAndValidateSnapshot")))
    subst = naming_x(f, P, also=("base_blockhash",))
    HASH = "metadata.m_base_blockhash"
    BASE = "m_blockman.LookupBlockIndex(%s)" % HASH
    stats_nm, svals = _one(assigned_locals(f, call_to("kernel::ComputeUTXOStats")), "ComputeUTXOStats(...)", f)
    # -- stats provenance
    allv = [(l, v) for l, v in local_values(f, stats_nm) if not is_empty_init(v)]
    ok = len(allv) == len(svals) and bool(svals)
    for _, v in svals:
        a = call_args(v)
        ok = ok and len(a) >= 2 and match(["enum", "kernel::CoinStatsHashType::HASH_SERIALIZED"], a[0]) and \
            show(F.expand(a[1], subst)) == "snapshot_chainstate.CoinsDB()"
    ctx.ob("Populate/stats-provenance", "PROVENANCE", "the statistics compared with the commitment come only from ComputeUTXOStats(HASH_SERIALIZED, "
           "snapshot_chainstate.CoinsDB(), ...)", ok, f.where, None if ok else {"values": [(l, show(v)[:200]) for l, v in allv]})
    ok = f.params and f.params[0]["n"] == "snapshot_chainstate"
    if not ok:
        raise AnalysisBroken("PopulateAndValidateSnapshot: first parameter is not snapshot_chainstate")
    # -- trailing-data flag
    flag = trailing_flag(ctx, P, f)
    # -- coin loop
    emp = sites(f, call_to("CCoinsViewCache::EmplaceCoinInternalDANGER"), P)
    ctx.floor("Populate coin insertions", len(emp), 1)
    loops = {s.loops[0].get("l") for s in emp if s.loops}
    if len(loops) != 1 or any(not s.loops for s in emp):
        raise AnalysisBroken("PopulateAndValidateSnapshot: coin insertions are not inside one loading loop")
    loop = emp[0].loops[0]
    LOOPDONE = "done(loop@%s)" % loop.get("l")
    left = None
    if loop.get("k") == "while" and match(["b", ">", ["local", ANY], ["int", 0]], loop.get("c")):
        left = loop["c"][2][1]
    if left is None:
        raise AnalysisBroken("PopulateAndValidateSnapshot: loading loop is not `while (<coins_left> > 0)`")
    lv = local_values(f, left)
    ok = len(lv) >= 2 and show(strip(lv[0][1])) == "metadata.m_coins_count" and all(is_expr(v) and v[0] == "compound" and v[1] in ("--", "post--", "-=") for _, v in lv[1:])
    ctx.ob("Populate/coins-left", "PROVENANCE", "the loop counter starts at metadata.m_coins_count and is only ever decremented",
           ok, f.where, None if ok else {"values": [(l, show(v)) for l, v in lv]})
    accept_atoms = {
        "BASE": BASE,
        "AUDATA": "ChainstateManager::GetParams().AssumeutxoForHeight(%s.nHeight)" % BASE,
        "LESSWORK": ("node::CBlockIndexWorkComparator{}(ChainstateManager::ActiveTip(), %s)" % BASE, False),
        "LOOPDONE": LOOPDONE,
        "NONELEFT": "%s < 1" % left,
        "EOF": flag,
        "STATS": stats_nm,
        "HASHEQ": "*ChainstateManager::GetParams().AssumeutxoForHeight(%s.nHeight).hash_serialized == AssumeutxoHash{%s.hashSerialized}" % (BASE, stats_nm),
    }
    SPEC = "BASE && AUDATA && !LESSWORK && LOOPDONE && NONELEFT && EOF && STATS && HASHEQ"
    acc = [e for e in exits(f, P, subst) if e.kind == "ret" and not ERR(e.value)]
    ctx.floor("Populate accepting exits", len(acc), 1)
    for e in acc:
        fm, mp, un = F.bind_atoms(e.formula, accept_atoms)
        cex = F.counterexample(fm, F.parse(SPEC))
        ctx.ob("Populate/accept@L%s" % e.line, "LADDER", "PopulateAndValidateSnapshot succeeds only if the base block is known, assumeutxo data exists for "
               "its height, it has more work than the active tip, all announced coins were loaded, no byte is left in the file, statistics were computed "
               "and their hashSerialized equals the committed hash_serialized [%s]" % SPEC, cex is None, "%s:%s" % (f.file, e.line),
               None if cex is None else {"counterexample": cex, "unbound": un[:12], "path_condition": F.fshow(e.formula)[:1200]})
    check_guard(ctx, f, P, call_to("CChain::SetTip"), SPEC, accept_atoms, "Populate/SetTip", "the snapshot chainstate's tip is set only after the "
                "content hash matched", subst=subst)
    for s in sites(f, call_to("CChain::SetTip"), P):
        a = call_args(s.expr)
        ok = len(a) == 1 and show(F.expand(a[0], subst)) == "*" + BASE
        ctx.ob("Populate/SetTip-arg@L%s" % s.line, "PROVENANCE", "the tip set is the block LookupBlockIndex(metadata.m_base_blockhash)", ok, s.where)
    # -- ComputeUTXOStats after the loop (no coin is inserted after / during hashing)
    for s in sites(f, call_to("kernel::ComputeUTXOStats"), P):
        fm = s.formula(subst)
        ok = F.implies(fm, F.atom(LOOPDONE)) and not s.loops
        ctx.ob("Populate/stats-after-load@L%s" % s.line, "ORDER", "ComputeUTXOStats runs only after the coin-loading loop (the only place inserting coins) "
               "has completed", ok, s.where)
    # -- per-coin guards
    locs = set()
    for s in emp:
        a = call_args(s.expr)
        if not (len(a) >= 2 and is_expr(a[0]) and a[0][0] == "local" and is_expr(strip(a[1])) and strip(a[1])[0] == "local"):
            raise AnalysisBroken("PopulateAndValidateSnapshot: EmplaceCoinInternalDANGER arguments are not locals")
        inner = s.loops[-1]
        if not (inner.get("k") == "for" and match(["b", "<", ["local", ANY], ["local", ANY]], inner.get("c"))):
            raise AnalysisBroken("PopulateAndValidateSnapshot: per-txid insertion loop is not `for (...; i < <count>; ...)`")
        locs.add((a[0][1], strip(a[1])[1], inner["c"][3][1]))
    if len(locs) != 1:
        raise AnalysisBroken("PopulateAndValidateSnapshot: coin insertions use different locals")
    op, coin, count = next(iter(locs))
    catoms = {
        "COUNT": "%s < %s" % (left, count),
        "HIGH": "%s.nHeight < %s.nHeight" % (BASE, coin),
        "NOK": "%s.n < 4294967295" % op,
        "MONEY": "MoneyRange(%s.out.nValue)" % coin,
    }
    EMPLACE = call_to("CCoinsViewCache::EmplaceCoinInternalDANGER")
    check_guard(ctx, f, P, EMPLACE, "!COUNT && !HIGH && NOK && MONEY", catoms, "Populate/coin-guards",
                "a coin is inserted only if the per-txid count (the bound of the insertion loop) does not exceed the coins left, its height is not "
                "above the base height, its output index is below 0xffffffff and its value is in MoneyRange", subst=subst)
    cv = local_values(f, count)
    ok = bool(cv) and all(is_expr(v) and (contains(["call", "ReadCompactSize", ["param", "coins_file"]], v) or match(["int", 0], strip(v))) for _, v in cv)
    ctx.ob("Populate/count-provenance", "PROVENANCE", "the per-txid count is read from the snapshot file (ReadCompactSize)", ok, f.where,
           None if ok else {"values": [(l, show(v)) for l, v in cv]})
    # provenance by must-flow: the inserted coin and outpoint were just read from the file
    rd = lambda n: (lambda e: e[0] == "b" and e[1] == ">>" and match(["param", "coins_file"], e[2]) and match(["local", n], e[3]))
    hs = [x for _, e in all_exprs(loop) for x in subexprs(e) if match(["b", "=", [".", ["local", op], "COutPoint::hash"], ["local", ANY]], x)]
    if len(hs) != 1:
        raise AnalysisBroken("PopulateAndValidateSnapshot: expected one assignment of the outpoint's hash in the loading loop")
    txid = hs[0][3][1]
    mf = MustFlow(f, P, marks=[("coin", rd(coin)), ("txid", rd(txid)),
                               ("n", lambda e: match(["b", "=", [".", ["local", op], "COutPoint::n"]], e) and contains(["call", "ReadCompactSize", ["param", "coins_file"]], e[3])),
                               ("hash", lambda e: e is hs[0])],
                  kills=[("coin", EMPLACE), ("n", EMPLACE), ("hash", EMPLACE)])
    mf.watch = EMPLACE
    mf.run()
    ok = bool(mf.events) and all({"coin", "n", "hash", "txid"} <= st for _, st, _ in mf.events)
    ctx.ob("Populate/coin-read", "ORDER", "before every insertion, in the same iteration, the coin was deserialised from the snapshot file and the "
           "outpoint's index (from the file) and hash (the txid read from the file) were assigned", ok, emp[0].where,
           None if ok else {"must": [sorted(st) for _, st, _ in mf.events]})
    # -- truncation: handlers of try blocks in the loading loop end in an error return
    trys = [st for st in stmts(loop) if st.get("k") == "try"]
    ctx.floor("try blocks in the loading loop", len(trys), 1)
    covered = True
    for t in trys:
        for h in t.get("h", []):
            rets = [x for x in stmts(h["b"]) if x.get("k") == "ret"]
            ok = always_exits(h["b"]) and not has_break(h["b"]) and bool(rets) and all(ERR(x.get("v")) for x in rets) and \
                not any(x.get("k") == "continue" for x in stmts(h["b"]))
            ctx.ob("Populate/truncated@L%s" % h.get("l"), "LADDER", "a deserialisation failure (%s) while loading coins ends in an error return" % h.get("ty"),
                   ok, "%s:%s" % (f.file, h.get("l")))
    # all reads of the loading loop are inside such a try (or not caught at all)  -- nothing to check: an uncaught failure propagates.


def trailing_flag(ctx, P, f):
    """The local that is set only in the catch handler of the trailing-byte probe."""
    cands = []
    for t in stmts(f.body):
        if t.get("k") != "try":
            continue
        reads = [x for _, e in all_exprs(t["b"]) for x in subexprs(e) if x[0] == "b" and x[1] == ">>" and match(["param", "coins_file"], x[2])]
        others = [st for st in stmts(t["b"]) if st.get("k") not in ("seq", "decl", "expr")]
        if len(reads) == 1 and not others and len(list(stmts(t["b"]))) <= 3:
            for h in t.get("h", []):
                for st in stmts(h["b"]):
                    if st.get("k") == "expr" and match(["b", "=", ["local", ANY], ["bool", True]], st.get("e")):
                        cands.append((st["e"][2][1], t, h))
    if len(cands) != 1:
        raise AnalysisBroken("PopulateAndValidateSnapshot: trailing-data probe (try { coins_file >> byte } catch { flag = true }) not found")
    flag, t, h = cands[0]
    vals = local_values(f, flag)
    inside = {st.get("l") for st in stmts(h["b"])}
    bad = [(l, show(v)) for l, v in vals if not (match(["bool", False], strip(v)) or (match(["bool", True], v) and l in inside))]
    ok = not bad and "ios_base::failure" in h.get("ty", "") and any(match(["bool", False], strip(v)) for _, v in vals)
    ctx.ob("Populate/trailing-flag", "PROVENANCE", "the end-of-file flag starts false and becomes true only in the std::ios_base::failure handler of the "
           "one-byte probe read from the snapshot file", ok, "%s:%s" % (f.file, t.get("l")), None if ok else {"other_values": bad, "handler": h.get("ty")})
    return flag


# --------------------------------------------------------------------------------------------------
def utxo_stats(ctx, P):
    """The commitment hash covers every coin of the database: kernel::ComputeUTXOStats accounts for every (key, coin) the cursor yields."""
    allf = P.fns("kernel::ComputeUTXOStats")
    disp = [f for f in allf if f.params and "CoinStatsHashType" in f.params[0]["ty"]]
    work = [f for f in allf if f.params and "CoinStatsHashType" not in f.params[0]["ty"]]
    if len(disp) != 1 or not work:
        raise AnalysisBroken("kernel::ComputeUTXOStats: dispatcher / worker overloads not found")
    d = ctx.used(disp[0])
    # ---- dispatcher: HASH_SERIALIZED -> worker over a HashWriter on the same view
    body = d
    lam = [x[1] for _, e in all_exprs(d.body) for x in subexprs(e) if x[0] == "lambda"]
    if len(lam) == 1 and len(P.fns(lam[0])) == 1:
        body = P.fns(lam[0])[0]
    calls = [s for s in sites(body, call_to("kernel::ComputeUTXOStats"), P)]
    hs = []
    for s in calls:
        cg = [g for g in s.guards if g.kind == "case"]
        if len(cg) == 1 and any(is_expr(v) and v[0] == "enum" and v[1].endswith("CoinStatsHashType::HASH_SERIALIZED") for v in cg[0].vals):
            hs.append((s, cg[0]))
    ok = len(hs) == 1 and len(hs[0][1].vals) == 1
    if ok:
        a = call_args(hs[0][0].expr)
        decl = [st for st in stmts(body.body) if st.get("k") == "decl" and is_expr(a[0]) and a[0][0] == "local" and st.get("n") == a[0][1]]
        ok = len(a) >= 2 and len(decl) == 1 and decl[0].get("ty") == "HashWriter" and a[1] == ["param", d.params[1]["n"]] and hs[0][0].stmt.get("k") == "ret"
        ok = bool(ok) and show(hs[0][1].expr) == d.params[0]["n"]
    ctx.ob("ComputeUTXOStats/dispatch", "PROVENANCE", "ComputeUTXOStats(HASH_SERIALIZED, view, ..) returns the result of the generic routine run with a fresh HashWriter over the "
           "same view", ok, d.where)
    w = [f for f in work if f.params[0]["ty"] == "HashWriter"]
    if len(w) != 1:
        raise AnalysisBroken("kernel::ComputeUTXOStats: HashWriter instantiation not found in the facts")
    f = ctx.used(w[0])
    subst = naming(f, P)
    hobj = f.params[0]["n"]
    ins = sites(f, lambda e: e[0] == "b" and e[1] == "=" and is_expr(e[2]) and e[2][0] == "idx" and is_expr(e[2][1]) and e[2][1][0] == "local", P)
    ins = [s for s in ins if s.loops]
    if len(ins) != 1:
        raise AnalysisBroken("kernel::ComputeUTXOStats: the `outputs[key.n] = coin` insertion was not found (idiom changed)")
    I = ins[0]
    L = I.loops[0]
    OUT = I.expr[2][1][1]
    keyl, coinl = None, None
    b = {}
    if match(["idx", ["local", OUT], [".", ["local", V("k")], "COutPoint::n"]], I.expr[2], b) and strip(I.expr[3])[0] == "local":
        keyl, coinl = b["k"], strip(I.expr[3])[1]
    if keyl is None:
        raise AnalysisBroken("kernel::ComputeUTXOStats: insertion is not outputs[<key>.n] = <coin>")
    cur = None
    if L.get("k") == "while" and is_expr(L.get("c")) and L["c"][0] in ("mcall", "vcall") and L["c"][1] == "CCoinsViewCursor::Valid":
        cur = show(L["c"][2])
    ok = cur is not None and not has_break(L.get("b"))
    ctx.ob("ComputeUTXOStats/loop", "LADDER", "the statistics loop runs while the cursor is Valid() and contains no break (a `continue` is judged below: only after the entry was recorded)", ok,
           "%s:%s" % (f.file, L.get("l")), {"loop": loop_key(L, subst)})
    if cur is None:
        return
    GOT = {"KEY": "%s.GetKey(%s)" % (cur, keyl), "VAL": "%s.GetValue(%s)" % (cur, coinl)}

    def inloop(site):
        gs = [g for g in site.guards if g.line is not None and g.line >= L.get("l") and g.kind != "loop"]
        return F.bind_atoms(F.mk_and([g.formula(subst) for g in gs]), GOT)

    g, _, un = inloop(I)
    ok = F.equivalent(g, F.parse("KEY && VAL"))
    ctx.ob("ComputeUTXOStats/every-coin", "MPT", "inside the loop every (key, coin) successfully read from the cursor is inserted into the current group: the insertion's condition "
           "is exactly GetKey(key) && GetValue(coin), with no further filter", ok, I.where, None if ok else {"condition": F.fshow(g), "unbound": un[:8]})
    # read failure -> nullopt
    rej = []
    for e in exits(f, P, subst):
        if L in e.loops:
            gs = [x for x in e.guards if x.line is not None and x.line >= L.get("l") and x.kind != "loop"]
            fm, _, _ = F.bind_atoms(F.mk_and([x.formula(subst) for x in gs]), GOT)
            isnull = is_expr(e.value) and contains(["global", "std::nullopt"], e.value)
            okx = isnull and F.implies(fm, F.parse("!(KEY && VAL)"))
            ctx.ob("ComputeUTXOStats/read-failure@L%s" % e.line, "LADDER", "the loop is left early only with std::nullopt and only when a cursor read failed", okx,
                   "%s:%s" % (f.file, e.line), None if okx else {"condition": F.fshow(fm), "value": show(e.value) if is_expr(e.value) else None})
            rej.append(fm)
    ok = F.implies(F.parse("!(KEY && VAL)"), F.mk_or(rej))
    ctx.ob("ComputeUTXOStats/read-failure", "LADDER", "a failed GetKey/GetValue makes ComputeUTXOStats return std::nullopt (no partial hash is reported)", ok, f.where)
    # advance
    nx = [s for s in sites(f, lambda e: e[0] in ("mcall", "vcall") and e[1] == "CCoinsViewCursor::Next", P) if L in s.loops]
    ok = len(nx) == 1 and F.equivalent(inloop(nx[0])[0], F.parse("KEY && VAL")) and show(nx[0].expr[2]) == cur and nx[0].line > I.line
    ctx.ob("ComputeUTXOStats/advance", "LADDER", "the cursor advances exactly once per successfully read entry, after the entry was recorded", ok, f.where)
    # a `continue` may only end an iteration whose entry was read, recorded and stepped over (anything earlier skips an entry)
    conts = [s_ for s_ in stmt_sites(f, lambda st: st.get("k") == "continue", P) if L in s_.loops and s_.loops[-1] is L]
    okc = all(len(nx) == 1 and s_.line > nx[0].line and s_.line > I.line and F.implies(inloop(s_)[0], F.parse("KEY && VAL")) for s_ in conts)
    ctx.ob("ComputeUTXOStats/no-skip", "LADDER", "no `continue` ends an iteration before its entry was recorded and the cursor advanced (no entry can be skipped)", okc, f.where,
           {"continues": [s_.line for s_ in conts]})
    # group handling
    ah = sites(f, call_to("kernel::ApplyHash"), P)
    inl = [s for s in ah if L in s.loops]
    post = [s for s in ah if not s.loops]
    ok = len(inl) == 1 and len(post) == 1
    prev = None
    if ok:
        a = call_args(inl[0].expr)
        prev = show(a[1])
        gi, _, _ = F.bind_atoms(inloop(inl[0])[0], {"EMPTY": "%s.empty()" % OUT, "SAME": ["%s.hash == %s" % (keyl, prev), "%s == %s.hash" % (prev, keyl)]})
        ok = [show(x) for x in a] == [hobj, prev, OUT] and [show(x) for x in call_args(post[0].expr)] == [hobj, prev, OUT] and \
            F.equivalent(gi, F.parse("KEY && VAL && !EMPTY && !SAME")) and inl[0].line < I.line
        clr = [s for s in sites(f, lambda e: e[0] == "mcall" and e[1].endswith("::clear") and show(e[2]) == OUT, P) if L in s.loops]
        ok = ok and len(clr) == 1 and F.equivalent(F.bind_atoms(inloop(clr[0])[0], {"EMPTY": "%s.empty()" % OUT, "SAME": ["%s.hash == %s" % (keyl, prev), "%s == %s.hash" % (prev, keyl)]})[0],
                                                   F.parse("KEY && VAL && !EMPTY && !SAME")) and inl[0].line < clr[0].line < I.line
        pk = [s for s in sites(f, lambda e: e[0] == "b" and e[1] == "=" and show(e[2]) == prev, P) if L in s.loops]
        ok = ok and len(pk) == 1 and show(strip(pk[0].expr[3])) == "%s.hash" % keyl and F.equivalent(inloop(pk[0])[0], F.parse("KEY && VAL")) and pk[0].line > inl[0].line
    ctx.ob("ComputeUTXOStats/groups", "LADDER", "a finished transaction group (txid changes, group not empty) is hashed with ApplyHash(hash_obj, previous txid, outputs) and cleared "
           "before the next coin is recorded, and the previous txid follows every read key", bool(ok), f.where)
    if post:
        fm, _, un = F.bind_atoms(post[0].formula(subst), {"EMPTY": "%s.empty()" % OUT, "DONE": "done(loop@%s)" % L.get("l")})
        own = F.mk_and([g_.formula(subst) for g_ in post[0].guards if g_.kind in ("if", "sc") and (g_.line or 0) > L.get("l")])
        own, _, _ = F.bind_atoms(own, {"EMPTY": "%s.empty()" % OUT})
        ok = F.implies(fm, F.parse("DONE")) and F.equivalent(own, F.parse("!EMPTY"))
        ctx.ob("ComputeUTXOStats/last-group", "LADDER", "after the loop the last, still pending group is hashed whenever it is not empty", ok, post[0].where,
               None if ok else {"condition": F.fshow(fm)})
    fin = sites(f, call_to("kernel::FinalizeHash"), P)
    okf = len(fin) == 1 and not fin[0].loops and [show(x) for x in call_args(fin[0].expr)][:1] == [hobj] and bool(post) and fin[0].line > post[0].line and \
        not [g_ for g_ in fin[0].guards if g_.kind in ("if", "sc", "case")]
    ctx.ob("ComputeUTXOStats/finalize", "ORDER", "the hash is finalised unconditionally after the loop and after the last group", okf, f.where)
    for e in exits(f, P, subst):
        if not e.loops and e.kind == "ret":
            okr = F.implies(e.formula, F.atom("done(loop@%s)" % L.get("l"))) and bool(fin) and e.line > fin[0].line and is_expr(e.value) and not contains(["global", "std::nullopt"], e.value)
            ctx.ob("ComputeUTXOStats/success@L%s" % e.line, "LADDER", "statistics are returned only after the cursor was exhausted and the hash finalised", okr, "%s:%s" % (f.file, e.line))
    # ApplyHash hashes every element of the group
    aps = [x for x in P.fns("kernel::ApplyHash") if x.params and x.params[0]["ty"].startswith("HashWriter")]
    if len(aps) != 1:
        raise AnalysisBroken("kernel::ApplyHash<HashWriter> not found in the facts")
    ap = ctx.used(aps[0])
    cs = sites(ap, call_to("kernel::ApplyCoinHash"), P)
    ok = len(cs) == 1 and len(cs[0].loops) == 1 and not has_break(cs[0].loops[0].get("b")) and not any(st.get("k") == "continue" for st in stmts(cs[0].loops[0].get("b")))
    if ok:
        lp = cs[0].loops[0]
        gs = [g_ for g_ in cs[0].guards if g_.kind in ("if", "sc", "post", "case") and (g_.line or 0) >= lp.get("l")]
        rng = loop_key(lp, naming(ap, P))
        ok = not [g_ for g_ in gs if g_.kind != "post"] and F.equivalent(F.mk_and([g_.formula(None) for g_ in gs]), F.T) and \
            (rng == "each(%s)" % ap.params[2]["n"] or (lp.get("k") == "for" and show(strip(lp["init"].get("i"))) == "%s.begin()" % ap.params[2]["n"]
                                                       and F.key(lp.get("c")) in ("%s != %s.end()" % (lp["init"]["n"], ap.params[2]["n"]), F.key(["b", "!=", ["local", lp["init"]["n"]], ["mcall", "std::map::end", ["param", ap.params[2]["n"]]]]))))
    ctx.ob("ApplyHash/every-output", "LADDER", "ApplyHash feeds every element of the group to ApplyCoinHash (complete loop over the map, no condition)", bool(ok), ap.where)


def loop_key(lp, subst):
    from sa.engine.ladder import loop_range_key
    try:
        return loop_range_key(lp, subst)
    except Exception:
        return lp.get("k")


# --------------------------------------------------------------------------------------------------
def background(ctx, P):
    f = ctx.used(P.fn("ChainstateManager::MaybeValidateSnapshot"))
    if [p["n"] for p in f.params[:2]] != ["validated_cs", "unvalidated_cs"]:
        raise AnalysisBroken("MaybeValidateSnapshot: parameters changed")
    stats_nm, svals = _one(assigned_locals(f, call_to("kernel::ComputeUTXOStats")), "ComputeUTXOStats(...)", f)
    dbs = [strip(call_args(v)[1]) for _, v in svals if len(call_args(v)) >= 2]
    also = tuple(x[1] for x in dbs if is_expr(x) and x[0] == "local")
    subst = naming_x(f, P, also=also)
    allv = [(l, v) for l, v in local_values(f, stats_nm) if not is_empty_init(v)]
    ok = len(allv) == len(svals) and bool(svals)
    for _, v in svals:
        a = call_args(v)
        ok = ok and len(a) >= 2 and match(["enum", "kernel::CoinStatsHashType::HASH_SERIALIZED"], a[0]) and \
            show(F.expand(a[1], subst)) == "validated_cs.CoinsDB()"
    for n in also:
        ok = ok and not (member_calls_on_local(f, n))
    ctx.ob("MaybeValidate/stats-provenance", "PROVENANCE", "the statistics compared with the commitment come only from ComputeUTXOStats(HASH_SERIALIZED, "
           "validated_cs.CoinsDB(), ...) - the fully validated chainstate, not the snapshot", ok, f.where,
           None if ok else {"values": [(l, show(F.expand(v, subst))[:200]) for l, v in allv]})
    AU = "m_options.chainparams.AssumeutxoForHeight(validated_cs.m_chain.Height())"
    atoms = {
        "UNVALIDATED": "unvalidated_cs.m_assumeutxo == Assumeutxo::UNVALIDATED",
        "FROMSNAP": "unvalidated_cs.m_from_snapshot_blockhash",
        "BGVALID": "validated_cs.m_assumeutxo == Assumeutxo::VALIDATED",
        "TARGET": "validated_cs.m_target_blockhash",
        "TARGETEQ": "*unvalidated_cs.m_from_snapshot_blockhash == *validated_cs.m_target_blockhash",
        "REACHED": "validated_cs.ReachedTarget()",
        "AUDATA": [AU, "ChainstateManager::GetParams().AssumeutxoForHeight(validated_cs.m_chain.Height())"],
        "STATS": stats_nm,
        "HASHEQ": ["*%s.hash_serialized == AssumeutxoHash{%s.hashSerialized}" % (AU, stats_nm),
                   "*ChainstateManager::GetParams().AssumeutxoForHeight(validated_cs.m_chain.Height()).hash_serialized == AssumeutxoHash{%s.hashSerialized}" % stats_nm],
    }
    SPEC = "UNVALIDATED && FROMSNAP && BGVALID && TARGET && TARGETEQ && REACHED && AUDATA && STATS && HASHEQ"
    n = len(check_guard(ctx, f, P, lambda e: match(["b", "=", [".", ANY, "Chainstate::m_assumeutxo"], ["enum", "Assumeutxo::VALIDATED"]], e), SPEC, atoms,
                        "MaybeValidate/mark-validated", "the snapshot chainstate is marked VALIDATED only if the background chainstate reached the snapshot "
                        "base and its recomputed UTXO hash equals the committed one", subst=subst))
    n += len(check_guard(ctx, f, P, None, SPEC, atoms, "MaybeValidate/SUCCESS", "SnapshotCompletionResult::SUCCESS is returned only if the background "
                         "chainstate reached the snapshot base and its recomputed UTXO hash equals the committed one", subst=subst,
                         stmt_pred=lambda st: st.get("k") == "ret" and match(["enum", "SnapshotCompletionResult::SUCCESS"], st.get("v"))))
    ctx.floor("MaybeValidateSnapshot success effects", n, 2)
    # who marks VALIDATED inside this function: the marked object is the snapshot chainstate
    marks = sites(f, lambda e: match(["b", "=", [".", ANY, "Chainstate::m_assumeutxo"], ["enum", "Assumeutxo::VALIDATED"]], e), P)
    ok = all(match(["param", "unvalidated_cs"], s.expr[2][1]) for s in marks)
    ctx.ob("MaybeValidate/marked-object", "PROVENANCE", "the chainstate marked VALIDATED is the snapshot (unvalidated) chainstate", ok, f.where)
    # HASH_MISMATCH has passed the invalidation lambda
    q = None
    for st in stmts(f.body):
        if st.get("k") == "decl" and is_expr(st.get("i")) and st["i"][0] == "lambda":
            lf = P.fns(st["i"][1])
            if len(lf) == 1 and any(match(["b", "=", [".", ANY, "Chainstate::m_assumeutxo"], ["enum", "Assumeutxo::INVALID"]], x)
                                    for _, e in all_exprs(lf[0].body) for x in subexprs(e)):
                q = st["i"][1]
    if q is None:
        raise AnalysisBroken("MaybeValidateSnapshot: invalidation lambda (m_assumeutxo = INVALID) not found")
    lam = P.fns(q)[0]
    inv = sites(lam, lambda e: match(["b", "=", [".", ["param", "unvalidated_cs"], "Chainstate::m_assumeutxo"], ["enum", "Assumeutxo::INVALID"]], e), P)
    ok = len(inv) >= 1 and all(not [g for g in s.guards if g.kind != "post"] for s in inv)
    ctx.ob("MaybeValidate/invalidate-lambda", "EFFECT", "the invalidation lambda unconditionally marks the snapshot chainstate Assumeutxo::INVALID", ok, lam.where)
    mf = MustFlow(f, P, marks=[("invalidated", lambda e: calls_local_lambda(e, q))])
    mf.run()
    mm = [(state, st) for state, st in mf.exits if st.get("k") == "ret" and match(["enum", "SnapshotCompletionResult::HASH_MISMATCH"], st.get("v"))]
    ctx.floor("MaybeValidateSnapshot HASH_MISMATCH exits", len(mm), 1)
    for state, st in mm:
        ctx.ob("MaybeValidate/mismatch-invalidates@L%s" % st.get("l"), "ORDER", "a HASH_MISMATCH result has invalidated the snapshot chainstate first",
               "invalidated" in state, "%s:%s" % (f.file, st.get("l")))
    # the mismatch exit exists for the negated comparison: every non-SUCCESS, non-SKIPPED exit after the comparison is HASH_MISMATCH
    for e in exits(f, P, subst):
        if e.kind == "ret" and match(["enum", "SnapshotCompletionResult::HASH_MISMATCH"], e.value):
            fm, mp, un = F.bind_atoms(e.formula, atoms)
            cex = F.counterexample(fm, F.parse("STATS && !HASHEQ"))
            ctx.ob("MaybeValidate/mismatch-cond@L%s" % e.line, "LADDER", "HASH_MISMATCH is reported only when statistics exist and the hashes differ",
                   cex is None, "%s:%s" % (f.file, e.line), None if cex is None else {"counterexample": cex})
