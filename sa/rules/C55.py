"""C55 Saving and reloading the mempool preserves it (DESIGN §3 C55)."""
import re

from sa.engine.api import *
from sa.engine import callgraph

UNITS = ["node/mempool_persist.cpp"]
EXPLANATION = ("SYMMETRY rule between node::DumpMempool (file << x) and node::LoadMempool (file >> x): the ordered lists of (loop nesting, wire type, "
               "serialisation wrapper) of the stream operations are equal (version, [obfuscation key], count, (tx, time, fee delta)*, mapDeltas, "
               "unbroadcast set); the per-transaction fields have the same ROLE order on both sides (writer role = TxMempoolInfo field written; reader "
               "role = what the value read is used for: AcceptToMemoryPool transaction / accept time, PrioritiseTransaction delta); the obfuscation "
               "key is written/read exactly for dump version 2 and installed only after it was transferred; the written count is the size of the "
               "vector iterated, the reader loops exactly `count` times. LoadMempool: transactions enter only via AcceptToMemoryPool(.., nTime, "
               "bypass_limits=false, test_accept=false) under the expiry rung nTime > now - expiry; every stream read is inside the try whose "
               "std::exception handler returns false, unknown versions return false, `true` is returned only after all sections were read; deltas go "
               "through PrioritiseTransaction, unbroadcast marks only through AddUnbroadcastTx guarded by pool.get(txid); CALLGRAPH: apart from "
               "AcceptToMemoryPool no callee of LoadMempool reaches a mempool removal or insertion primitive.")
ASSUMPTIONS = ["AutoFile::operator<< / operator>> of equal types are inverse (C48 / serialize.h)", "AcceptToMemoryPool is 'normal submission'",
               "virtual calls are expanded to all overriders in the call graph"]
CLAIM = dict(
    technique="static analysis: writer/reader SYMMETRY of stream-operation sequences with role tracking, guard implication, must-precede dataflow, "
              "exception-handler shape, whole-program call-graph reachability",
    text="Decides that DumpMempool and LoadMempool agree on the file layout field by field (types, order, roles, conditional obfuscation key, counts), "
         "that loading can add transactions only through normal submission with limits on and only if unexpired, that any deserialisation failure or "
         "unknown version yields a false return, that true is returned only after the whole file was read, and that outside normal submission nothing "
         "reachable from LoadMempool removes or directly inserts mempool entries.",
    note="Not decided: equality of restored content as a behavioural fact; removals performed inside AcceptToMemoryPool itself (replacement/eviction are part of "
         "normal submission); byte-level encoding of each field (C48).",
    ref="DESIGN.md §3 C55")

LOAD, DUMP = "node::LoadMempool", "node::DumpMempool"
ATMP = "AcceptToMemoryPool"
PRIO = "CTxMemPool::PrioritiseTransaction"
MUTATORS = ["CTxMemPool::removeUnchecked", "CTxMemPool::RemoveStaged", "CTxMemPool::removeRecursive", "CTxMemPool::removeForBlock", "CTxMemPool::removeForReorg",
            "CTxMemPool::removeConflicts", "CTxMemPool::TrimToSize", "CTxMemPool::Expire", "CTxMemPool::addNewTransaction", "CTxMemPool::Apply",
            "CTxMemPool::ChangeSet::Apply", "CTxMemPool::UpdateTransactionsFromBlock"]
TYPEDEFS = {"CAmount": "int64_t", "long": "int64_t", "unsigned long": "uint64_t"}


def _norm_ty(t):
    t = re.sub(r"\bconst\b", "", t or "").replace("&", "").strip()
    t = re.sub(r"\s+", " ", t)
    for a, b in TYPEDEFS.items():
        t = re.sub(r"\b%s\b" % re.escape(a), b, t)
    return t.replace(" >", ">").replace(", ", ",")


def _decl_ty(fn, name):
    ds = [st for st in stmts(fn.body) if st.get("k") == "decl" and st.get("n") == name]
    if len(ds) != 1:
        raise AnalysisBroken("%s: local %s is not declared exactly once" % (fn.q, name))
    return ds[0]


def wire_item(P, fn, operand):
    """(wrapper, type) of a stream operand."""
    e = operand
    wrapper = None
    if is_expr(e) and e[0] == "opcall" and e[2] == "TransactionSerParams::operator()":
        wrapper = show(e[3])
        return (wrapper, "CTransaction")
    while is_expr(e) and e[0] in ("cast", "init") and len(e) == 3 and is_expr(e[2]):
        e = e[2]
    if match(["local", ANY], e):
        return (None, _norm_ty(_decl_ty(fn, e[1]).get("ty")))
    if e[0] == "." and isinstance(e[2], str) and "::" in e[2]:
        rec, fld = e[2].rsplit("::", 1)
        return (None, _norm_ty(P.field(rec, fld)["ty"]))
    if callee(e):
        fs = P.fns(callee(e))
        rets = {_norm_ty(f.d.get("ret")) for f in fs}
        if len(rets) == 1:
            return (None, rets.pop())
    raise AnalysisBroken("%s: cannot determine the wire type of stream operand %s" % (fn.q, show(operand)))


def stream_ops(P, fn, op):
    fl = [st["n"] for st in stmts(fn.body) if st.get("k") == "decl" and _norm_ty(st.get("ty")) == "AutoFile"]
    if len(fl) != 1:
        raise AnalysisBroken("%s: expected exactly one AutoFile local" % fn.q)
    ss = [s for s in sites(fn, lambda e: e[0] == "b" and e[1] == op and match(["local", fl[0]], e[2]), P)]
    chained = [s for s in sites(fn, lambda e: e[0] == "b" and e[1] == op and is_expr(e[2]) and e[2][0] == "b" and e[2][1] == op, P)]
    if chained:
        raise AnalysisBroken("%s: chained stream operations (unknown idiom)" % fn.q)
    return fl[0], ss


def loop_range(fn, P, lp):
    """The container a loop visits completely: range-for range, or R for `for (i = 0; i < R.size(); ++i)` (engine: naming()["@idx"])."""
    if lp is None:
        return None
    if lp.get("k") == "foreach":
        return lp.get("range")
    if lp.get("k") == "for" and isinstance(lp.get("init"), dict):
        return (naming(fn, P).get("@idx") or {}).get(lp["init"].get("n"))
    return None


def loop_complete(lp):
    return not has_break(lp.get("b")) and not [st for st in stmts(lp.get("b")) if st.get("k") in ("continue", "ret")]


def check(ctx):
    P = ctx.program(UNITS)
    load, dump = ctx.used(P.fn(LOAD)), ctx.used(P.fn(DUMP))
    symmetry(ctx, P, load, dump)
    load_rules(ctx, P, load)
    delta_before_accept(ctx, P, load)
    dump_sources(ctx, P, dump)
    reach(ctx, P, load)


# ------------------------------------------------------------------------------------------------
def symmetry(ctx, P, load, dump):
    lfile, lops = stream_ops(P, load, ">>")
    dfile, dops = stream_ops(P, dump, "<<")
    ctx.floor("LoadMempool stream reads", len(lops), 8)
    ctx.floor("DumpMempool stream writes", len(dops), 8)
    lseq = [(len(s.loops),) + wire_item(P, load, s.expr[3]) for s in lops]
    dseq = [(len(s.loops),) + wire_item(P, dump, s.expr[3]) for s in dops]
    ok = lseq == dseq
    first = next((i for i, (a, b) in enumerate(zip(lseq, dseq)) if a != b), min(len(lseq), len(dseq)))
    ctx.ob("symmetry/layout", "SYMMETRY", "DumpMempool writes and LoadMempool reads the same sequence of (loop depth, wrapper, wire type): version, [key], count, "
           "(tx, time, fee delta)*, deltas map, unbroadcast set", ok, (lops[first].where if first < len(lops) else load.where),
           None if ok else {"dump": dseq, "load": lseq, "first_difference_index": first})

    # roles of the per-transaction fields
    droles = []
    for s in dops:
        if s.loops:
            flds = [x[2].rsplit("::", 1)[-1] for x in subexprs(s.expr[3]) if x[0] == "." and isinstance(x[2], str) and x[2].startswith("TxMempoolInfo::")]
            droles.append({"tx": "tx", "m_time": "time", "nFeeDelta": "feedelta"}.get(flds[0] if len(flds) == 1 else None, "?" + ",".join(flds)))
    subst = naming(load, P)
    atmp = sites(load, call_to(ATMP), P)
    rloops = [s.loops[-1] for s in lops if s.loops]
    prio = [s for s in sites(load, call_to(PRIO), P) if s.loops and rloops and s.loops[-1] is rloops[0]]
    role_of = {}
    for s in atmp:
        a = call_args(s.expr)
        if len(a) >= 3:
            for x, r in ((a[1], "tx"), (a[2], "time")):
                if match(["local", ANY], x):
                    role_of.setdefault(x[1], set()).add(r)
    for s in prio:
        a = call_args(s.expr)
        if len(a) >= 2:
            x = F.expand(a[1], subst)
            if match(["local", ANY], x):
                role_of.setdefault(x[1], set()).add("feedelta")
    lroles = []
    for s in lops:
        if s.loops:
            tgt = [x for x in subexprs(s.expr[3]) if x[0] == "local"]
            r = role_of.get(tgt[0][1], set()) if len(tgt) == 1 else set()
            lroles.append(sorted(r)[0] if len(r) == 1 else "?" + ",".join(sorted(r)))
    ok = droles == lroles and droles == ["tx", "time", "feedelta"]
    ctx.ob("symmetry/roles", "SYMMETRY", "per transaction the writer emits (transaction, entry time m_time, fee delta nFeeDelta) and the reader uses the three values, in the "
           "same order, as (transaction submitted, accept time passed to AcceptToMemoryPool, delta passed to PrioritiseTransaction)", ok,
           dops[3].where if len(dops) > 3 else dump.where, {"dump_roles": droles, "load_roles": lroles})

    # obfuscation key: transferred exactly for version 2, installed after the transfer
    v1, v2 = P.const("node::MEMPOOL_DUMP_VERSION_NO_XOR_KEY"), P.const("node::MEMPOOL_DUMP_VERSION")
    ctx.ob("const/versions", "CONST", "MEMPOOL_DUMP_VERSION == 2 and MEMPOOL_DUMP_VERSION_NO_XOR_KEY == 1", (v1, v2) == (1, 2), None, {"values": [v1, v2]})
    dsub = naming(dump, P)
    # writer: version value is (V1OPT ? 1 : 2); key written iff !V1OPT
    dver = dops[0].expr[3]
    dv = F.expand(dver, dsub)
    okv = match(["?:", ANY, ["int", 1], ["int", 2]], dv) or match(["?:", ANY, ["int", 2], ["int", 1]], dv)
    keyops_d = [s for s in dops if wire_item(P, dump, s.expr[3])[1] == "Obfuscation"]
    keyops_l = [s for s in lops if wire_item(P, load, s.expr[3])[1] == "Obfuscation"]
    ok = False
    detail = {"version_value": show(dv)}
    if okv and len(keyops_d) == 1 and len(keyops_l) == 1:
        v1cond = F.to_formula(dv[1], dsub)
        is2 = F.mk_not(v1cond) if dv[2][1] == 1 else v1cond
        g = keyops_d[0].formula(dsub)
        # compare only over the atoms of the version selector
        sel_atoms = F.atoms(v1cond)
        gsl = F.mk_and([F.to_formula(x.expr, dsub) if x.pol else F.mk_not(F.to_formula(x.expr, dsub)) for x in keyops_d[0].guards if x.kind == "if"])
        okd = F.equivalent(gsl, is2)
        lg, _, un = F.bind_atoms(F.mk_and([x.formula(subst) for x in keyops_l[0].guards if x.kind == "if"]), {"V1": "version == 1", "V2": "version == 2"})
        okl = F.counterexample(F.mk_and([lg, F.parse("!(V1 && V2)")]), F.parse("V2")) is None and F.counterexample(F.parse("V2 && !V1"), lg) is None
        ok = okd and okl
        detail.update({"dump_key_guard": F.fshow(gsl), "load_key_guard": F.fshow(lg)})
    ctx.ob("symmetry/key-iff-v2", "SYMMETRY", "the obfuscation key is written exactly when the version written is 2 and read exactly when the version read is 2", ok,
           keyops_d[0].where if keyops_d else dump.where, detail)
    for fn, fl, ops, tag in ((dump, dfile, keyops_d, "DumpMempool"), (load, lfile, keyops_l, "LoadMempool")):
        if len(ops) != 1 or not match(["local", ANY], ops[0].expr[3]):
            continue
        kv = ops[0].expr[3][1]
        is_xfer = lambda e, o=ops[0].expr: e is o
        is_set = lambda e, fl=fl: e[0] == "mcall" and e[1] == "AutoFile::SetObfuscation" and match(["local", fl], e[2])
        mf = MustFlow(fn, P, marks=[("xfer", is_xfer)])
        mf.watch = lambda e, kv=kv, is_set=is_set: is_set(e) and match(["local", kv], call_args(e)[0])
        mf.run()
        ok = bool(mf.events) and all("xfer" in st for _, st, _ in mf.events)
        ctx.ob("symmetry/key-installed-after-transfer/%s" % tag, "ORDER", "%s installs the obfuscation key with SetObfuscation only after the key itself went through the "
               "stream un-obfuscated, and uses that same key" % tag, ok, ops[0].where)
        # every later stream op happens with some SetObfuscation done
        mf2 = MustFlow(fn, P, marks=[("set", is_set)])
        later = [s.expr for s in (dops if fn is dump else lops)][len([1 for s in (dops if fn is dump else lops) if s.line <= ops[0].line]):]
        mf2.watch = lambda e, later=later: any(e is x for x in later)
        mf2.run()
        ok = bool(mf2.events) and all("set" in st for _, st, _ in mf2.events)
        ctx.ob("symmetry/obfuscation-decided-before-payload/%s" % tag, "ORDER", "in %s SetObfuscation has run on every path before the count and the payload are transferred" % tag, ok, fn.where)

    # counts
    cnt_d = dops[len([s for s in dops if not s.loops and s.line < min(x.line for x in dops if x.loops)]) - 1]
    loop_d = [s for s in dops if s.loops][0].loops[-1]
    cv = F.expand(cnt_d.expr[3], dsub)
    cv = F.expand(cv, {st["n"]: st["i"] for st in stmts(dump.body) if st.get("k") == "decl" and st.get("n") == (cnt_d.expr[3][1] if cnt_d.expr[3][0] == "local" else None)
                       and is_expr(st.get("i")) and len(local_values(dump, st["n"])) == 1})
    rng_d = loop_range(dump, P, loop_d)
    ok = is_expr(rng_d) and match(["mcall", "std::vector::size", rng_d], cv) and loop_complete(loop_d)
    ctx.ob("symmetry/count-written", "SYMMETRY", "the transaction count written is the size of the vector the writer then iterates completely (one record per element)", ok,
           cnt_d.where, {"count": show(cv), "loop": show(rng_d) if is_expr(rng_d) else loop_d.get("k")})
    cnt_l = [s for s in lops if not s.loops and s.line < min(x.line for x in lops if x.loops)][-1]
    loop_l = [s for s in lops if s.loops][0].loops[-1]
    ok = False
    if loop_l.get("k") in ("while", "for") and match(["b", "<", ["local", ANY], cnt_l.expr[3]], loop_l.get("c")):
        iv = loop_l["c"][2][1]
        vals = local_values(load, iv)
        incs = sites(load, lambda e: match(["u", lambda o: o in ("++", "post++"), ["local", iv]], e) or match(["b", "+=", ["local", iv], ["int", 1]], e), P)
        in_header = loop_l.get("k") == "for" and len(incs) == 1 and incs[0].expr is loop_l.get("inc")
        # one unconditional increment per iteration: in the for-header, or in the body with no condition and no continue/break that could skip it
        ok = len(vals) == 2 and any(match(["int", 0], v) for _, v in vals) and len(incs) == 1 and incs[0].loops and incs[0].loops[-1] is loop_l and \
            not [g for g in incs[0].guards if g.kind in ("if", "sc") and g.line >= loop_l.get("l")] and not has_break(loop_l.get("b")) and \
            (in_header or not [st for st in stmts(loop_l.get("b")) if st.get("k") == "continue"])
        ok = ok and len(local_values(load, cnt_l.expr[3][1])) == 0
    ctx.ob("symmetry/count-read", "SYMMETRY", "the reader loops `while (tried < count)` with tried starting at 0 and incremented exactly once per iteration, unconditionally, and "
           "count is only ever the value read from the file", ok, cnt_l.where)


# ------------------------------------------------------------------------------------------------
def load_rules(ctx, P, load):
    subst = naming(load, P)
    atmp = sites(load, call_to(ATMP), P)
    ctx.floor("LoadMempool -> AcceptToMemoryPool", len(atmp), 1)
    for s in atmp:
        a = call_args(s.expr)
        ok = len(a) == 5 and match(["bool", False], a[3]) and match(["bool", False], a[4]) and match(["param", "active_chainstate"], a[0])
        ctx.ob("LoadMempool/normal-submission@L%s" % s.line, "PROVENANCE", "loaded transactions are submitted with AcceptToMemoryPool(active_chainstate, tx, nTime, "
               "bypass_limits=false, test_accept=false)", bool(ok), s.where, {"args": [show(x) for x in a]})
    atoms = {"FRESH": [re.compile(r"TicksSinceEpoch\(NodeClock::now\(\) - pool\.m_opts\.expiry\) < \w+"), re.compile(r"TicksSinceEpoch\(now - pool\.m_opts\.expiry\) < \w+")]}
    ss = check_guard(ctx, load, P, call_to(ATMP), "FRESH", atoms, "LoadMempool/expiry", "a loaded transaction is submitted only if its time is later than now - expiry")
    for s in ss:
        # the compared variable is the time handed to ATMP
        a = call_args(s.expr)
        ats = [k for k in F.atoms(s.formula(subst)) if "m_opts.expiry" in k]
        ok = len(ats) == 1 and match(["local", ANY], a[2]) and ats[0].endswith("< " + a[2][1])
        ctx.ob("LoadMempool/expiry-same-time@L%s" % s.line, "PROVENANCE", "the time tested against the expiry is the entry time passed to AcceptToMemoryPool", ok, s.where)

    # exception handling: every stream read lies in a try whose std::exception handler returns false
    trys = [st for st in stmts(load.body) if st.get("k") == "try"]
    _, lops = stream_ops(P, load, ">>")
    for s in lops:
        enc = [t for t in trys if any(x is s.stmt for x in stmts(t["b"]))]
        ok = False
        for t in enc:
            for h in t.get("h", []):
                if re.sub(r"\bconst\b|&|\s", "", h.get("ty", "")) in ("std::exception", "...") :
                    rets = [x for x in stmts(h["b"]) if x.get("k") == "ret"]
                    if always_exits(h["b"]) and rets and all(match(["bool", False], r.get("v")) for r in rets) and not [x for x in stmts(h["b"]) if x.get("k") == "throw"]:
                        ok = True
        ctx.ob("LoadMempool/read-in-try@L%s" % s.line, "HANDLER", "this stream read is inside a try block whose catch (std::exception) handler returns false (a truncated or "
               "malformed file is reported as a failed load)", ok, s.where)
    # return true only after all sections were read; unknown version returns false
    marks = [("read%d" % i, (lambda e, x=s.expr: e is x)) for i, s in enumerate(lops) if not s.loops and "Obfuscation" != wire_item(P, load, s.expr[3])[1]]
    loopmarks = [s for s in lops if s.loops]
    mf = MustFlow(load, P, marks=marks)
    mf.run()
    n = 0
    for state, st in mf.exits:
        if st.get("k") == "ret" and match(["bool", True], st.get("v")):
            n += 1
            miss = [m for m, _ in marks if m not in state]
            ctx.ob("LoadMempool/true-after-all-sections@L%s" % st.get("l"), "ORDER", "LoadMempool returns true only after version, count, the deltas map and the unbroadcast set "
                   "were all read from the file", not miss, "%s:%s" % (load.file, st.get("l")), {"missing": miss} if miss else None)
    ctx.floor("LoadMempool true returns", n, 1)
    for e in exits(load, P, subst):
        if is_true_ret(e) or (e.kind == "ret" and not is_false_ret(e)):
            g, _, _ = F.bind_atoms(e.formula, {"V1": "version == 1", "V2": "version == 2"})
            ok = F.implies(g, F.parse("V1 || V2"))
            ctx.ob("LoadMempool/known-version@L%s" % e.line, "LADDER", "LoadMempool can return true only for dump version 1 or 2 (unknown versions return false)", ok,
                   "%s:%s" % (load.file, e.line))
    # interrupt/other early exits never return true: covered by the ORDER obligation above.

    # deltas and unbroadcast
    ps = [s for s in sites(load, call_to(PRIO), P) if s.loops and s.loops[-1].get("k") == "foreach"]
    ok = False
    for s in ps:
        lp = s.loops[-1]
        a = call_args(s.expr)
        v = lp["var"].get("n")
        rng = lp.get("range")
        if match(["local", ANY], rng) and _norm_ty(_decl_ty(load, rng[1]).get("ty")).startswith("std::map<Txid") and len(a) == 2 and \
                match([".", ["local", v], "std::pair::first"], a[0]) and match([".", ["local", v], "std::pair::second"], a[1]):
            g, _, _ = F.bind_atoms(F.mk_and([x.formula(subst) for x in s.guards if x.kind in ("if", "sc")]), {"OPT": "opts.apply_fee_delta_priority"})
            ok = F.implies(F.parse("OPT"), g)
    ctx.ob("LoadMempool/deltas", "EFFECT", "every (txid, delta) pair of the saved deltas map is applied with PrioritiseTransaction(first, second) when apply_fee_delta_priority "
           "is set (no other condition)", ok, load.where)
    us = check_guard(ctx, load, P, call_to("CTxMemPool::AddUnbroadcastTx"), "INPOOL", {"INPOOL": re.compile(r"pool\.get\(each\(\w+\)\)")}, "LoadMempool/unbroadcast",
                     "a saved unbroadcast mark is restored only for a transaction that is in the mempool (pool.get(txid) != nullptr)")
    for s in us:
        lp = s.loops[-1] if s.loops else None
        a = call_args(s.expr)
        ok = lp is not None and lp.get("k") == "foreach" and match(["local", lp["var"].get("n")], a[0]) and match(["local", ANY], lp.get("range")) and \
            _norm_ty(_decl_ty(load, lp["range"][1]).get("ty")).startswith("std::set<Txid")
        ctx.ob("LoadMempool/unbroadcast-arg@L%s" % s.line, "PROVENANCE", "AddUnbroadcastTx is given the txid whose presence was checked, taken from the set read from the file", bool(ok), s.where)


# ------------------------------------------------------------------------------------------------
def dump_sources(ctx, P, dump):
    dfile, dops = stream_ops(P, dump, "<<")
    want = {"std::map<Txid,int64_t>": "CTxMemPool::mapDeltas", "std::set<Txid>": "CTxMemPool::GetUnbroadcastTxs"}
    for s in dops:
        ty = wire_item(P, dump, s.expr[3])[1]
        if ty in want and match(["local", ANY], s.expr[3]):
            nm = s.expr[3][1]
            src = []
            for st, e in all_exprs(dump.body):
                for x in subexprs(e):
                    if x[0] == "b" and x[1] == "=" and (match(["local", nm], x[2]) or match(["idx", ["local", nm]], x[2])):
                        src.append((st, x))
            ok = bool(src)
            for st, x in src:
                if want[ty].endswith("mapDeltas"):
                    lp = [l for l in stmts(dump.body) if l.get("k") == "foreach" and any(y is st for y in stmts(l.get("b")))]
                    v = lp[0]["var"].get("n") if lp else None
                    ok = ok and bool(lp) and match([".", ["param", "pool"], "CTxMemPool::mapDeltas"], lp[0].get("range")) and \
                        match(["b", "=", ["idx", ["local", nm], [".", ["local", v], "std::pair::first"]], [".", ["local", v], "std::pair::second"]], x)
                else:
                    ok = ok and match(["mcall", want[ty], ["param", "pool"]], x[3])
                ok = ok and _in_lock(dump, st, "CTxMemPool::cs")
            ctx.ob("DumpMempool/source/%s" % nm, "PROVENANCE", "the %s written to the file is a copy of the pool's %s taken under pool.cs" % (nm, want[ty].rsplit("::", 1)[-1]), bool(ok), s.where)
    lp = [s for s in dops if s.loops]
    if lp:
        rng = loop_range(dump, P, lp[0].loops[-1])
        vals = local_values(dump, rng[1]) if match(["local", ANY], rng) else []
        ok = bool(vals) and all(match(["ctor", "std::vector"], v) and len(v) == 2 or match(["mcall", "CTxMemPool::infoAll", ["param", "pool"]], v) for _, v in vals) and \
            any(match(["mcall", "CTxMemPool::infoAll"], v) for _, v in vals)
        ctx.ob("DumpMempool/source/transactions", "PROVENANCE", "the transactions written are pool.infoAll() (every mempool entry with its time and fee delta)", ok, lp[0].where)


def _in_lock(fn, target, field):
    for st in stmts(fn.body):
        if st.get("k") != "seq":
            continue
        items = st.get("s", [])
        for i, d in enumerate(items):
            if d.get("k") == "decl" and d.get("m") in ("LOCK", "LOCK2", "WAIT_LOCK") and is_expr(d.get("i")) and contains([".", ANY, field], d["i"]):
                if any(x is target for later in items[i + 1:] for x in stmts(later)):
                    return True
    return False


# ------------------------------------------------------------------------------------------------
def reach(ctx, P, load):
    cg = callgraph.load_all()
    for t in MUTATORS[:4] + [ATMP, LOAD]:
        if not cg.defined(t):
            raise AnalysisBroken("call graph: %s not found" % t)
    direct = set(cg.callees(LOAD))
    ok = ATMP in direct
    ctx.ob("LoadMempool/calls-ATMP", "CALLGRAPH", "LoadMempool calls AcceptToMemoryPool", ok, load.where)
    starts = {c for c in direct if c != ATMP}
    hit_direct = sorted(t for t in MUTATORS if t in direct)
    ctx.ob("LoadMempool/no-direct-mutator", "WHO-MAY-CALL", "LoadMempool itself calls no mempool insertion/removal primitive", not hit_direct, load.where,
           {"direct": hit_direct} if hit_direct else None)
    seen = cg.reach(starts)
    for t in MUTATORS:
        ok = t not in seen
        ctx.ob("LoadMempool/no-path/%s" % t.split("::", 1)[-1], "CALLGRAPH", "apart from AcceptToMemoryPool no callee of LoadMempool reaches %s (a malformed file cannot remove or "
               "directly insert mempool entries)" % t, ok, load.where, None if ok else {"path": cg.path(seen, t)})
    ctx.extra["reach_size"] = len(seen)


# ------------------------------------------------------------------------------------------------
def delta_before_accept(ctx, P, load):
    """A saved transaction's fee delta is restored BEFORE the transaction is offered to the mempool (a transaction that is only
    acceptable thanks to its prioritisation must come back), and whether it is restored does not depend on the acceptance."""
    pr = sites(load, lambda e: e[0] in ("mcall", "vcall") and e[1] == "CTxMemPool::PrioritiseTransaction", P)
    at = sites(load, call_to("AcceptToMemoryPool"), P)
    ctx.floor("LoadMempool AcceptToMemoryPool calls", len(at), 1)
    inloop = [s for s in pr if s.loops and at and s.loops[0] is at[0].loops[0]] if at and at[0].loops else []
    ctx.floor("LoadMempool per-transaction PrioritiseTransaction calls", len(inloop), 1)
    mf = MayFlow(sub_function(load, at[0].loops[0].get("b"), "tx"), P, gens=[("offered", call_to("AcceptToMemoryPool"))])
    mf.watch = lambda e: e[0] in ("mcall", "vcall") and e[1] == "CTxMemPool::PrioritiseTransaction"
    mf.run()
    sub = naming(load, P)
    for e, state, st in mf.events:
        site = [s for s in inloop if s.line == st.get("l")]
        dep = bool(site) and any(("exists(" in k or "AcceptToMemoryPool" in k or "m_result_type" in k) for k in F.atoms(site[0].formula(sub)))
        ctx.ob("LoadMempool/delta-before-accept@L%s" % st.get("l"), "ORDER", "the saved fee delta of a transaction is applied before AcceptToMemoryPool is called for it and not "
               "conditionally on the outcome", "offered" not in state and not dep, "%s:%s" % (load.file, st.get("l")))
    ctx.floor("LoadMempool prioritise events", len(mf.events), 1)
    a0 = at[0]
    same = inloop and F.key(F.expand(call_args(inloop[0].expr)[0], sub)).split(".GetHash")[0] in F.key(F.expand(call_args(a0.expr)[1], sub))
    ctx.ob("LoadMempool/delta-same-tx", "PROVENANCE", "the delta is applied to the hash of the transaction that is then offered", bool(same), load.where,
           {"prioritised": F.key(F.expand(call_args(inloop[0].expr)[0], sub)) if inloop else None, "offered": F.key(F.expand(call_args(a0.expr)[1], sub))})
