"""C31 Block subsidy follows the 21 million schedule (DESIGN §3 C31) - a small proof."""
from sa.engine.api import *
from sa.engine import callgraph

UNITS = ["validation.cpp", "kernel/chainparams.cpp"]
LEVEL = "proof"
EXPLANATION = ("Proof by value-graph conformance + integer arithmetic on extracted constants. (S) GetBlockSubsidy has exactly the shape "
               "`h = nHeight / I; if (h >= 64) return 0; return (50*COIN) >> h` (two exits, guard and shift amount are the same quotient, initial "
               "value folded to 5,000,000,000, only operation is the right shift). From (S): zero from the 64th halving on; non-increasing in height "
               "(a non-negative constant shifted right by a non-decreasing amount, C++ semantics for non-negative operands). (I) every write of "
               "Consensus::Params::nSubsidyHalvingInterval in the program assigns a positive integer constant; for each such I the checker computes "
               "sum_{k<64} I * (5e9 >> k) and compares it with MAX_MONEY = 21e14.")
ASSUMPTIONS = ["C++ integer division and right shift of non-negative values (language semantics)", "nHeight >= 0 for connected blocks"]
CLAIM = dict(
    category="proof",
    technique="static analysis: value-graph conformance of GetBlockSubsidy + constant extraction from every chain-parameter constructor + exact integer arithmetic",
    text="All obligations of the schedule are discharged for every height and every chain defined in the source: shape of the subsidy function, "
         "positivity and constancy of every halving interval, zero after 64 halvings, monotonicity, and total issuance below 21,000,000 BTC per chain.",
    note="Trusted: C++ semantics of / and >> on non-negative ints; that block heights are non-negative. Runtime-configurable intervals would be reported (non-constant write).",
    ref="DESIGN.md §3 C31")


def check(ctx):
    P = ctx.program(UNITS)
    f = ctx.used(P.fn("GetBlockSubsidy"))
    defs = local_defs(f, P)
    ex = exits(f, P)
    ok_shape = len(ex) == 2
    Q = "nHeight / consensusParams.nSubsidyHalvingInterval"
    zero = [e for e in ex if e.kind == "ret" and match(["int", 0], e.value)]
    rest = [e for e in ex if e not in zero]
    ok0 = len(zero) == 1 and F.equivalent(zero[0].formula, F.mk_not(F.atom(Q + " < 64")))
    ctx.ob("GetBlockSubsidy/zero-branch", "VALUE-GRAPH", "GetBlockSubsidy returns 0 exactly when nHeight / nSubsidyHalvingInterval >= 64", ok_shape and ok0, f.where,
           {"exits": [(e.line, show(e.value), F.fshow(e.formula)) for e in ex]})
    ok1 = False
    detail = None
    if len(rest) == 1 and is_expr(rest[0].value) and rest[0].value[0] == "local":
        var = rest[0].value[1]
        vals = local_values(f, var)
        detail = [show(v) for _, v in vals]
        if len(vals) == 2 and match(["int", 5000000000], vals[0][1]) and vals[1][1][0] == "compound" and vals[1][1][1] == ">>=":
            amt = F.key(F.expand(vals[1][1][2], defs))
            ok1 = amt == Q
    elif len(rest) == 1 and is_expr(rest[0].value):
        v = F.expand(rest[0].value, defs)
        ok1 = match(["b", ">>", ["int", 5000000000]], v) and F.key(v[3]) == Q
        detail = show(v)
    ctx.ob("GetBlockSubsidy/shift-branch", "VALUE-GRAPH", "otherwise it returns (50 * COIN) >> (nHeight / nSubsidyHalvingInterval) with 50*COIN == 5,000,000,000",
           ok1, f.where, detail)
    # no narrowing on the value path: the quotient, the shifted amount and the result keep at least int / CAmount width
    WIDE = {"int", "const int", "long", "const long", "int64_t", "const int64_t", "CAmount", "const CAmount", "unsigned int", "const unsigned int", "uint64_t", "const uint64_t", "long long"}
    narrow = [(st.get("n"), st.get("ty")) for st in stmts(f.body) if st.get("k") == "decl" and st.get("ty") not in WIDE and st.get("ty") not in ("bool", "const bool")]
    ctx.ob("GetBlockSubsidy/no-narrowing", "VALUE-GRAPH", "the halving count and the subsidy amount are held in int / CAmount-wide variables (a narrower type would wrap the "
           "halving count before the >= 64 test) and the function returns CAmount", not narrow and f.d.get("ret") in ("CAmount", "int64_t", "long"), f.where,
           {"narrow_locals": narrow, "return_type": f.d.get("ret")})
    ctx.ob("const/COIN", "CONST", "COIN == 100,000,000 and MAX_MONEY == 21,000,000 * COIN", P.const("COIN") == 100000000 and P.const("MAX_MONEY") == 21000000 * 100000000, None)
    # consequences of the shape (discharged by the shape obligations + language semantics)
    ctx.ob("schedule/zero-after-64", "PROOF", "subsidy(h) == 0 for all h >= 64 * I  [from the zero branch]", ok_shape and ok0, f.where)
    ctx.ob("schedule/monotone", "PROOF", "h1 <= h2 implies subsidy(h1) >= subsidy(h2)  [h/I is non-decreasing in h for I > 0; c >> k is non-increasing in k for c >= 0; "
           "the zero branch continues the sequence since 5e9 >> 63 == 0]", ok_shape and ok0 and ok1 and (5000000000 >> 63) == 0, f.where)
    # halving intervals
    cg = callgraph.load_all()
    ws = cg.writers("Consensus::Params::nSubsidyHalvingInterval")
    ctx.floor("writers of nSubsidyHalvingInterval", len(ws), 4)
    intervals = []
    for q, fl, lines in ws:
        for fn in P.fns(q):
            for s in sites(fn, lambda e: e[0] == "b" and e[1] in ASSIGN_OPS and match([".", ANY, "Consensus::Params::nSubsidyHalvingInterval"], e[2]), P):
                v = s.expr[3]
                const = s.expr[1] == "=" and is_expr(v) and v[0] == "int"
                val = int(v[1]) if const else None
                ctx.ob("interval/%s@L%s" % (q, s.line), "CONST", "nSubsidyHalvingInterval is assigned a positive integer constant in %s" % q, bool(const and val > 0), s.where,
                       {"value": show(v)})
                if const:
                    intervals.append((q, val))
    found_fns = {q for q, _ in intervals}
    missing = [w[0] for w in ws if w[0] not in found_fns]
    ctx.ob("interval/all-writers-analysed", "COVERAGE", "every function writing nSubsidyHalvingInterval was analysed", not missing, None, {"not_in_analysed_units": missing})
    for q, I in sorted(set(intervals)):
        total = sum(I * (5000000000 >> k) for k in range(64))
        ctx.ob("issuance/%s/I=%d" % (q, I), "PROOF", "sum over all heights of subsidy = sum_{k<64} %d * (5e9 >> k) = %d <= MAX_MONEY = 2,100,000,000,000,000" % (I, total),
               total <= 2100000000000000, None, {"total_satoshi": total, "BTC": total / 1e8})
    ctx.extra["checker_cmd"] = "./check C31 --tier quick"
    ctx.extra["trusted_base"] = ["clang-14 AST + constant folding", "bcfacts extractor", "C++ semantics of / and >> on non-negative integers", "Python integer arithmetic"]
    ctx.extra["intervals"] = sorted(set(intervals))
