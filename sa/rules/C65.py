"""C65 Waiting for a new block template returns only what it promises (DESIGN §3 C65)."""
import re

from sa.engine.api import *
from sa.engine import tsa

UNITS = ["node/miner.cpp", "node/interfaces.cpp", "node/kernel_notifications.cpp"]
EXPLANATION = ("LADDER rule over the return values of node::WaitAndCreateNewBlock: every exit returning something other than nullptr returns the "
               "template created in the same iteration by BlockAssembler{chainman.ActiveChainstate(), mempool, create_options}.CreateNewBlock() and its "
               "path condition implies !interrupt_wait && !chainman.m_interrupt && (tip_changed || new_fees >= current_fees + fee_threshold), where "
               "new_fees / current_fees are the accumulated vTxFees of the new / the caller's template (current_fees computed before the comparison); "
               "tip_changed is written only by the wait predicate (tip set and != block_template->block.hashPrevBlock) and by the min-difficulty rule "
               "(!tip_changed && fPowAllowMinDifficultyBlocks && now > tip_time + <literal>), and is reset every iteration. ORDER: the template is "
               "created after the condition-variable wait of the same iteration, inside the scope of LOCK(cs_main); the wait is bounded by the deadline, "
               "`now` is refreshed before the `now < deadline` loop test; the wait predicate wakes for tip change and both interrupts. InterruptWait "
               "sets the flag. BlockTemplateImpl::waitNext passes its own template/options/interrupt flag and wraps exactly the returned template. "
               "TSA: clang -Wthread-safety on miner.cpp and kernel_notifications.cpp; m_state and m_tip_block_cv are GUARDED_BY(m_tip_block_mutex); "
               "TipBlock() and the wait predicate require that mutex.")
ASSUMPTIONS = ["std::condition_variable::wait_until returns only when the predicate holds or the time point passed",
               "std::accumulate over vTxFees is the template's total fee (opaque atom)",
               "the duration literal in the min-difficulty rule is 20min (user-defined literal value is not visible to the extractor)"]
CLAIM = dict(
    technique="static analysis: return-value ladder by guard implication (truth tables over canonical atoms), who-writes tip_changed with value/guard checks, "
              "must-precede dataflow (wait before create, refresh before loop test), lock scope, clang thread-safety analysis + annotation presence",
    text="For all paths of WaitAndCreateNewBlock: a template is returned only on a changed tip (or the test-network rule) or when its fees reach the previous "
         "template's fees plus the threshold; interrupted or timed-out waits return nullptr; the returned template is built after the wait under cs_main from "
         "the active chainstate, so never on a tip older than the one that triggered it. Tests run a few sequential scenarios; this covers every path.",
    note="Not decided: timing and freshness under concurrent tip changes; the value of the 20-minute literal (user-defined literal operator\"\"min loses its "
         "digits in the fact format: engine limitation); the `fee_threshold < MAX_MONEY || tip_changed` creation gate of DESIGN is not enforced because it is an "
         "optimisation, not a necessary condition of the property (its absence cannot produce a wrong return value).",
    ref="DESIGN.md §3 C65")

FN = "node::WaitAndCreateNewBlock"
CREATE = "node::BlockAssembler::CreateNewBlock"
ACC_NEW = r"std::accumulate\((\w+)\.vTxFees\.begin\(\), \1\.vTxFees\.end\(\), 0\)"


def _strip(e):
    while is_expr(e) and e[0] == "ctor" and len(e) == 3:
        e = e[2]
    return e


def _is_null(v):
    v = _strip(v)
    return v is None or match(["null"], v) or (is_expr(v) and v[0] == "ctor" and len(v) == 2) or (is_expr(v) and v[0] == "init" and len(v) == 2)


def in_lock_scope(fn, lock_pred, target_stmt):
    """True if target_stmt lies in a statement that follows, in the same block, a lock declaration matching lock_pred."""
    for st in stmts(fn.body):
        if st.get("k") != "seq":
            continue
        items = st.get("s", [])
        for i, d in enumerate(items):
            if d.get("k") == "decl" and d.get("m") in ("LOCK", "WAIT_LOCK", "LOCK2") and is_expr(d.get("i")) and lock_pred(d["i"]):
                for later in items[i + 1:]:
                    if any(x is target_stmt for x in stmts(later)):
                        return True
    return False


def check(ctx):
    P = ctx.program(UNITS)
    f = ctx.used(P.fn(FN))
    pn = [p["n"] for p in f.params]
    if pn != ["chainman", "kernel_notifications", "mempool", "block_template", "wait_options", "create_options", "interrupt_wait"]:
        raise AnalysisBroken("%s: parameter list changed: %s" % (FN, pn))
    subst = naming(f, P)
    returns_ladder(ctx, P, f, subst)
    tip_changed_writers(ctx, P, f, subst)
    ordering(ctx, P, f, subst)
    interrupt(ctx, P)
    wait_next(ctx, P)
    locks(ctx, P)


# ------------------------------------------------------------------------------------------------
def _tc_var(f):
    """the local bool written by the wait predicate lambda (tip_changed)."""
    lams = _wait_lambdas(f)
    names = set()
    for lf in lams:
        for st, e in all_exprs(lf.body):
            for x in subexprs(e):
                if x[0] == "b" and x[1] == "=" and match(["local", ANY], x[2]):
                    names.add(x[2][1])
    if len(names) != 1:
        raise AnalysisBroken("%s: cannot identify the tip-changed flag written by the wait predicate (%s)" % (FN, sorted(names)))
    return names.pop()


_P = {}


def _wait_lambdas(f):
    P = _P["P"]
    out = []
    for s in sites(f, lambda e: e[0] == "mcall" and e[1] in ("std::condition_variable::wait_until", "std::condition_variable::wait_for", "std::condition_variable::wait"), P):
        for a in call_args(s.expr):
            if match(["lambda", ANY], a):
                out.append(P.fn(a[1]))
    if not out:
        raise AnalysisBroken("%s: no condition-variable wait with a predicate found" % FN)
    return out


def _fees_short(k):
    m = re.fullmatch(ACC_NEW + r" < (.+)", k)
    return bool(m) and re.fullmatch(r"\w+ \+ wait_options\.fee_threshold|wait_options\.fee_threshold \+ \w+", m.group(2)) is not None


def returns_ladder(ctx, P, f, subst):
    _P["P"] = P
    tc = _tc_var(f)
    atoms = {
        "IW": "interrupt_wait", "CI": "chainman.m_interrupt", "TC": tc,
        "FEES_SHORT": _fees_short,
    }
    n = 0
    fee_returns = []
    for e in exits(f, P, subst):
        where = "%s:%s" % (f.file, e.line)
        if e.kind != "ret":
            raise AnalysisBroken("%s: non-return exit at line %s" % (FN, e.line))
        if _is_null(e.value):
            continue
        n += 1
        v = _strip(e.value)
        g, mapping, un = F.bind_atoms(e.formula, atoms)
        cex = F.counterexample(g, F.parse("!IW && !CI && (TC || !FEES_SHORT)"))
        ctx.ob("WaitAndCreateNewBlock/nonnull@L%s" % e.line, "LADDER", "a template is returned only if the wait was not interrupted and (the tip changed or "
               "new_fees >= current_fees + fee_threshold)", cex is None, where,
               None if cex is None else {"path_condition": F.fshow(e.formula)[:700], "unbound": un[:6], "counterexample": cex})
        # the value is the template created in this iteration
        ok = False
        if match(["local", ANY], v):
            decls = [st for st in stmts(f.body) if st.get("k") == "decl" and st.get("n") == v[1]]
            ok = len(decls) == 1 and is_expr(decls[0].get("i")) and is_call_to(CREATE, decls[0]["i"]) and len(local_values(f, v[1])) == 1
            if ok:
                # the fee comparison must be about this template and the caller's template
                fs = [k for k, nm in mapping.items() if nm == "FEES_SHORT"]
                for k in fs:
                    m = re.match(ACC_NEW, k)
                    if not (m and m.group(1) == v[1]):
                        ok = False
                if fs:
                    fee_returns.append(e)
        ctx.ob("WaitAndCreateNewBlock/value@L%s" % e.line, "PROVENANCE", "the returned template is the one freshly created by BlockAssembler::CreateNewBlock in this "
               "iteration, and the fee test is about that template's vTxFees", ok, where, {"value": show(v)})
    ctx.floor("WaitAndCreateNewBlock non-null returns", n, 2)
    # the template is created from the active chainstate, the caller's mempool and options
    cs = sites(f, call_to(CREATE), P)
    ctx.floor("CreateNewBlock sites", len(cs), 1)
    for s in cs:
        obj = call_obj(s.expr)
        ok = match(["ctor", "node::BlockAssembler", ["mcall", "ChainstateManager::ActiveChainstate", ["param", "chainman"]], ["param", "mempool"], ["param", "create_options"]], obj)
        ctx.ob("WaitAndCreateNewBlock/assembler-args@L%s" % s.line, "PROVENANCE", "the new template is assembled on chainman.ActiveChainstate() with the caller's mempool and create options",
               bool(ok), s.where, {"assembler": show(obj)})
    # current_fees: -1 sentinel or the accumulated fees of the caller's template, computed before the comparison
    cur = None
    sx = {k: v for k, v in subst.items() if k != "@idx"}
    # (decided on the comparison with its single-definition locals expanded, so `required = current + threshold; if (new >= required)` is the same test)
    is_fee_cmp = lambda e: e[0] == "b" and e[1] in ("<", ">=", ">", "<=") and "fee_threshold" in show(F.expand(e, sx)) and "accumulate" in show(F.expand(e, sx))
    for s in sites(f, is_fee_cmp, P):
        for x in subexprs(F.expand(s.expr, sx)):
            if match(["b", "+", ["local", ANY], [".", ["param", "wait_options"], ANY]], x):
                cur = x[2][1]
            if match(["b", "+", [".", ["param", "wait_options"], ANY], ["local", ANY]], x):
                cur = x[3][1]
    if cur is None:
        # no fee comparison of the expected shape: any same-tip return is then already reported by the ladder above
        ctx.note("no `new_fees >= current_fees + fee_threshold` comparison found; current-fees obligations skipped")
        return
    vals = local_values(f, cur)
    bad = [(l, show(v)) for l, v in vals if not (match(["int", -1], v) or re.fullmatch(ACC_NEW.replace(r"(\w+)", "block_template").replace(r"\1", "block_template"), show(v)))]
    has_acc = any("accumulate" in show(v) for l, v in vals)
    ctx.ob("WaitAndCreateNewBlock/current-fees-values", "PROVENANCE", "`%s` is only ever the -1 sentinel or the accumulated vTxFees of the caller's block_template" % cur,
           not bad and has_acc, f.where, {"values": [(l, show(v)) for l, v in vals]})
    is_set = lambda e: match(["b", "=", ["local", cur], ANY], e)
    mf = MustFlow(f, P, marks=[("computed", is_set)], branch_marks=[("computed", lambda a: match(["b", "==", ["local", cur], ["int", -1]], a) or match(["b", "==", ["int", -1], ["local", cur]], a), False),
                                                                   ("computed", lambda a: match(["b", "!=", ["local", cur], ["int", -1]], a), True)])
    mf.watch = lambda e: is_fee_cmp(e) and any(match(["local", cur], x) for x in subexprs(F.expand(e, sx)))
    mf.run()
    ctx.floor("fee comparisons", len(mf.events), 1)
    bad = [st.get("l") for e, state, st in mf.events if "computed" not in state]
    ctx.ob("WaitAndCreateNewBlock/current-fees-computed", "ORDER", "the previous template's fees have been computed (not the -1 sentinel) on every path reaching the fee comparison",
           not bad, f.where, {"lines": bad} if bad else None)


# ------------------------------------------------------------------------------------------------
def tip_changed_writers(ctx, P, f, subst):
    tc = _tc_var(f)
    # declaration: false, inside the loop body (reset every iteration)
    loops = [st for st in stmts(f.body) if st.get("k") in ("do", "while", "for")]
    decl_in_loop = [d for lp in loops for d in stmts(lp.get("b")) if d.get("k") == "decl" and d.get("n") == tc]
    ok = len(decl_in_loop) == 1 and match(["bool", False], decl_in_loop[0].get("i"))
    ctx.ob("WaitAndCreateNewBlock/tip_changed-reset", "PROVENANCE", "`%s` is declared false inside the wait loop (a tip change seen in an earlier iteration cannot leak)" % tc,
           ok, f.where)
    # writes in the function proper
    atoms = {"TC": tc, "MINDIFF": "chainman.GetParams().GetConsensus().fPowAllowMinDifficultyBlocks",
             "OLD_TIP": re.compile(r".*chainman\.ActiveChain\(\)\.Tip\(\)\.GetBlockTime\(\).* \+ std::operator\"\"min\(\) < now")}
    ws = sites(f, lambda e: match(["b", "=", ["local", tc], ANY], e), P, inline_lambdas="none")
    for s in ws:
        isT = match(["bool", True], s.expr[3])
        g, _, un = F.bind_atoms(s.formula(subst), atoms)
        cex = F.counterexample(g, F.parse("!TC && MINDIFF && OLD_TIP"))
        ctx.ob("WaitAndCreateNewBlock/min-difficulty-rule@L%s" % s.line, "LADDER", "outside the wait predicate `%s` is only set to true, and only when it was false, the chain allows "
               "minimum-difficulty blocks and now > active tip time + the literal duration" % tc, bool(isT) and cex is None, s.where,
               None if (isT and cex is None) else {"value": show(s.expr[3]), "path_condition": F.fshow(s.formula(subst))[:500], "counterexample": cex})
    # the wait predicate
    lams = _wait_lambdas(f)
    for lf in lams:
        ctx.used(lf)
        lsub = naming(lf, P)
        lw = sites(lf, lambda e: match(["b", "=", ["local", tc], ANY], e), P)
        ctx.floor("wait predicate writes of tip_changed", len(lw), 1)
        for s in lw:
            val = F.to_formula(s.expr[3], lsub)
            tbl = {"TIPSET": "kernel_notifications.TipBlock()",
                   "SAME": [re.compile(r"block_template\.block\.hashPrevBlock == kernel_notifications\.TipBlock\(\)"),
                            re.compile(r"kernel_notifications\.TipBlock\(\) == block_template\.block\.hashPrevBlock")]}
            bf, mapping, un = F.bind_atoms(val, tbl)
            spec = F.parse("TIPSET && !SAME")
            ok = F.counterexample(bf, spec) is None and F.counterexample(spec, bf) is None and not [g for g in s.guards if g.kind != "post"]
            ctx.ob("WaitAndCreateNewBlock/tip_changed-definition@L%s" % s.line, "TWIN", "the wait predicate sets `%s` exactly to (tip block set && tip block != "
                   "block_template->block.hashPrevBlock), unconditionally" % tc, ok, s.where, None if ok else {"value": F.fshow(val), "unbound": un})
        # wakes up for tip change and both interrupts
        parts = []
        for e in exits(lf, P, lsub):
            if e.kind != "ret" or not is_expr(e.value):
                raise AnalysisBroken("wait predicate: unexpected exit")
            parts.append(F.mk_and([e.formula, F.to_formula(e.value, lsub)]))
        code, _, _ = F.bind_atoms(F.mk_or(parts), {"TC": tc, "IW": "interrupt_wait", "CI": "chainman.m_interrupt"})
        cex = F.counterexample(F.parse("TC || IW || CI"), code)
        ctx.ob("WaitAndCreateNewBlock/wait-predicate-wakes", "LADDER", "the wait predicate is true whenever the tip changed, the wait was interrupted or the node shuts down",
               cex is None, lf.where, None if cex is None else {"counterexample": cex})
        tsa.fn_requires(ctx, lf, r"requires_capability\(.*m_tip_block_mutex", oid="WaitAndCreateNewBlock/predicate-lock",
                        text="the wait predicate (which reads TipBlock()) is annotated EXCLUSIVE_LOCKS_REQUIRED(m_tip_block_mutex)")


# ------------------------------------------------------------------------------------------------
def ordering(ctx, P, f, subst):
    is_wait = lambda e: e[0] == "mcall" and e[1] in ("std::condition_variable::wait_until", "std::condition_variable::wait_for") and \
        match([".", ["param", "kernel_notifications"], "node::KernelNotifications::m_tip_block_cv"], e[2])
    is_refresh = lambda e: match(["b", "=", ["local", "now"], ["call", "NodeClock::now"]], e)
    loops = [st for st in stmts(f.body) if st.get("k") in ("do", "while", "for") and any(is_wait(x) for _, e in all_exprs(st) for x in subexprs(e))]
    if len(loops) != 1:
        raise AnalysisBroken("%s: expected exactly one wait loop" % FN)
    lp = loops[0]
    cond = lp.get("c")
    mf = MustFlow(f, P, marks=[("waited", is_wait), ("refreshed", is_refresh)])
    mf.watch = lambda e: is_call_to(CREATE, e) or e is cond
    mf.run()
    creates = [(e, s, st) for e, s, st in mf.events if is_call_to(CREATE, e)]
    ctx.floor("CreateNewBlock events", len(creates), 1)
    for e, state, st in creates:
        where = "%s:%s" % (f.file, st.get("l"))
        ctx.ob("WaitAndCreateNewBlock/create-after-wait@L%s" % st.get("l"), "ORDER", "the template is created only after the condition-variable wait of the same loop iteration "
               "(never before looking at the tip)", "waited" in state, where)
        ok = in_lock_scope(f, lambda i: contains(["global", "cs_main"], i), st)
        ctx.ob("WaitAndCreateNewBlock/create-under-cs_main@L%s" % st.get("l"), "ORDER", "the template is created inside the scope of LOCK(cs_main), so the active tip it "
               "builds on cannot be older than the tip observed by the wait", ok, where)
    # timeout
    conds = [(e, s, st) for e, s, st in mf.events if e is cond]
    dl = None
    if match(["b", "<", ["local", "now"], ["local", ANY]], cond):
        dl = cond[3][1]
    dls = [st for st in stmts(f.body) if st.get("k") == "decl" and st.get("n") == dl] if dl else []
    ok = len(dls) == 1 and dl in local_defs(f, P, allow_overwritten=True) and match(["b", "+", ["local", "now"], [".", ["param", "wait_options"], "node::BlockWaitOptions::timeout"]], dls[0].get("i")) \
        and not any(dls[0] is x for x in stmts(lp))
    ctx.ob("WaitAndCreateNewBlock/deadline", "PROVENANCE", "the wait loop continues only while now < deadline, where deadline is fixed before the loop as start + wait_options.timeout",
           bool(ok), "%s:%s" % (f.file, lp.get("l")), {"condition": show(cond)})
    ctx.floor("loop condition evaluations", len(conds), 1)
    ok = all("refreshed" in s for e, s, st in conds)
    ctx.ob("WaitAndCreateNewBlock/now-refreshed", "ORDER", "`now` is re-read from NodeClock::now() on every path to the `now < deadline` loop test (the timeout can expire)", ok,
           "%s:%s" % (f.file, lp.get("l")))
    for s in sites(f, is_wait, P):
        a = call_args(s.expr)
        ok = len(a) >= 2 and dl is not None and (match(["local", dl], a[1]) or (is_call_to("std::min", a[1]) and any(match(["local", dl], x) for x in call_args(a[1]))))
        ctx.ob("WaitAndCreateNewBlock/wait-bounded@L%s" % s.line, "PROVENANCE", "each condition-variable wait ends no later than the deadline (time point is deadline or min(.., deadline))",
               bool(ok), s.where, {"time_point": show(a[1]) if len(a) >= 2 else None})
        lk = in_lock_scope(f, lambda i: contains([".", ["param", "kernel_notifications"], "node::KernelNotifications::m_tip_block_mutex"], i), s.stmt)
        ctx.ob("WaitAndCreateNewBlock/wait-under-mutex@L%s" % s.line, "ORDER", "the wait happens inside the scope of WAIT_LOCK(kernel_notifications.m_tip_block_mutex)", lk, s.where)
    # exit after the loop returns nullptr
    after = [e for e in exits(f, P, subst) if e.kind == "ret" and not e.loops]
    ok = bool(after) and all(_is_null(e.value) for e in after)
    ctx.ob("WaitAndCreateNewBlock/timeout-null", "LADDER", "every return outside the wait loop (deadline passed) returns nullptr", ok, f.where)
    # interrupt exits are immediate: taken before cs_main / creation; implied for returns by the ladder, here for the creation effect
    check_guard(ctx, f, P, call_to(CREATE), "!IW && !CI", {"IW": "interrupt_wait", "CI": "chainman.m_interrupt"}, "WaitAndCreateNewBlock/no-create-when-interrupted",
                "no template is created once the wait was interrupted or the node is shutting down")


# ------------------------------------------------------------------------------------------------
def interrupt(ctx, P):
    g = ctx.used(P.fn("node::InterruptWait"))
    flag = g.params[1]["n"] if len(g.params) == 2 else None
    ss = sites(g, lambda e: match(["b", "=", ["param", flag], ["bool", True]], e), P)
    ok = len(ss) == 1 and not [x for x in ss[0].guards if x.kind != "post"]
    ctx.ob("InterruptWait/sets-flag", "EFFECT", "InterruptWait unconditionally sets the interrupt flag to true", ok, g.where)
    if ss:
        lk = in_lock_scope(g, lambda i: contains([".", ["param", g.params[0]["n"]], "node::KernelNotifications::m_tip_block_mutex"], i), ss[0].stmt)
        ctx.ob("InterruptWait/under-mutex", "ORDER", "the flag is set inside the scope of LOCK(kernel_notifications.m_tip_block_mutex) (no lost wake-up against the waiting predicate)", lk, ss[0].where)


def wait_next(ctx, P):
    w = ctx.used(P.fn("node::BlockTemplateImpl::waitNext"))
    cs = sites(w, call_to(FN), P)
    ctx.floor("waitNext -> WaitAndCreateNewBlock", len(cs), 1)
    T = ["this"]
    for s in cs:
        a = call_args(s.expr)
        ok = len(a) == 7 and match([".", T, "node::BlockTemplateImpl::m_block_template"], a[3]) and match(["param", w.params[0]["n"]], _strip(a[4])) \
            and match([".", T, "node::BlockTemplateImpl::m_create_options"], a[5]) and match([".", T, "node::BlockTemplateImpl::m_interrupt_wait"], a[6])
        ctx.ob("waitNext/args@L%s" % s.line, "PROVENANCE", "BlockTemplateImpl::waitNext waits relative to its own template (m_block_template) with the caller's wait options, its own "
               "create options and its own interrupt flag", bool(ok), s.where, {"args": [show(x) for x in a]})
    subst = naming(w, P)
    n = 0
    for e in exits(w, P, subst):
        if e.kind != "ret" or _is_null(e.value):
            continue
        n += 1
        v = e.value
        res = [st["n"] for st in stmts(w.body) if st.get("k") == "decl" and is_expr(st.get("i")) and is_call_to(FN, st["i"])]
        uses_new = len(res) == 1 and len(local_values(w, res[0])) == 1 and any(match(["local", res[0]], x) for x in subexprs(v))
        pos = uses_new and F.implies(e.formula, F.atom(res[0]))
        ctx.ob("waitNext/wraps-result@L%s" % e.line, "PROVENANCE", "waitNext returns a template object only when WaitAndCreateNewBlock returned non-null, and wraps exactly that result",
               bool(uses_new and pos), "%s:%s" % (w.file, e.line), {"value": show(v)[:200]})
    ctx.floor("waitNext non-null returns", n, 1)


def locks(ctx, P):
    tsa.check_units(ctx, ["node/miner.cpp", "node/kernel_notifications.cpp"])
    tsa.guarded_by(ctx, P, "node::KernelNotifications", "m_state", "m_tip_block_mutex")
    tsa.guarded_by(ctx, P, "node::KernelNotifications", "m_tip_block_cv", "m_tip_block_mutex")
    tsa.fn_requires(ctx, ctx.used(P.fn("node::KernelNotifications::TipBlock")), r"requires_capability\(.*m_tip_block_mutex")
