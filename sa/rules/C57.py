"""C57 Scripts are skipped only under the assumed-valid conditions (DESIGN §3 C57)."""
import re

from sa.engine.api import *

UNITS = ["validation.cpp"]
EXPLANATION = ("LADDER/MPT on Chainstate::ConnectBlock: the script-check decision variable is assigned a null value (= skip) only at sites whose "
               "path condition implies all six assumed-valid conditions (hash configured, found in the block index, block is its ancestor, block is "
               "on the best-header chain, best header has minimum chain work, more than two weeks of equivalent work on top); every other "
               "assignment is a non-null literal; fScriptChecks is exactly `reason != null`; in the per-transaction loop UpdateCoins is reached "
               "only for coinbase transactions, skipped blocks, or after CheckInputScripts returned true for that transaction; with a check "
               "queue the collected result (Complete) is consulted before the verdict; TYPESTATE: no success return / commit effect after "
               "state.Invalid.")
ASSUMPTIONS = ["GetBlockProofEquivalentTime computes the equivalent time of the work between the two indexes (numeric, not decided)",
               "CBlockIndex::GetAncestor(h) == pindex characterises 'pindex is an ancestor at height h'"]
CLAIM = dict(
    technique="static analysis: guard implication (truth table) on every assignment of the skip decision + per-iteration may-flow + typestate of the validation state",
    text="For every path through ConnectBlock the decision to skip script verification implies the full assumed-valid condition of the property; "
         "blocks not skipped have CheckInputScripts executed for every non-coinbase transaction and a failing/queued result turns into a "
         "block rejection. Tests exercise two or three chain layouts; this covers all paths.",
    note="Not decided: GetBlockProofEquivalentTime arithmetic, GetAncestor correctness.",
    ref="DESIGN.md §3 C57")

BH = r"m_chainman\.m_best_header"
IDX = r"m_blockman\.m_block_index"
AV = r"m_blockman\.m_block_index\.find\(m_chainman\.AssumedValidBlock\(\)\)"
ATOMS = {
    "AVNULL": "m_chainman.AssumedValidBlock().IsNull()",
    "NOTFOUND": re.compile(r"%s\.end\(\) == %s|%s == %s\.end\(\)" % (IDX, AV, AV, IDX)),
    "ANC_AV": re.compile(r"pindex == %s\.second\.GetAncestor\(pindex\.nHeight\)|%s\.second\.GetAncestor\(pindex\.nHeight\) == pindex" % (AV, AV)),
    "ANC_BEST": re.compile(r"(pindex == %s\.GetAncestor\(pindex\.nHeight\)|%s\.GetAncestor\(pindex\.nHeight\) == pindex)" % (BH, BH)),
    "BELOWMIN": re.compile(r"%s\.nChainWork < m_chainman\.MinimumChainWork\(\)" % BH),
    "RECENT": re.compile(r"GetBlockProofEquivalentTime\(\*%s, \*pindex, \*%s, [^()]*(\([^()]*\))*[^()]*\.GetConsensus\(\)\) < 1209601" % (BH, BH)),
}
SPEC = "!AVNULL && !NOTFOUND && ANC_AV && ANC_BEST && !BELOWMIN && !RECENT"


def may_be_null(v):
    if not is_expr(v):
        return None
    if v[0] == "null":
        return True
    if v[0] == "int":
        return int(v[1]) == 0
    if v[0] == "str":
        return False
    if v[0] == "?:":
        a, b = may_be_null(v[2]), may_be_null(v[3])
        if a is None or b is None:
            return None
        return a or b
    return None


def check(ctx):
    P = ctx.program(UNITS)
    f = ctx.used(P.fn("Chainstate::ConnectBlock"))
    subst = naming(f, P)
    # the decision variable: the local that fScriptChecks is derived from
    defs = local_defs(f, P)
    if "fScriptChecks" not in defs:
        raise AnalysisBroken("ConnectBlock: local fScriptChecks not found or not single-definition")
    fsc = F.to_formula(defs["fScriptChecks"])
    names = F.atoms(fsc)
    if len(names) != 1:
        raise AnalysisBroken("ConnectBlock: fScriptChecks is not derived from a single decision variable: %s" % F.fshow(fsc))
    var = names[0]
    ctx.ob("ConnectBlock/fScriptChecks", "PROVENANCE", "fScriptChecks is true exactly when the skip-decision variable `%s` is non-null" % var,
           F.equivalent(fsc, F.atom(var)), f.where, {"definition": show(defs["fScriptChecks"])})
    assigns = sites(f, lambda e: match(["b", "=", ["local", var]], e), P)
    ctx.floor("assignments of the skip decision", len(assigns), 6)
    nulls = 0
    for s in assigns:
        mn = may_be_null(s.expr[3])
        if mn is None:
            ctx.ob("ConnectBlock/skip-value@L%s" % s.line, "LADDER", "the value assigned to the skip decision is a literal", None, s.where, show(s.expr[3]))
            continue
        if not mn:
            continue
        nulls += 1
        fo = s.formula(subst)
        fb, mapping, unbound = F.bind_atoms(fo, ATOMS)
        cex = F.counterexample(fb, F.parse(SPEC))
        ctx.ob("ConnectBlock/skip@L%s" % s.line, "LADDER", "script verification is skipped only if: assumed-valid hash configured, found in the index, "
               "block is its ancestor and an ancestor of the best header, best header has minimum chain work, and > 2 weeks (1,209,600 s) of equivalent work on top",
               cex is None, s.where, None if cex is None else {"path_condition": F.fshow(fo)[:900], "unbound_code_atoms": unbound[:10], "counterexample": cex})
    ctx.floor("null assignments of the skip decision", nulls, 1)
    # the variable is not initialised to null and not written elsewhere (address-of etc.)
    vals = local_values(f, var)
    other = [(l, show(v)) for l, v in vals if may_be_null(v) is None]
    ctx.ob("ConnectBlock/skip-writes", "PROVENANCE", "every value given to the skip decision is a literal (non-null reason or nullptr)", not other, f.where, other or None)

    # per-transaction loop: UpdateCoins only after CheckInputScripts succeeded (unless coinbase / skipped)
    loops = [st for st in stmts(f.body) if st.get("k") in ("for", "foreach") and any(is_call_to("UpdateCoins", x) for _, e in all_exprs(st["b"]) for x in subexprs(e))]
    if len(loops) != 1:
        raise AnalysisBroken("ConnectBlock: expected one transaction loop containing UpdateCoins, found %d" % len(loops))
    loop = loops[0]
    body = sub_function(f, loop["b"], "txloop")
    is_cis = call_to("CheckInputScripts")
    mf = MayFlow(body, P, gens=[("unchecked", lambda e: False)], init={"unchecked"},
                 branch_kills=[("unchecked", lambda a: F.key(a) == "tx.IsCoinBase()", True),
                               ("unchecked", lambda a: F.equivalent(F.to_formula(a, defs), F.atom(var)), False),
                               ("unchecked", lambda a: is_call_to("CheckInputScripts", a), True),
                               ("unchecked", lambda a: F.key(a) == "tx_ok", True)])
    # tx_ok carries the CheckInputScripts result: every assignment to it is a CheckInputScripts call
    txok_vals = [v for _, v in local_values(f, "tx_ok")]
    ok_txok = bool(txok_vals) and all(is_call_to("CheckInputScripts", v) for v in txok_vals)
    ctx.ob("ConnectBlock/tx_ok", "PROVENANCE", "the per-transaction verdict variable is only ever assigned the result of CheckInputScripts", ok_txok, f.where,
           [show(v)[:80] for v in txok_vals])
    mf.watch = call_to("UpdateCoins")
    mf.run()
    ctx.floor("UpdateCoins sites in the transaction loop", len(mf.events), 1)
    for e, st, stmt in mf.events:
        ctx.ob("ConnectBlock/txloop/UpdateCoins@L%s" % stmt.get("l"), "MPT", "a transaction's coins are updated only if it is the coinbase, the block's scripts are "
               "skipped, or CheckInputScripts returned true for it", "unchecked" not in st, "%s:%s" % (f.file, stmt.get("l")))
    # a failed script check marks the block invalid: in the branch where tx_ok is false, state.Invalid is called
    inv_sites = [s for s in sites(body, lambda e: e[0] == "mcall" and e[1] == "ValidationState::Invalid", P)
                 if any("tx_ok" in F.fshow(g.formula(None)) for g in s.guards)]
    ctx.ob("ConnectBlock/txloop/failed-check-invalid", "MPT", "a false CheckInputScripts result leads to state.Invalid(BLOCK_CONSENSUS, ...)", len(inv_sites) >= 1, f.where)
    # the queued checks: Complete() is called whenever a control exists and its failure invalidates
    cs = sites(f, lambda e: e[0] == "mcall" and e[1] == "CCheckQueueControl::Complete", P)
    ctx.floor("Complete() sites", len(cs), 1)
    is_emplace = lambda e: e[0] == "mcall" and e[1].endswith("::emplace") and match(["local", "control"], e[2])
    is_complete = lambda e: e[0] == "mcall" and e[1] == "CCheckQueueControl::Complete"
    ctx.floor("check-queue control creation sites", len(sites(f, is_emplace, P)), 1)
    mf2 = MayFlow(f, P, gens=[("pending", is_emplace)], kills=[("pending", is_complete)],
                  branch_kills=[("pending", lambda a: F.atoms(F.to_formula(a)) == ["control"], False)])
    mf2.run()
    for st, stmt in mf2.exits:
        if stmt.get("k") == "ret" and match(["bool", True], stmt.get("v")):
            ok = "pending" not in st
            ctx.ob("ConnectBlock/Complete-before-accept@L%s" % stmt.get("l"), "ORDER", "ConnectBlock never returns true while queued script checks are still "
                   "pending (Complete() is called on every path that created a queue control)", ok, "%s:%s" % (f.file, stmt.get("l")))
    n = check_validation_state(ctx, f, P, lambda o: match(["param", "state"], o),
                               [("WriteBlockUndo", call_to("node::BlockManager::WriteBlockUndo")), ("SetBestBlock", call_to("CCoinsViewCache::SetBestBlock")),
                                ("RaiseValidity", call_to("CBlockIndex::RaiseValidity"))], "ConnectBlock")
    ctx.floor("typestate obligations", n, 5)
    # Complete()'s failure result is turned into Invalid
    ok = False
    for s in sites(f, lambda e: e[0] == "mcall" and e[1] == "ValidationState::Invalid", P):
        if any("Complete()" in F.fshow(g.formula(subst)) or "parallel_result" in F.fshow(g.formula(None)) for g in s.guards):
            ok = True
    ctx.ob("ConnectBlock/Complete-failure-invalid", "MPT", "a failure reported by the check queue leads to state.Invalid", ok, f.where)
    k = 60 * 60 * 24 * 7 * 2
    ctx.note("two weeks = %d s is folded into the RECENT atom (`< %d`)" % (k, k + 1))
