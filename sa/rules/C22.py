"""C22 The mempool stays consistent and every entry is valid for the next block (DESIGN §3 C22)."""
import re

from sa.engine.api import *
from sa.engine import callgraph
from sa.rules._helpers_D import *

UNITS = ["txmempool.cpp", "validation.cpp"]
MP = "CTxMemPool::"
EXPLANATION = ("CALLGRAPH who-may-write over the whole program: mapTx gains entries only in CTxMemPool::Apply and loses them only in removeUnchecked, mapNextTx gains "
               "spends only in addNewTransaction and loses them only in removeUnchecked, the size/fee/usage totals are written only by those two, TxGraph additions "
               "happen only in ChangeSet::StageAddition and are committed only in CTxMemPool::Apply; Apply is called only by ChangeSet::Apply, which is called only "
               "from MemPoolAccept (FinalizeSubpackage / SubmitPackage): every insertion passed the acceptance checks. SYMMETRY: addNewTransaction records every "
               "input in mapNextTx and adds GetTxSize/GetFee/DynamicMemoryUsage to the totals, removeUnchecked erases every input's spend and subtracts the same "
               "getters. ORDER/LADDER: removeForBlock removes every block transaction found and calls removeConflicts for every block transaction; removeConflicts "
               "recursively removes the spender of every input; ConnectTip returns true only past removeForBlock(connected block's vtx); MaybeUpdateMempoolForReorg "
               "removes (recursively) every disconnected transaction that is coinbase, not to be re-added or not re-accepted, then UpdateTransactionsFromBlock, then "
               "removeForReorg with a filter that keeps an entry only if CheckFinalTxAtTip, valid-or-recomputed lock points with CheckSequenceLocksAtTip, and "
               "coinbase maturity of every non-mempool input hold; removeForReorg applies the filter to every entry and removes the failing ones with all "
               "descendants; then LimitMempoolSize. REPLACEMENT CONSISTENCY: every EntriesAndTxidsDisjoint test in the acceptance code compares the workspace's conflict "
               "set with the changeset's CalculateMemPoolAncestors(<this transaction's handle>) (all in-mempool ancestors, through single-definition locals), is "
               "reached whenever the conflict set is non-empty and under no other condition, a hit sets Invalid(TX_CONSENSUS, bad-txns-spends-conflicting-tx) and "
               "returns a failure, and the commit is only past it: a replacement can never evict something it (transitively) spends.")
ASSUMPTIONS = ["the acceptance checks of MemPoolAccept establish validity of what they commit (C26-C29 and the consensus properties)",
               "TxGraph::GetDescendantsUnion returns the given entries and all their descendants",
               "UpdateTransactionsFromBlock (degraded by a front-end limitation: one range-adaptor statement is dropped) is not inspected; only its call order is"]
CLAIM = dict(
    technique="static analysis: whole-program who-may-write / who-may-call, add/remove symmetry of the bookkeeping, must-flow ordering and reject-ladder of the reorg filter",
    text="Decides the structural necessary conditions of mempool consistency: entries and spends enter the maps only through the changeset commit reached from "
         "MemPoolAccept, leave only through removeUnchecked which undoes exactly the bookkeeping addNewTransaction did; a connected block's transactions and all "
         "their conflicts (with descendants) are removed before ConnectTip succeeds; after a reorg every entry is re-checked for finality, sequence locks and "
         "coinbase maturity and failing entries leave with their descendants. Tests run CTxMemPool::check at chosen points.",
    note="Not decided: the invariant over histories (CTxMemPool::check is its dynamic guard), TxGraph internals, UpdateTransactionsFromBlock's body (degraded), "
         "script re-validation after reorg (re-accepted transactions go through AcceptToMemoryPool; old entries keep cached script validity by design).",
    ref="DESIGN.md §3 C22")

MUTATING = {"insert", "erase", "emplace", "emplace_back", "emplace_hint", "push_back", "pop_back", "clear", "modify", "extract", "swap", "operator[]", "try_emplace",
            "insert_or_assign", "merge", "replace"}


def check(ctx):
    P = ctx.program(UNITS)
    cg = callgraph.load_all()
    _who(ctx, cg)
    _symmetry(ctx, P)
    _apply(ctx, P)
    _block(ctx, P)
    _reorg(ctx, P)
    _spends_conflicting(ctx, P)


def _who(ctx, cg):
    def mutcalls(field):
        out = {}
        for q, _, m, _ in cg.field_calls(MP + field):
            k = m.rsplit("::", 1)[-1]
            if k in MUTATING:
                out.setdefault(k, set()).add(q)
        return out

    want = {"mapTx": {"insert": {MP + "Apply"}, "erase": {MP + "removeUnchecked"}},
            "mapNextTx": {"insert": {MP + "addNewTransaction"}, "erase": {MP + "removeUnchecked"}}}
    for fld, w in want.items():
        got = mutcalls(fld)
        ok = set(got) == set(w) and all(got[k] <= w[k] for k in w)
        ctx.ob("who-mutates/%s" % fld, "WHO-MAY-WRITE", "CTxMemPool::%s is modified only by %s" % (fld, {k: sorted(v) for k, v in w.items()}), ok, None,
               {"mutating_calls": {k: sorted(v) for k, v in got.items()}})
        direct = {x[0] for x in cg.writers(MP + fld)} - {MP + "CTxMemPool"}
        ctx.ob("who-assigns/%s" % fld, "WHO-MAY-WRITE", "CTxMemPool::%s is never assigned as a whole outside the constructor" % fld, not direct, None, {"writers": sorted(direct)})
    for fld in ("totalTxSize", "m_total_fee", "cachedInnerUsage"):
        w = {x[0] for x in cg.writers(MP + fld)} - {MP + "CTxMemPool"}
        ctx.ob("who-writes/%s" % fld, "WHO-MAY-WRITE", "CTxMemPool::%s is written only by addNewTransaction and removeUnchecked" % fld,
               w == {MP + "addNewTransaction", MP + "removeUnchecked"}, None, {"writers": sorted(w)})
    tg = {}
    for q, _, m, _ in cg.field_calls(MP + "m_txgraph"):
        tg.setdefault(m.rsplit("::", 1)[-1], set()).add(q)
    ctx.ob("who-calls/TxGraph::AddTransaction", "WHO-MAY-CALL", "transactions are added to the mempool's graph only by ChangeSet::StageAddition (staging)",
           tg.get("AddTransaction") == {MP + "ChangeSet::StageAddition"}, None, {"callers": sorted(tg.get("AddTransaction", []))})
    ctx.ob("who-calls/TxGraph::CommitStaging", "WHO-MAY-CALL", "staged graph changes are committed only by CTxMemPool::Apply", tg.get("CommitStaging") == {MP + "Apply"}, None,
           {"callers": sorted(tg.get("CommitStaging", []))})
    chain = [(MP + "addNewTransaction", {MP + "Apply"}), (MP + "Apply", {MP + "ChangeSet::Apply"}),
             (MP + "ChangeSet::Apply", {"MemPoolAccept::FinalizeSubpackage", "MemPoolAccept::SubmitPackage"}),
             ("MemPoolAccept::FinalizeSubpackage", {"MemPoolAccept::AcceptSingleTransactionInternal", "MemPoolAccept::SubmitPackage"}),
             ("MemPoolAccept::SubmitPackage", {"MemPoolAccept::AcceptMultipleTransactionsInternal"}),
             (MP + "ChangeSet::StageAddition", {"MemPoolAccept::PreChecks", MP + "CheckPolicyLimits"}),
             (MP + "removeConflicts", {MP + "removeForBlock"}), (MP + "removeForBlock", {"Chainstate::ConnectTip"}),
             (MP + "removeForReorg", {"Chainstate::MaybeUpdateMempoolForReorg"})]
    for q, al in chain:
        if not cg.defined(q):
            raise AnalysisBroken("%s not found in the call graph" % q)
        cs = {c.split("::lambda@", 1)[0] for c in cg.callers(q)}
        ctx.ob("who-calls/%s" % q.replace("CTxMemPool::", ""), "WHO-MAY-CALL", "%s is called only from %s" % (q, sorted(al)), bool(cs) and cs <= al, None, {"callers": sorted(cs)})


def _symmetry(ctx, P):
    add = ctx.used(P.fn(MP + "addNewTransaction"))
    rem = ctx.used(P.fn(MP + "removeUnchecked"))
    asub, rsub = naming(add, P), naming(rem, P)

    def norm(t):   # entry accessors are written through different aliases of the same entry
        return re.sub(r"^\(?\*?(?:newit|it|entry)\)?\.", "ENTRY.", t)

    for fld in ("totalTxSize", "m_total_fee", "cachedInnerUsage"):
        a = field_writes(add, P, MP + fld)
        r = field_writes(rem, P, MP + fld)
        ok = len(a) == 1 and len(r) == 1 and a[0].expr[0] == "b" and r[0].expr[0] == "b" and a[0].expr[1] == "+=" and r[0].expr[1] == "-=" and \
            norm(xkey(a[0].expr[3], asub)) == norm(xkey(r[0].expr[3], rsub)) and not [g for g in a[0].guards + r[0].guards if g.kind != "post"]
        ctx.ob("symmetry/%s" % fld, "SYMMETRY", "removeUnchecked subtracts from %s exactly what addNewTransaction added (same accessor, both unconditional)" % fld, ok,
               a[0].where if a else add.where, {"add": [show(s.expr) for s in a], "remove": [show(s.expr) for s in r]})
    ins = sites(add, lambda e: callee(e) == "indirectmap::insert" and show(call_obj(e)) == "mapNextTx", P)
    ok = False
    if len(ins) == 1 and ins[0].loops:
        lp = ins[0].loops[-1]
        rng, ivar = index_loop(lp, asub)          # `for (i = 0; i < T.vin.size(); i++)` or `for (txin : T.vin)`
        arg = xkey(call_args(ins[0].expr)[0], site_subst(asub, ins[0]))
        m = re.fullmatch(r"(.+)\.vin", rng or "")
        T = m.group(1) if m else None
        forms = ["&each(%s).prevout" % rng] + (["&%s[%s].prevout" % (rng, ivar)] if ivar else [])
        ok = T is not None and loop_is_total(lp) and not in_loop_guards(ins[0], lp) and \
            any(re.fullmatch(r"(?:std::pair\{)?std::make_pair\(%s, newit\)\}?" % re.escape(fm), arg) for fm in forms) and \
            (T in ("newit.GetTx()", "(*newit).GetTx()") or [show(v) for _, v in local_values(add, T)] == ["newit.GetTx()"])
    ctx.ob("addNewTransaction/spends", "PROVENANCE", "addNewTransaction records every input's outpoint of the new entry in mapNextTx (complete loop over all inputs, unconditional)", ok,
           ins[0].where if ins else add.where, {"loop": loop_range_key(ins[0].loops[-1], asub) if ins and ins[0].loops else None})
    ers = sites(rem, lambda e: callee(e) == "indirectmap::erase" and show(call_obj(e)) == "mapNextTx", P)
    ok = False
    if len(ers) == 1 and ers[0].loops:
        lp = ers[0].loops[-1]
        ok = index_loop(lp, rsub)[0] == "it.GetTx().vin" and loop_is_total(lp) and not in_loop_guards(ers[0], lp) and \
            xkey(call_args(ers[0].expr)[0], site_subst(rsub, ers[0])) == "each(it.GetTx().vin).prevout" and not [g for g in ers[0].guards if g.kind not in ("post", "loop")]
    ctx.ob("removeUnchecked/spends", "PROVENANCE", "removeUnchecked erases the spend of every input of the removed entry from mapNextTx (complete loop, unconditional)", ok,
           ers[0].where if ers else rem.where)
    er = sites(rem, lambda e: callee(e) and callee(e).endswith("::erase") and show(call_obj(e)) == "mapTx", P)
    ok = len(er) == 1 and [show(a) for a in call_args(er[0].expr)] == ["it"] and not [g for g in er[0].guards if g.kind != "post"]
    ctx.ob("removeUnchecked/erase", "EFFECT", "removeUnchecked unconditionally erases the entry from mapTx", ok, er[0].where if er else rem.where)
    un = sites(rem, lambda e: callee(e) == "TxGraph::RemoveTransaction" or (callee(e) or "").endswith("Ref::~Ref"), P)
    ctx.extra["removeUnchecked_graph_calls"] = [show(s.expr) for s in un]


def _apply(ctx, P):
    f = ctx.used(P.fn(MP + "Apply"))
    sub = naming(f, P)
    mf = MustFlow(f, P, marks=[("COMMITTED", lambda e: callee(e) == "TxGraph::CommitStaging"), ("REMOVED", call_to(MP + "RemoveStaged"))])
    mf.watch = lambda e: is_call_to(MP + "addNewTransaction", e) or is_call_to(MP + "RemoveStaged", e)
    mf.run()
    adds = [(e, st, s) for e, st, s in mf.events if is_call_to(MP + "addNewTransaction", e)]
    rms = [(e, st, s) for e, st, s in mf.events if is_call_to(MP + "RemoveStaged", e)]
    ok = len(adds) == 1 and {"COMMITTED", "REMOVED"} <= set(adds[0][1]) and len(rms) == 1 and show(call_args(rms[0][0])[0]) == "changeset.m_to_remove"
    ctx.ob("Apply/order", "ORDER", "Apply commits the staged graph and removes exactly the staged removals (changeset->m_to_remove) before adding entries", ok, f.where)
    a = sites(f, call_to(MP + "addNewTransaction"), P)
    ins = sites(f, lambda e: (callee(e) or "").endswith("::insert") and show(call_obj(e)) == "mapTx", P)
    ok = False
    if len(a) == 1 and len(ins) == 1 and a[0].loops and ins[0].loops and a[0].loops[-1] is ins[0].loops[-1]:
        lp = a[0].loops[-1]
        ok = index_loop(lp, sub)[0] == "changeset.m_entry_vec" and loop_is_total(lp) and not [g for g in in_loop_guards(a[0], lp) + in_loop_guards(ins[0], lp) if g.kind != "post"] and ins[0].line < a[0].line
        src = [show(v) for _, v in local_values(f, "node_handle")] if ok else []
        ok = ok and any(re.fullmatch(r"changeset\.m_to_add\.extract\(\w+\)", t) for t in src)
    ctx.ob("Apply/add-all", "PROVENANCE", "every staged entry (changeset->m_entry_vec, taken out of m_to_add) is inserted into mapTx and handed to addNewTransaction", ok, f.where)


def _block(ctx, P):
    f = ctx.used(P.fn(MP + "removeForBlock"))
    sub = naming(f, P)
    rc = sites(f, call_to(MP + "removeConflicts"), P)
    ru = sites(f, call_to(MP + "removeUnchecked"), P)
    if len(rc) != 1 or len(ru) != 1 or not rc[0].loops:
        raise AnalysisBroken("removeForBlock: removeConflicts / removeUnchecked call not found in the loop over the block")
    lp = rc[0].loops[-1]
    ok = loop_range_key(lp, sub) == "each(vtx)" and loop_is_total(lp) and not [g for g in in_loop_guards(rc[0], lp) if g.kind != "post"] and \
        xkey(call_args(rc[0].expr)[0], site_subst(sub, rc[0])) == "*each(vtx)"
    ctx.ob("removeForBlock/conflicts", "ORDER", "removeForBlock calls removeConflicts(*tx) for every transaction of the block (complete loop, unconditional inside it)", ok, rc[0].where)
    outer = F.mk_and([g.formula(sub) for g in rc[0].guards if g.kind != "post" and g not in in_loop_guards(rc[0], lp)])
    gb, _, un = F.bind_atoms(outer, {"HAS_SPENDS": ("mapNextTx.empty()", False), "HAS_TX": ("mapTx.empty()", False)})
    ctx.ob("removeForBlock/not-skipped", "LADDER", "the block loop runs whenever the mempool holds any transaction or spend", F.counterexample(F.parse("HAS_SPENDS || HAS_TX"), gb) is None,
           rc[0].where, {"guard": F.fshow(outer)})
    ssub = site_subst(sub, ru[0])
    own = F.mk_and([g.formula(ssub) for g in in_loop_guards(ru[0], lp) if g.kind != "post"])
    gb, _, un = F.bind_atoms(own, {"NOTFOUND": re.compile(r"(?:it|mapTx\.find\(each\(vtx\)\.GetHash\(\)\)) == mapTx\.end\(\)|mapTx\.end\(\) == (?:it|mapTx\.find\(each\(vtx\)\.GetHash\(\)\))")})
    src = [show(v) for _, v in local_values(f, "it")]
    ok = ru[0].loops and ru[0].loops[-1] is lp and F.counterexample(F.parse("!NOTFOUND"), gb) is None and \
        (not src or any(re.fullmatch(r"mapTx\.find\(tx\.GetHash\(\)\)", t) for t in src))
    ctx.ob("removeForBlock/confirmed", "LADDER", "every block transaction found in mapTx (by txid) is removed", bool(ok), ru[0].where, {"guard": F.fshow(own), "it": src})

    g = ctx.used(P.fn(MP + "removeConflicts"))
    gsub = naming(g, P)
    rr = sites(g, call_to(MP + "removeRecursive"), P)
    ok = False
    if len(rr) == 1 and rr[0].loops:
        lp2 = rr[0].loops[-1]
        ss = site_subst(gsub, rr[0])
        own = F.mk_and([x.formula(ss) for x in in_loop_guards(rr[0], lp2) if x.kind != "post"])
        gb, _, un = F.bind_atoms(own, {"NOSPENDER": re.compile(r"(?:it|mapNextTx\.find\(each\(tx\.vin\)\.prevout\)) == mapNextTx\.end\(\)|mapNextTx\.end\(\) == (?:it|mapNextTx\.find\(each\(tx\.vin\)\.prevout\))"),
                                       "SAME": re.compile(r".*GetHash\(\) == .*GetHash\(\)")})
        src = [show(v) for _, v in local_values(g, "it")]
        ok = loop_range_key(lp2, gsub) == "each(tx.vin)" and loop_is_total(lp2) and F.counterexample(F.parse("!NOSPENDER && !SAME"), gb) is None and \
            any(t == "mapNextTx.find(txin.prevout)" for t in src) and re.fullmatch(r"it\.second", show(call_args(rr[0].expr)[0])) is not None
        ctx.ob("removeConflicts/spender", "LADDER", "for every input of a confirmed transaction, a different mempool transaction spending the same outpoint is removed "
               "recursively", ok, rr[0].where, {"guard": F.fshow(own), "unbound": un})
    else:
        ctx.ob("removeConflicts/spender", "LADDER", "removeConflicts removes the spender of every input", False, g.where)

    ct = ctx.used(P.fn("Chainstate::ConnectTip"))
    csub = naming(ct, P)
    rb = sites(ct, call_to(MP + "removeForBlock"), P)
    ctx.floor("ConnectTip removeForBlock calls", len(rb), 1)
    for s in rb:
        arg = xkey(call_args(s.expr)[0], csub)
        gb, _, un = F.bind_atoms(s.formula(csub), {"CONNECTED": re.compile(r"Chainstate::ConnectBlock\(\*block_to_connect, .*\)")})
        ok = arg == "block_to_connect.vtx" and F.counterexample(gb, F.parse("CONNECTED")) is None
        ctx.ob("ConnectTip/removeForBlock@L%s" % s.line, "PROVENANCE", "the mempool is updated with the transactions of the block that ConnectBlock just connected", ok, s.where, {"arg": arg})
    mf = MustFlow(ct, P, marks=[("POOL_UPDATED", call_to(MP + "removeForBlock"))],
                  branch_marks=[("POOL_UPDATED", lambda a: match([".", ["this"], "Chainstate::m_mempool"], a), False)])
    mf.run()
    n = 0
    for st, s in mf.exits:
        if s.get("k") == "ret" and match(["bool", True], s.get("v")):
            n += 1
            ctx.ob("ConnectTip/pool-updated@L%s" % s.get("l"), "ORDER", "ConnectTip returns true only after removeForBlock ran (when there is a mempool)", "POOL_UPDATED" in st,
                   "%s:%s" % (ct.file, s.get("l")))
    ctx.floor("ConnectTip accepting exits", n, 1)


def _reorg(ctx, P):
    k = P.const("COINBASE_MATURITY")
    ctx.ob("const/COINBASE_MATURITY", "CONST", "COINBASE_MATURITY == 100", k == 100, None, {"value": k})
    f = ctx.used(P.fn("Chainstate::MaybeUpdateMempoolForReorg"))
    sub = naming(f, P)
    mf = MustFlow(f, P, marks=[("UPDATED", call_to(MP + "UpdateTransactionsFromBlock")), ("FILTERED", call_to(MP + "removeForReorg")), ("TRIMMED", call_to("LimitMempoolSize"))])
    mf.watch = lambda e: callee(e) in (MP + "removeForReorg", "LimitMempoolSize")
    mf.run()
    fr = [(e, st, s) for e, st, s in mf.events if is_call_to(MP + "removeForReorg", e)]
    lm = [(e, st, s) for e, st, s in mf.events if is_call_to("LimitMempoolSize", e)]
    ok = len(fr) == 1 and "UPDATED" in fr[0][1] and len(lm) >= 1 and all("FILTERED" in st for _, st, _ in lm)
    ctx.ob("Reorg/order", "ORDER", "after a reorg: UpdateTransactionsFromBlock, then removeForReorg(filter), then LimitMempoolSize", ok, f.where)
    ends = [(st, s) for st, s in mf.exits]
    okall = all(("FILTERED" in st and "TRIMMED" in st) or F.implies(e.formula, F.mk_not(F.atom("m_mempool"))) for (st, s) in ends
                for e in exits(f, P, sub) if e.line == s.get("l"))
    ctx.ob("Reorg/always", "ORDER", "every exit of MaybeUpdateMempoolForReorg with a mempool has filtered and trimmed it", okall and bool(ends), f.where)
    # disconnected transactions: removed unless re-accepted
    rr = sites(f, call_to(MP + "removeRecursive"), P)
    ctx.floor("MaybeUpdateMempoolForReorg removeRecursive sites", len(rr), 1)
    for s in rr:
        lp = s.loops[-1] if s.loops else None
        own = F.mk_and([g.formula(sub) for g in (in_loop_guards(s, lp) if lp else s.guards) if g.kind != "post"])
        gb, _, un = F.bind_atoms(own, {"READD": "fAddToMempool", "COINBASE": re.compile(r"\*\w+\.IsCoinBase\(\)"),
                                       "ACCEPTED": re.compile(r"AcceptToMemoryPool\(\*this, \*\w+, GetTime\(\), true, false\)\.m_result_type == MempoolAcceptResult::ResultType::VALID")})
        ok = F.counterexample(F.parse("!READD || COINBASE || !ACCEPTED"), gb) is None and lp is not None and not has_break(lp.get("b")) and \
            not any(st.get("k") == "continue" for st in stmts(lp.get("b")))
        ctx.ob("Reorg/resubmit@L%s" % s.line, "LADDER", "every disconnected transaction that is a coinbase, must not be re-added, or is not re-accepted by "
               "AcceptToMemoryPool(bypass_limits=true, test_accept=false) is removed from the mempool with its descendants", ok, s.where, {"guard": F.fshow(own), "unbound": un})
    # the filter
    rf = sites(f, call_to(MP + "removeForReorg"), P)
    lam = [x for s in rf for x in subexprs(F.expand(call_args(s.expr)[1], sub)) if x[0] == "lambda"] if rf else []
    if len(lam) != 1 or len(P.fns(lam[0][1])) != 1:
        raise AnalysisBroken("MaybeUpdateMempoolForReorg: the removeForReorg filter lambda was not found")
    g = ctx.used(P.fns(lam[0][1])[0])
    gsub = naming(g, P)
    param = g.params[0]["n"]
    TX = re.escape(param) + r"\.GetTx\(\)"
    NEWLP = r"CalculateLockPointsAtTip\(m_chain\.Tip\(\), CCoinsViewMemPool\{&Chainstate::CoinsTip\(\), \*m_mempool\}, " + TX + r"\)"
    atoms = {"FINAL": re.compile(r"CheckFinalTxAtTip\(\*ASSERT\(m_chain\.Tip\(\)\), " + TX + r"\)"),
             "LP_VALID": re.compile(r"TestLockPointValidity\(m_chain, " + re.escape(param) + r"\.GetLockPoints\(\)\)"),
             "SEQ_OK": re.compile(r"CheckSequenceLocksAtTip\(m_chain\.Tip\(\), " + re.escape(param) + r"\.GetLockPoints\(\)\)"),
             "NEW_LP": re.compile(NEWLP), "NEW_SEQ_OK": re.compile(r"CheckSequenceLocksAtTip\(m_chain\.Tip\(\), \*" + NEWLP + r"\)"),
             "SPENDS_CB": re.compile(re.escape(param) + r"\.GetSpendsCoinbase\(\)")}
    keeps = [e for e in exits(g, P, gsub) if is_false_ret(e)]
    ctx.floor("reorg filter keep exits", len(keeps), 1)
    matur = [lp for lp in loops_over(g, P, gsub, r"each\(" + TX + r"\.vin\)")]
    ctx.floor("reorg filter maturity loops", len(matur), 1)
    atoms["MATURITY_DONE"] = "done(loop@%s)" % matur[0].get("l")
    for e in keeps:
        implies_ob(ctx, "ReorgFilter/keep@L%s" % e.line, "LADDER", "an entry survives a reorg only if it is final at the tip, its (still valid or recomputed) lock points "
                   "satisfy the sequence locks, and - when it spends a coinbase - every input passed the maturity scan", e.formula,
                   "FINAL && ((LP_VALID && SEQ_OK) || (!LP_VALID && NEW_LP && NEW_SEQ_OK)) && (!SPENDS_CB || MATURITY_DONE)", atoms, "%s:%s" % (g.file, e.line))
    rej = [e for e in exits(g, P, gsub) if is_true_ret(e) and matur[0] in e.loops]
    ok = False
    for e in rej:
        ss = site_subst(gsub, e.site)
        own = F.mk_and([x.formula(ss) for x in in_loop_guards(e.site, matur[0])])
        coin = r"Chainstate::CoinsTip\(\)\.AccessCoin\(each\(" + TX + r"\.vin\)\.prevout\)"

        def immature(key):
            m = re.fullmatch(r"\(1 \+ m_chain\.Tip\(\)\.nHeight\) - " + coin + r"\.nHeight < (\d+)", key)
            return bool(m) and int(m.group(1)) >= 100

        gb, _, un = F.bind_atoms(own, {"IN_POOL": re.compile(r"m_mempool\.exists\(each\(" + TX + r"\.vin\)\.prevout\.hash\)"), "CB": re.compile(coin + r"\.IsCoinBase\(\)"),
                                       "IMMATURE": immature, "SPENT": re.compile(coin + r"\.IsSpent\(\)")})
        ok = F.counterexample(F.parse("!IN_POOL && !SPENT && CB && IMMATURE"), gb) is None and not has_break(matur[0].get("b"))
    ctx.ob("ReorgFilter/maturity", "LADDER", "an input that is a confirmed coinbase output with fewer than COINBASE_MATURITY confirmations at the next height evicts the entry "
           "(inputs created in the mempool are skipped)", ok, rej[0].site.where if rej else g.where)
    # removeForReorg applies the filter to everything and removes with descendants
    r = ctx.used(P.fn(MP + "removeForReorg"))
    rsub = naming(r, P)
    fc = sites(r, lambda e: e[0] in ("opcall", "icall", "mcall") and "check_final_and_mature" in show(e)[:40] and callee(e) not in (None,) and "operator()" in (callee(e) or ""), P)
    ok = False
    if len(fc) == 1 and fc[0].loops:
        lp = fc[0].loops[-1]
        key = loop_range_key(lp, rsub)
        em = [s for s in sites(r, lambda e: callee(e) in ("std::vector::emplace_back", "std::vector::push_back") and show(call_obj(e)) == "to_remove", P) if lp in s.loops]
        ok = re.fullmatch(r"for\(mapTx\.begin\(\); .*mapTx\.end\(\).*\)", key) is not None and loop_is_total(lp) and len(em) == 1 and \
            [show(g.expr) for g in in_loop_guards(em[0], lp) if g.kind != "post"] == [show(fc[0].expr)]
    ctx.ob("removeForReorg/scan", "LADDER", "removeForReorg applies the filter to every mempool entry (mapTx.begin() .. end()) and collects exactly the entries it rejects", ok,
           fc[0].where if fc else r.where, {"loop": loop_range_key(fc[0].loops[-1], rsub) if fc and fc[0].loops else None})
    un = [show(v) for _, v in local_values(r, "all_to_remove")]
    ru = sites(r, call_to(MP + "removeUnchecked"), P)
    ok = any(re.fullmatch(r"m_txgraph\.GetDescendantsUnion\(.*to_remove.*, TxGraph::Level::MAIN\)", t) for t in un) and len(ru) == 1 and ru[0].loops and \
        loop_range_key(ru[0].loops[-1], rsub) == "each(all_to_remove)" and loop_is_total(ru[0].loops[-1]) and not in_loop_guards(ru[0], ru[0].loops[-1])
    ctx.ob("removeForReorg/descendants", "PROVENANCE", "the rejected entries are removed together with all their descendants (GetDescendantsUnion, complete loop)", bool(ok),
           ru[0].where if ru else r.where, {"all_to_remove": un})


# ------------------------------------------------------------------------------------------ a replacement never spends what it evicts

def _spends_conflicting(ctx, P):
    fns = []
    for q, fl in P.funcs.items():
        for g in fl:
            if g.body is not None and g.file.endswith("validation.cpp") and any(is_call_to("EntriesAndTxidsDisjoint", x) for _, e in all_exprs(g.body) for x in subexprs(e)):
                fns.append(g)
    ctx.floor("acceptance functions testing conflicts against ancestors", len(fns), 1)
    for g0 in fns:
        ctx.used(g0)
        g = inline_condvars(g0, inits=True)
        sub = naming(g, P)
        short = g.q.rsplit("::", 1)[-1]
        for s in uniq_sites(sites(g, call_to("EntriesAndTxidsDisjoint"), P)):
            a = call_args(s.expr)
            oid = "%s/spends-conflicting@L%s" % (short, s.line)
            # first argument: all in-mempool ancestors of the staged transaction
            src = strip_wrappers(a[0]) if a else None
            seen = set()
            while is_expr(src) and src[0] == "local" and src[1] not in seen:
                seen.add(src[1])
                vals = local_values(g, src[1])
                src = strip_wrappers(vals[0][1]) if len(vals) == 1 and is_expr(vals[0][1]) else None
            ws = None
            ok = is_expr(src) and is_call_to(MP + "ChangeSet::CalculateMemPoolAncestors", src) and show(call_obj(src)) == "m_subpackage.m_changeset" and len(call_args(src)) == 1
            if ok:
                m = re.fullmatch(r"(.+)\.m_tx_handle", xkey(call_args(src)[0], site_subst(sub, s)))
                ok, ws = bool(m), (m.group(1) if m else None)
            ctx.ob(oid + "/ancestors", "PROVENANCE", "the set tested for intersection with the conflicts is the changeset's CalculateMemPoolAncestors(<workspace>.m_tx_handle): "
                   "every in-mempool ancestor of the new transaction, not just its parents", bool(ok), s.where, {"source": show(src) if is_expr(src) else None})
            if not ok:
                continue
            ok2 = len(a) >= 2 and xkey(a[1], site_subst(sub, s)) == ws + ".m_conflicts"
            ctx.ob(oid + "/conflicts", "PROVENANCE", "it is compared with the same workspace's conflict set (m_conflicts, which includes an evicted sibling)", ok2, s.where,
                   {"arg": xkey(a[1], site_subst(sub, s)) if len(a) >= 2 else None})
            own = F.mk_and([x.formula(site_subst(sub, s)) for x in s.guards if x.kind in ("if", "sc", "case", "loop")])
            okg = F.equivalent(own, F.mk_not(F.atom(ws + ".m_conflicts.empty()")))
            ctx.ob(oid + "/always-when-conflicts", "LADDER", "the test is made whenever the conflict set is non-empty (no other condition can skip it)", okg, s.where, {"guard": F.fshow(own)})
        # a hit is a TX_CONSENSUS failure that leaves the function
        hits = [st for st in stmts(g.body) if st.get("k") == "if" and any(is_call_to("EntriesAndTxidsDisjoint", x) for x in subexprs(st.get("c")))]
        ctx.floor("%s: branches on the disjointness test" % short, len(hits), 1)
        for st in hits:
            c = F.to_formula(st["c"], sub)
            pos = len(F.atoms(c)) == 1 and F.equivalent(c, F.atom(F.atoms(c)[0]))       # `if (err)`: the then-branch is the hit
            branch = st.get("t") if pos else st.get("e")
            inv = [invalid_call(x) for s2, e in all_exprs(branch) for x in subexprs(e) if invalid_call(x)] if isinstance(branch, dict) else []
            rets = [s2 for s2 in stmts(branch) if s2.get("k") == "ret"] if isinstance(branch, dict) else []
            ok = isinstance(branch, dict) and always_exits(branch) and ("TxValidationResult::TX_CONSENSUS", "bad-txns-spends-conflicting-tx") in inv and \
                bool(rets) and all(result_kind(r.get("v")) == "INVALID" or match(["bool", False], r.get("v")) for r in rets)
            ctx.ob("%s/spends-conflicting-rejects@L%s" % (short, st.get("l")), "LADDER", "an ancestor among the conflicts sets Invalid(TX_CONSENSUS, bad-txns-spends-conflicting-tx) "
                   "and returns a failure result", ok, "%s:%s" % (g.file, st.get("l")), {"invalid_calls": inv})
        # no pool change before / without it
        atoms = {"HASCONF": (re.compile(r"\w+\.m_conflicts\.empty\(\)"), False), "SPENDSCONF": re.compile(r"EntriesAndTxidsDisjoint\(.*\)")}
        eff = sites(g, lambda e: callee(e) in ("MemPoolAccept::FinalizeSubpackage", "MemPoolAccept::SubmitPackage", MP + "ChangeSet::Apply", "LimitMempoolSize"), P)
        ctx.floor("%s: pool-changing call sites" % short, len(eff), 1)
        site_implies(ctx, eff, sub, "!HASCONF || !SPENDSCONF", atoms, "%s/commit-past-disjointness" % short,
                     "the mempool is changed only if the transaction has no conflicts or none of its ancestors is among them")
