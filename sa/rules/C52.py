"""C52 HTTP requests: answered only for allowed clients, RPC executed only with valid credentials (DESIGN §3 C52)."""
import re

from sa.engine.api import *
from sa.engine import callgraph

UNITS = ["httpserver.cpp", "httprpc.cpp"]
EXPLANATION = ("MPT/LADDER rule for the second sentence of the property. HTTPServer::AcceptConnection returns a socket only past the true edge of "
               "ClientAllowed(addr) on the address filled from the accepted socket, it is the only caller of Sock::Accept in the HTTP server, and "
               "ClientAllowed answers true only for a valid address matching an entry of m_allow_subnets. HTTPReq_JSONRPC reaches ReadBody/ExecuteHTTPRPC "
               "only for POST requests carrying an `authorization` header for which RPCAuthorized(header value, user) is true; every reply on the "
               "failing rungs is HTTP_UNAUTHORIZED; RPCAuthorized returns only false or CheckUserAuthorized(user, pass) past the Basic/base64/colon rungs, "
               "and CheckUserAuthorized returns true only under the timing-resistant equality of user name and salted HMAC. ExecuteHTTPRPC has no other "
               "HTTP caller. The size rungs (MAX_HEADERS_SIZE for header lines and chunk trailers, MAX_BODY_SIZE for Content-Length and chunked bodies) "
               "are present, throw, and dominate the storing effects.")
ASSUMPTIONS = ["node::RpcImpl::executeRpc (in-process IPC interface) is a local trusted caller of ExecuteHTTPRPC",
               "TimingResistantEqual is string equality; CHMAC_SHA256 is the configured -rpcauth hash",
               "CSubNet::Match / CNetAddr::IsValid are correct (C60 is N/A)"]
CLAIM = dict(
    technique="static analysis: must-pass-through guard implication by truth tables, reject ladders, who-may-call on the whole-program call graph, constants",
    text="Decides the second sentence of the property for all paths: no accepted HTTP socket exists without the address allow-list check having "
         "succeeded, and no JSON-RPC request body is read or executed without a POST method, an authorization header and a successful credential "
         "check; failures answer 401. Oversized headers/bodies hit a throwing rung before anything is stored.",
    note="Not decided: independence of parsing from fragmentation (stream semantics, first sentence of the property), the REST interface (unauthenticated by "
         "design), cookie/-rpcauth file generation. The chunk-size rung is checked by its own guard and position only: the engine's path conditions are "
         "unsound across the re-assignment of m_chunk_size.",
    ref="DESIGN.md §3 C52")

HS = "http_bitcoin::HTTPServer::"


def peel(e):
    while is_expr(e) and ((e[0] == "ctor" and len(e) == 3) or e[0] == "cast" or e[0] == "defarg"):
        e = e[2] if e[0] != "defarg" else e[1]
    return e


def check(ctx):
    P = ctx.program(UNITS)
    cg = callgraph.load_all()
    accept(ctx, P, cg)
    rpc_auth(ctx, P, cg)
    size_rungs(ctx, P)
    running_counters(ctx, P, cg)
    read_request_buffer_blind(ctx, P)


def running_counters(ctx, P, cg):
    """The header-size limit must apply to the whole header section however it is split over reads: the per-object count of
    consumed header bytes is only ever increased (compound addition) after construction, at every site that consumes input."""
    fld = "http_bitcoin::HTTPHeaders::m_consumed"
    ws = cg.writers(fld)
    fns = sorted({w[0] for w in ws if not w[0].endswith("::HTTPHeaders")})
    ctx.floor("writers of the consumed-header-bytes counter", len(fns), 1)
    n = 0
    for q in fns:
        for fn in P.fns(q):
            for s_ in sites(fn, lambda e: (e[0] == "b" and e[1] in ASSIGN_OPS and match([".", ANY, fld], e[2])) or
                            (e[0] == "u" and e[1] in ("++", "--", "post++", "post--") and match([".", ANY, fld], e[2])), P):
                n += 1
                ok = s_.expr[0] == "b" and s_.expr[1] == "+="
                ctx.ob("HTTPHeaders/m_consumed@L%s" % s_.line, "SIBLING", "the consumed-header-bytes counter is accumulated (+=), never overwritten or decreased, so the "
                       "MAX_HEADERS_SIZE limit covers the total across any split of the header bytes into reads", ok, s_.where, {"write": show(s_.expr)})
    ctx.floor("consumed-header-bytes updates", n, 2)


# ------------------------------------------------------------------------------------------------
def accept(ctx, P, cg):
    f = ctx.used(P.fn(HS + "AcceptConnection"))
    subst = naming(f, P)
    ap = [p["n"] for p in f.params if "CService" in p["ty"]]
    if len(ap) != 1:
        raise AnalysisBroken("AcceptConnection: address out-parameter not found")
    allowed = "%sClientAllowed(%s)" % (HS, ap[0])
    acc = sites(f, lambda e: e[0] in ("mcall", "vcall") and e[1] == "Sock::Accept", P)
    ctx.floor("AcceptConnection Sock::Accept calls", len(acc), 1)
    socks = {st["n"] for st in stmts(f.body) if st.get("k") == "decl" and is_expr(st.get("i")) and any(x is acc[0].expr for x in subexprs(st["i"]))}
    n = 0
    for e in exits(f, P, subst):
        if e.kind != "ret" or not is_expr(e.value):
            continue
        v = peel(e.value)
        if v[0] == "call" and v[1] == "std::move":
            v = peel(v[2])
        if v[0] in ("ctor", "init") and len(v) == 2:
            continue                                  # empty unique_ptr: nothing accepted
        n += 1
        fb, mp, un = F.bind_atoms(e.formula, {"ALLOWED": allowed})
        ok = F.implies(fb, F.parse("ALLOWED")) and v[0] == "local" and v[1] in socks
        ctx.ob("AcceptConnection/returns-socket@L%s" % e.line, "MPT", "HTTPServer::AcceptConnection hands out the accepted socket only past the true edge of ClientAllowed(addr)",
               ok, "%s:%s" % (f.file, e.line), {"value": show(e.value), "path_condition": F.fshow(e.formula)[:400]})
    ctx.floor("AcceptConnection socket-returning exits", n, 1)
    # addr is what the accepted socket reported
    sa = call_args(acc[0].expr)
    sets = sites(f, lambda e: e[0] in ("mcall", "vcall") and e[1].endswith("::SetSockAddr") and match(["param", ap[0]], e[2]), P)
    ok = len(sets) == 1 and len(sa) >= 2 and F.key(F.expand(call_args(sets[0].expr)[0], subst)) == F.key(F.expand(sa[0], subst)) and sets[0].line > acc[0].line \
        and not [g for g in sets[0].guards if g.kind != "post" and "Accept" not in show(g.expr)]
    ctx.ob("AcceptConnection/address-source", "PROVENANCE", "the address checked against the allow list is the peer address reported by accept() for this socket", bool(ok), f.where,
           {"SetSockAddr": [show(s.expr) for s in sets], "Accept": show(acc[0].expr)})
    callers = sorted({c[0] for c in cg.call_sites("Sock::Accept") if c[1].endswith("httpserver.cpp")})
    ctx.ob("who-calls/Sock::Accept", "WHO-MAY-CALL", "within the HTTP server only AcceptConnection accepts sockets", callers == [f.q], None, {"callers": callers})
    ac = sorted({c[0] for c in cg.call_sites(f.q)})
    ctx.ob("who-calls/AcceptConnection", "WHO-MAY-CALL", "AcceptConnection is used only by the listening-socket handler", ac == [HS + "SocketHandlerListening"], None, {"callers": ac})
    ca = ctx.used(P.fn(HS + "ClientAllowed"))
    csub = naming(ca, P)
    na = ca.params[0]["n"]
    nt = 0
    for e in exits(ca, P, csub):
        if is_true_ret(e):
            nt += 1
            fb, mp, un = F.bind_atoms(e.formula, {"VALID": "%s.IsValid()" % na, "MATCH": "each(m_allow_subnets).Match(%s)" % na})
            ctx.ob("ClientAllowed/true@L%s" % e.line, "LADDER", "ClientAllowed answers true only for a valid address that matches an entry of m_allow_subnets",
                   F.implies(fb, F.parse("VALID && MATCH")), "%s:%s" % (ca.file, e.line), {"path_condition": F.fshow(e.formula)[:300]})
        elif not is_false_ret(e):
            ctx.ob("ClientAllowed/exit@L%s" % e.line, "LADDER", "ClientAllowed returns only literal verdicts", False, "%s:%s" % (ca.file, e.line), {"value": show(e.value)})
    ctx.floor("ClientAllowed true exits", nt, 1)


# ------------------------------------------------------------------------------------------------
def rpc_auth(ctx, P, cg):
    f = ctx.used(P.fn("HTTPReq_JSONRPC"))
    subst = naming(f, P)
    hdrs = set()
    for st in stmts(f.body):
        if st.get("k") == "decl" and is_expr(st.get("i")):
            v = peel(st["i"])
            if v[0] in ("mcall", "vcall") and v[1].endswith("::GetHeader") and match(["str", "authorization"], peel(call_args(v)[0])) and len(local_values(f, st["n"])) == 1:
                hdrs.add(st["n"])
    ctx.ob("HTTPReq_JSONRPC/authorization-header", "PROVENANCE", "HTTPReq_JSONRPC reads the request's `authorization` header into a local that is never reassigned", len(hdrs) == 1, f.where,
           {"locals": sorted(hdrs)})
    h = sorted(hdrs)[0] if hdrs else "?"
    atoms = {"POST": re.compile(r"\w+\.GetRequestMethod\(\) == HTTPRequestMethod::POST"), "HDR": "%s.first" % h,
             "AUTH": re.compile(r"RPCAuthorized\(%s\.second, \w+(\.\w+)*\)" % re.escape(h))}
    spec = "POST && HDR && AUTH"
    n = 0
    n += len(check_guard(ctx, f, P, call_to("ExecuteHTTPRPC"), spec, atoms, "HTTPReq_JSONRPC/execute",
                         "an RPC call is executed only for a POST request with an authorization header accepted by RPCAuthorized"))
    n += len(check_guard(ctx, f, P, lambda e: e[0] in ("mcall", "vcall") and e[1].endswith("::ReadBody"), spec, atoms, "HTTPReq_JSONRPC/read-body",
                         "the request body is read only after method and credentials were accepted"))
    ctx.floor("HTTPReq_JSONRPC guarded effects", n, 2)
    replies = sites(f, lambda e: e[0] in ("mcall", "vcall") and e[1].endswith("::WriteReply"), P)
    ctx.floor("HTTPReq_JSONRPC replies", len(replies), 4)
    n401 = 0
    for s in replies:
        fb, mp, un = F.bind_atoms(s.formula(subst), atoms)
        a0 = peel(call_args(s.expr)[0])
        is401 = is_expr(a0) and a0[0] == "enum" and a0[1].endswith("HTTP_UNAUTHORIZED")
        n401 += bool(is401)
        ok = is401 or F.implies(fb, F.parse(spec)) or F.implies(fb, F.parse("!POST"))
        ctx.ob("HTTPReq_JSONRPC/reply@L%s" % s.line, "LADDER", "a POST request without accepted credentials is answered HTTP_UNAUTHORIZED (every other reply is for a bad method "
               "or an authorised request)", ok, s.where, {"status": show(a0)})
        if is401:
            ctx.ob("HTTPReq_JSONRPC/401-only-on-failure@L%s" % s.line, "LADDER", "HTTP_UNAUTHORIZED is sent only when the header is missing or the credentials are refused",
                   F.implies(fb, F.parse("!HDR || !AUTH")), s.where)
    callers = sorted({c[0] for c in cg.call_sites("ExecuteHTTPRPC")})
    ctx.ob("who-calls/ExecuteHTTPRPC", "WHO-MAY-CALL", "ExecuteHTTPRPC is called only from HTTPReq_JSONRPC (and the in-process IPC interface)",
           "HTTPReq_JSONRPC" in callers and set(callers) <= {"HTTPReq_JSONRPC", "node::RpcImpl::executeRpc"}, None, {"callers": callers})

    ra = ctx.used(P.fn("RPCAuthorized"))
    rsub = naming(ra, P)
    sp = ra.params[0]["n"]
    nacc = 0
    for e in exits(ra, P, rsub):
        if is_false_ret(e):
            continue
        nacc += 1
        v = peel(e.value) if is_expr(e.value) else None
        okv = is_expr(v) and is_call_to("CheckUserAuthorized", v)
        fb, mp, un = F.bind_atoms(e.formula, {"BASIC": '%s.starts_with("Basic ")' % sp, "DECODED": lambda k: re.fullmatch(r"\w+", k) and k != sp and decoded_local(ra, k, sp),
                                               "NOCOLON": re.compile(r"\w+\.find\(58\) == \d+")})
        okf = F.implies(fb, F.parse("BASIC && DECODED && !NOCOLON"))
        okargs = False
        if okv:
            a = [peel_sv(x) for x in call_args(v)]
            okargs = len(a) == 2 and substr_kind(ra, a[0]) == "user" and substr_kind(ra, a[1]) == "pass"
        ctx.ob("RPCAuthorized/accept@L%s" % e.line, "LADDER", "RPCAuthorized answers only false or CheckUserAuthorized(user, pass), past the `Basic ` prefix, base64 decoding and colon rungs, "
               "with user/pass being the parts before/after the first colon", bool(okv and okf and okargs), "%s:%s" % (ra.file, e.line),
               {"value": show(e.value) if is_expr(e.value) else None, "path_condition": F.fshow(e.formula)[:300]})
    ctx.floor("RPCAuthorized non-false exits", nacc, 1)
    cu = ctx.used(P.fn("CheckUserAuthorized"))
    usub = naming(cu, P)
    up, pp = cu.params[0]["n"], cu.params[1]["n"]
    nt = 0
    for e in exits(cu, P, usub):
        if is_true_ret(e):
            nt += 1
            hashes = {st["n"] for st in stmts(cu.body) if st.get("k") == "decl" and is_expr(st.get("i")) and contains(["call", "HexStr"], st["i"])}
            fb, mp, un = F.bind_atoms(e.formula, {"USER": re.compile(r"TimingResistantEqual\(.*each\(g_rpcauth\)\[0\].*, %s\)" % up),
                                                   "HASH": lambda k: any(re.fullmatch(r"TimingResistantEqual\(%s, each\(g_rpcauth\)\[2\]\)" % hn, k) for hn in hashes)})
            ctx.ob("CheckUserAuthorized/true@L%s" % e.line, "LADDER", "CheckUserAuthorized answers true only if the user name equals an -rpcauth entry's name and the salted HMAC of the "
                   "password equals that entry's hash", F.implies(fb, F.parse("USER && HASH")), "%s:%s" % (cu.file, e.line), {"path_condition": F.fshow(e.formula)[:400]})
        elif not is_false_ret(e):
            ctx.ob("CheckUserAuthorized/exit@L%s" % e.line, "LADDER", "CheckUserAuthorized returns only literal verdicts", False, "%s:%s" % (cu.file, e.line))
    ctx.floor("CheckUserAuthorized true exits", nt, 1)
    hm = sites(cu, lambda e: e[0] in ("mcall", "vcall") and e[1] == "CHMAC_SHA256::Write", P)
    ok = len(hm) == 1 and contains(["param", pp], hm[0].expr) and contains(["ctor", "CHMAC_SHA256"], hm[0].expr)
    ctx.ob("CheckUserAuthorized/hmac-of-password", "PROVENANCE", "the compared hash is the HMAC-SHA256 (keyed with the entry's salt) of the supplied password", ok, cu.where)


def decoded_local(fn, name, src):
    vals = local_values(fn, name)
    return len(vals) == 1 and is_expr(vals[0][1]) and is_call_to("DecodeBase64", peel(vals[0][1]))


def peel_sv(e):
    e = peel(e)
    while is_expr(e) and e[0] in ("mcall", "vcall") and (e[1].endswith("__sv_type") or "operator basic_string_view" in e[1] or "operator __sv_type" in e[1]):
        e = peel(e[2])
    return e


def substr_kind(fn, e):
    """'user' for <s>.substr(0, colon) ; 'pass' for <s>.substr(colon + 1) where colon = <s>.find(':')"""
    if not (is_expr(e) and e[0] == "local"):
        return None
    vals = local_values(fn, e[1])
    if len(vals) != 1:
        return None
    v = peel(vals[0][1])
    if not (is_expr(v) and v[0] in ("mcall", "vcall") and v[1].endswith("::substr")):
        return None
    a = [undefarg(x) for x in call_args(v)]
    def is_colon(x):
        x = peel(x)
        if x[0] == "local":
            vv = local_values(fn, x[1])
            x = peel(vv[0][1]) if len(vv) == 1 else x
        return x[0] in ("mcall", "vcall") and x[1].endswith("::find") and match(["int", 58], peel(call_args(x)[0]))
    if len(a) >= 2 and match(["int", 0], a[0]) and is_colon(a[1]):
        return "user"
    if len(a) >= 1 and a[0][0] == "b" and a[0][1] == "+" and ((is_colon(a[0][2]) and match(["int", 1], a[0][3])) or (is_colon(a[0][3]) and match(["int", 1], a[0][2]))):
        return "pass"
    return None


# ------------------------------------------------------------------------------------------------
def size_rungs(ctx, P):
    mh, mb = P.const("http_bitcoin::MAX_HEADERS_SIZE"), P.const("http_bitcoin::MAX_BODY_SIZE")
    ctx.ob("const/http-limits", "CONST", "MAX_HEADERS_SIZE == 8192 and MAX_BODY_SIZE == 32 MiB", mh == 8192 and mb == 32 * 1024 * 1024, None, {"values": [mh, mb]})
    rd = ctx.used(P.fn("http_bitcoin::HTTPHeaders::Read"))
    rsub = naming(rd, P)
    OVER = (re.compile(r"m_consumed \+ \(\w+\.Consumed\(\) - .+\) < %d" % (mh + 1)), False)
    n = len(check_guard(ctx, rd, P, lambda e: callee(e) == "http_bitcoin::HTTPHeaders::Write", "!OVER", {"OVER": OVER}, "HTTPHeaders::Read/store",
                        "a header line is stored only if the header bytes consumed so far do not exceed MAX_HEADERS_SIZE"))
    thr = [e for e in exits(rd, P, rsub) if e.kind == "throw"]
    hit = []
    for e in thr:
        fb, mp, un = F.bind_atoms(e.own_formula(set()), {"OVER": OVER, "LINE": re.compile(r"\w+")})
        if "OVER" in mp.values() and F.implies(F.parse("OVER && LINE"), fb):
            hit.append(e)
    ctx.ob("HTTPHeaders::Read/oversize-throws", "LADDER", "HTTPHeaders::Read throws as soon as the consumed header bytes exceed MAX_HEADERS_SIZE", len(hit) >= 1, rd.where)
    for e in exits(rd, P, rsub):
        if is_true_ret(e):
            fb, mp, un = F.bind_atoms(e.formula, {"OVER": OVER})
            ctx.ob("HTTPHeaders::Read/complete@L%s" % e.line, "LADDER", "the headers section is reported complete only within MAX_HEADERS_SIZE", F.implies(fb, F.parse("!OVER")),
                   "%s:%s" % (rd.file, e.line))
    lb = ctx.used(P.fn("http_bitcoin::HTTPRequest::LoadBody"))
    lsub = naming(lb, P)
    CH = re.compile(r'"chunked" == ToLower\(.*\)')
    CLOK = re.compile(r"\*ToIntegral\(.+\) < %d" % (mb + 1))
    apps = sites(lb, lambda e: e[0] == "b" and e[1] == "+=" and match([".", ["this"], "http_bitcoin::HTTPRequest::m_body"], e[2]), P)
    ctx.floor("LoadBody body appends", len(apps), 2)
    nplain = 0
    for s in apps:
        fb, mp, un = F.bind_atoms(s.formula(lsub), {"CHUNKED": CH, "CLOK": CLOK})
        cex = F.counterexample(fb, F.parse("CHUNKED || CLOK"))
        nplain += 0 if F.implies(fb, F.parse("CHUNKED")) else 1
        ctx.ob("LoadBody/append@L%s" % s.line, "MPT", "outside chunked transfer, body bytes are stored only if the announced Content-Length is within MAX_BODY_SIZE", cex is None, s.where,
               None if cex is None else {"counterexample": cex})
    ctx.floor("LoadBody Content-Length appends", nplain, 1)
    # chunked: own guard + position of the throwing rung
    big = [e for e in exits(lb, P, lsub) if e.kind == "throw" and is_expr(e.value) and "ContentTooLargeError" in show(e.value)]
    ok = False
    detail = {}
    for e in big:
        inner = [g for g in e.guards if g.kind not in ("post", "loop", "case")]
        if not inner:
            continue
        gf = inner[-1].formula(lsub)
        fb, mp, un = F.bind_atoms(gf, {"BODYBIG": ("m_body.size() < %d" % (mb + 1), False), "CHUNKBIG": "%d - m_body.size() < *m_chunk_size" % mb})
        if set(mp.values()) == {"BODYBIG", "CHUNKBIG"} and F.equivalent(fb, F.parse("BODYBIG || CHUNKBIG")):
            assigns = sites(lb, lambda x: match(["b", "=", [".", ["this"], "http_bitcoin::HTTPRequest::m_chunk_size"]], x) and not match(["b", "=", ANY, ["ctor", ANY]], x), P)
            parse = [a for a in assigns if contains(["call", "ToIntegral"], a.expr)]
            chunk_apps = [s for s in apps if F.implies(F.bind_atoms(s.formula(lsub), {"CHUNKED": CH})[0], F.parse("CHUNKED"))]
            same_loop = bool(e.loops) and all(s.loops and s.loops[0] is e.loops[0] for s in chunk_apps)
            ok = len(parse) == 1 and parse[0].line < e.line and bool(chunk_apps) and all(e.line < s.line for s in chunk_apps) and same_loop
            detail = {"throw_line": e.line, "parse_line": [a.line for a in parse], "append_lines": [s.line for s in chunk_apps]}
    ctx.ob("LoadBody/chunk-size-rung", "LADDER", "right after a chunk size is parsed, LoadBody throws ContentTooLargeError if the body is already over MAX_BODY_SIZE or the chunk would "
           "exceed the remaining allowance, before any byte of that chunk is stored (same loop, earlier position)", ok, lb.where, detail)
    cl = [e for e in big if any(CLOK.fullmatch(k) for k in F.atoms(e.own_formula(set())))]
    ctx.ob("LoadBody/content-length-rung", "LADDER", "a Content-Length above MAX_BODY_SIZE throws ContentTooLargeError", len(cl) >= 1, lb.where)


# ------------------------------------------------------------------------------------------------
def read_request_buffer_blind(ctx, P):
    """How much of the byte stream happens to be buffered when ReadRequest runs depends on how the stream was delivered, so it
    must not decide anything there: the only test ReadRequest itself makes on the receive buffer is `empty()` (nothing to parse);
    every size limit is applied by the parsing helpers to what they consume (header section, body length)."""
    qs = [q for q in P.funcs if q.endswith("HTTPRemoteClient::ReadRequest")]
    if len(qs) != 1:
        raise AnalysisBroken("HTTPRemoteClient::ReadRequest not found")
    f = ctx.used(P.fn(qs[0]))
    sub = naming(f, P)
    bad = []
    n = 0
    for st in stmts(f.body):
        c = st.get("c")
        if st.get("k") in ("if", "while", "for", "do", "switch") and is_expr(c):
            for k in F.atoms(F.to_formula(c, sub)):
                if "m_recv_buffer" in k:
                    n += 1
                    if not re.fullmatch(r"(this->)?m_recv_buffer\.empty\(\)", k):
                        bad.append((st.get("l"), k[:120]))
    ctx.floor("ReadRequest tests of the receive buffer", n, 1)
    ctx.ob("ReadRequest/buffer-size-blind", "PROVENANCE", "ReadRequest decides nothing on the amount of buffered data: its only own test of the receive buffer is empty() "
           "(size limits are applied by LoadControlData/LoadHeaders/LoadBody to what they parse)", not bad, f.where, {"tests": bad} if bad else None)
    calls = [s_ for s_ in sites(f, lambda e: e[0] in ("mcall", "vcall") and str(e[1]).rsplit("::", 1)[-1] in ("LoadControlData", "LoadHeaders", "LoadBody"), P)]
    same = {F.key(call_args(s_.expr)[0]) for s_ in calls if call_args(s_.expr)}
    ctx.ob("ReadRequest/one-reader", "PROVENANCE", "the three parsing stages read through one LineReader over the receive buffer, and exactly what it consumed is erased afterwards",
           len(calls) == 3 and len(same) == 1 and bool(sites(f, lambda e: e[0] in ("mcall", "vcall") and str(e[1]).endswith("::erase") and "m_recv_buffer" in show(e) and "Consumed" in show(e), P)),
           f.where, {"readers": sorted(same)})
