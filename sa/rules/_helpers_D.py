"""Helpers shared by the mempool / policy rule modules (C22 C23 C26 C27 C28 C29).

Nothing in here decides a property; these are small adapters on top of sa.engine:

* inline_condvars(fn): `if (const auto err{Call(...)}) ...` introduces a condition variable; several such ifs in one
  function usually reuse the same name (err_string), which makes their atoms collide (`err_string && !err_string`).
  The copy returned here has every use of a condition variable inside its own `if` replaced by the variable's
  initialiser, so the atom becomes the call itself (`PaysForRBF(a, b, c, d, e)`).
* optional / util::Result / MempoolAcceptResult exit classifiers.
* accept_implies(): "every accepting exit's path condition implies SPEC" as one obligation per exit.
* site_implies(): check_guard for a pre-computed list of sites.
"""
import copy
import re

from sa.engine.api import *
from sa.engine.ir import Function


def _subst_local(x, name, repl):
    if isinstance(x, list):
        if len(x) == 2 and x[0] == "local" and x[1] == name:
            return copy.deepcopy(repl)
        return [_subst_local(y, name, repl) for y in x]
    if isinstance(x, dict):
        return {k: (_subst_local(v, name, repl) if k != "var" else v) for k, v in x.items()}
    return x


def strip_wrappers(e):
    """`const T{Call()}` / optional copy constructors around the initialiser are noise for the atom."""
    while is_expr(e) and e[0] in ("ctor", "init", "cast") and len(e) == 3 and is_expr(e[2]) and (
            e[0] != "ctor" or e[1] in ("std::optional", "util::Result", "std::pair")):
        e = e[2]
    return e


def inline_condvars(fn, inits=False):
    """Copy of fn in which uses of `if (T v{init})` condition variables are replaced by `init` inside that if.
    With inits=True the same is done for `if (T v{init}; cond)` init-statements."""
    d = copy.deepcopy(fn.d)
    f2 = Function(d, fn.unit)
    f2.simp()

    def walk(s):
        if not isinstance(s, dict):
            return
        if s.get("k") == "if" and isinstance(s.get("var"), dict) and s["var"].get("n") and is_expr(s["var"].get("i")):
            n, init = s["var"]["n"], strip_wrappers(s["var"]["i"])
            for k in ("c", "t", "e"):
                if s.get(k) is not None:
                    s[k] = _subst_local(s[k], n, init)
        if inits and s.get("k") == "if" and isinstance(s.get("init"), dict) and s["init"].get("k") == "decl" and s["init"].get("n") and is_expr(s["init"].get("i")):
            n, init = s["init"]["n"], strip_wrappers(s["init"]["i"])
            for k in ("c", "t", "e"):
                if s.get(k) is not None:
                    s[k] = _subst_local(s[k], n, init)
        for k in ("s", "h"):
            for x in s.get(k) or []:
                walk(x)
        for k in ("t", "e", "b", "init"):
            if isinstance(s.get(k), dict):
                walk(s[k])

    walk(f2.body)
    return f2


def is_nullopt(v):
    return is_expr(v) and (match(["global", "std::nullopt"], v) or (v[0] in ("ctor", "init") and len(v) == 3 and is_nullopt(v[2])))


def is_nullopt_ret(e):
    """`return std::nullopt;` of a function returning std::optional<error>."""
    return e.kind == "ret" and is_nullopt(e.value)


def is_error_ret(e):
    return e.kind == "ret" and not is_nullopt(e.value)


def first_str(v):
    """First string literal inside an expression (reject reason / error text)."""
    for x in subexprs(v):
        if x[0] == "str":
            return x[1]
    return None


def result_kind(v):
    """'VALID' / 'INVALID' / 'MEMPOOL_ENTRY' / ... for a MempoolAcceptResult factory call inside v, else None."""
    m = {"MempoolAcceptResult::Success": "VALID", "MempoolAcceptResult::Failure": "INVALID", "MempoolAcceptResult::FeeFailure": "INVALID",
         "MempoolAcceptResult::MempoolTx": "MEMPOOL_ENTRY", "MempoolAcceptResult::MempoolTxDifferentWitness": "DIFFERENT_WITNESS"}
    if not is_expr(v):
        return None
    for x in subexprs(v):
        c = callee(x)
        if c in m:
            return m[c]
    return None


def implies_ob(ctx, oid, rule, text, formula, spec_text, atoms, where):
    f, mapping, unmatched = F.bind_atoms(formula, atoms)
    spec = F.parse(spec_text)
    cex = F.counterexample(f, spec)
    ok = cex is None
    ctx.ob(oid, rule, text, ok, where,
           None if ok else {"path_condition": F.fshow(formula)[:1500], "spec": spec_text, "binding": mapping,
                            "unbound_code_atoms": unmatched[:15], "counterexample": cex})
    return ok


def site_implies(ctx, ss, subst, spec_text, atoms, oid, text, rule="MPT"):
    for s in ss:
        implies_ob(ctx, "%s@L%s" % (oid, s.line), rule, "%s [line %s: path condition => %s]" % (text, s.line, spec_text),
                   s.formula(subst), spec_text, atoms, s.where)
    return ss


def loops_over(fn, P, subst, range_re):
    """foreach / for loops of fn whose loop_range_key fully matches range_re."""
    out = []
    for st in stmts(fn.body):
        if st.get("k") in ("foreach", "for", "while"):
            if re.fullmatch(range_re, loop_range_key(st, subst)):
                out.append(st)
    return out


def body_exprs(loop):
    return [(st, x) for st, e in all_exprs(loop.get("b")) for x in subexprs(e)]


def field_writes(fn, P, field_suffix):
    """Sites writing (assignment / compound assignment / ++ --) a member whose qualified name ends with field_suffix."""
    def pred(e):
        if e[0] == "b" and e[1] in ASSIGN_OPS and is_expr(e[2]) and e[2][0] == "." and e[2][2].endswith(field_suffix):
            return True
        if e[0] == "u" and e[1] in ("++", "--", "post++", "post--") and is_expr(e[2]) and e[2][0] == "." and e[2][2].endswith(field_suffix):
            return True
        return False
    return sites(fn, pred, P)


def accept_implies(ctx, fn, P, is_accept, spec_text, atoms, oid, text, rule="LADDER", min_accepts=1, subst=None):
    """Every exit of fn satisfying is_accept has a path condition implying the spec formula."""
    subst = naming(fn, P) if subst is None else subst
    acc = [e for e in exits(fn, P, subst) if is_accept(e)]
    if len(acc) < min_accepts:
        raise AnalysisBroken("%s: expected >= %d accepting exits for %s, found %d" % (fn.q, min_accepts, oid, len(acc)))
    for e in acc:
        implies_ob(ctx, "%s@L%s" % (oid, e.line), rule, "%s [%s, exit at line %s: path condition => %s]" % (text, fn.q, e.line, spec_text),
                   e.formula, spec_text, atoms, "%s:%s" % (fn.file, e.line))
    return acc


def loop_is_total(loop):
    """The loop body contains no break / continue / return / throw: every element is processed completely."""
    return not any(st.get("k") in ("break", "continue", "ret", "throw", "goto") for st in stmts(loop.get("b")))


def in_loop_guards(site, loop):
    """Guards of a site that lie inside the given loop (conditions the element must satisfy to reach the site)."""
    lo = loop.get("l")
    hi = max([x.get("l") or 0 for x in stmts(loop)] + [lo])
    return [g for g in site.guards if g.kind in ("if", "sc", "case", "post") and g.line is not None and lo <= g.line <= hi
            and not (g.kind == "post" and g.line == lo)]


def uniq_sites(ss):
    """inline_condvars leaves the initialising call in the condition variable's initialiser, in the condition and at every use of the
    variable inside the if: keep the first occurrence of each textually identical call."""
    seen, out = set(), []
    for s in ss:
        e = s.expr
        k = (callee(e), tuple(show(a) for a in call_args(e))) if e is not None and callee(e) else (s.line, show(e) if e is not None else id(s.stmt))
        if k not in seen:
            seen.add(k)
            out.append(s)
    return out


def done_atom(loop):
    return F.atom("done(loop@%s)" % loop.get("l"))


def xkey(e, subst):
    """Canonical text of an expression with single-definition locals / loop variables expanded."""
    return F.key(F.expand(e, subst))


def site_subst(subst, site):
    """naming() maps loop variables by *name*; two range-for loops reusing a variable name over different ranges collide.
    This returns the substitution valid at `site`: enclosing foreach variables are re-bound to each(<their own range>)."""
    out = dict(subst)
    for lp in site.loops:
        v = lp.get("var") if lp.get("k") == "foreach" else None
        if isinstance(v, dict):
            each = ["each", lp.get("range")]
            if v.get("n"):
                out[v["n"]] = each
            for i, b in enumerate(v.get("binds") or []):
                out[b] = ["bind%d" % i, each]
    return out


def resolve_lambda(fn, e):
    """`["lambda", q]` itself, or the lambda held by a local that is defined exactly once (a *named* lambda passed to an
    algorithm): `const auto pred = [..](..){..}; std::any_of(b, e, pred)`.  Copy-constructor wrappers are looked through."""
    e = strip_wrappers(e) if is_expr(e) else e
    seen = set()
    while is_expr(e) and e[0] == "local" and e[1] not in seen:
        seen.add(e[1])
        vals = local_values(fn, e[1])
        if len(vals) != 1 or not is_expr(vals[0][1]):
            return None
        e = vals[0][1]
        while is_expr(e) and e[0] in ("ctor", "init", "cast") and len(e) == 3 and is_expr(e[2]):
            e = e[2]
    return e if is_expr(e) and e[0] == "lambda" else None


def index_loop(loop, subst=None):
    """(range text, index variable or None) of a loop over a whole container, in either spelling:
    `for (x : R)` / an engine-normalised counting loop -> ("R", i or None); `for (T i = 0; i < R.size(); ++i)` -> ("R", "i")."""
    key = loop_range_key(loop, subst)
    ivar = None
    if loop.get("k") == "for" and isinstance(loop.get("init"), dict):
        ivar = loop["init"].get("n")
    m = re.fullmatch(r"each\((.+)\)", key)
    if m:
        return m.group(1), ivar
    m = re.fullmatch(r"for\(0; (\w+) < (.+)\.size\(\)\)", key)
    if m:
        return m.group(2), m.group(1)
    return None, ivar
