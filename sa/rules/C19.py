"""C19 Pruning never deletes data the node still needs (DESIGN §3 C19)."""
import re

from sa.engine.api import *
from sa.engine import callgraph
from sa.rules._helpers_B import assign_to_field, mcall_named, must_before

UNITS = ["node/blockstorage.cpp", "validation.cpp"]
EXPLANATION = ("CALLGRAPH who-may-call over the whole program: only FindFilesToPrune/FindFilesToPruneManual call PruneOneBlockFile, only FlushStateToDisk "
               "(and the start-up sweep of files already marked empty) calls UnlinkPrunedFiles, only FlushStateToDisk calls the finders, prune-lock heights "
               "are written only by the index and DisconnectTip. LADDER (guard implication per loop iteration) in both finders: a file is marked pruned / "
               "queued for unlinking only if it is non-empty, its highest block is <= prune_end and its lowest block is >= prune_start, where the pair is "
               "chain.GetPruneRange(height parameter). GetPruneRange is compared with its specification (prune_end = min(arg, max(0, tip - 288)), "
               "prune_start = snapshot base + 1 exactly while an assumeutxo chainstate is unvalidated). VALUE-FLOW in FlushStateToDisk: the height handed to "
               "the finders is the running minimum over all prune locks of (height_first - k), k >= 0, the loop skips only locks at INT_MAX and cannot "
               "break, and the unlinked set is the one the finders filled. ORDER in DisconnectTip: prune locks above the new tip are moved back before "
               "the flush that may prune and before the tip moves. The automatic finder stops early only when usage+buffer < target and skips only "
               "empty or out-of-range files.")
ASSUMPTIONS = ["CBlockFileInfo::nHeightFirst/nHeightLast bound the heights of all blocks in the file (maintained by AddBlock)",
               "calls through std::function/virtual interfaces are resolved as in the C36 call graph"]
CLAIM = dict(
    technique="static analysis: whole-program who-may-call/who-may-write, per-iteration guard implication (truth tables over canonical atoms), "
              "specification twin of GetPruneRange, value-flow of the prune height, must-precede flow",
    text="For every path: a block file is marked pruned and unlinked only inside the two finders, only if all its blocks lie in "
         "[GetPruneRange().first, min(height limit, tip-288)], the height limit being bounded by every prune lock; unvalidated-snapshot history is excluded "
         "by GetPruneRange; a reorg moves locks back before anything can be pruned; the automatic finder does not stop early. Unit tests use one fixed "
         "file layout; this covers all layouts because the guards are checked symbolically.",
    note="Not decided: the liveness half beyond the loop shape; that nHeightFirst/nHeightLast are maintained correctly. Observation recorded in evidence: "
         "FlushStateToDisk clamps the lock-derived height with std::max(1, .), so a lock with height_first <= 11 does not protect block 1 (only reachable "
         "when blk00000 holds nothing above height 1, e.g. -fastprune layouts).",
    ref="DESIGN.md §3 C19")

BM = "node::BlockManager::"
FINDERS = [BM + "FindFilesToPrune", BM + "FindFilesToPruneManual"]


def _inner(site, line):
    """Guards of the site that lie inside the loop statement starting at `line`."""
    return [g for g in site.guards if (g.line or 0) >= line]


def _loop_of(fn, site, kinds=("for", "foreach", "while")):
    best = None
    for st in stmts(fn.body):
        if st.get("k") in kinds:
            ls = [x.get("l") or 0 for x in stmts(st)]
            if st.get("l") <= site.line <= max(ls):
                if best is None or st.get("l") >= best.get("l"):
                    best = st
    return best


def callgraph_obs(ctx):
    cg = callgraph.load_all()
    ctx.note("call graph: %d functions from %d units" % (len(cg.funcs), cg.nunits))
    for q in [BM + "PruneOneBlockFile", BM + "UnlinkPrunedFiles"] + FINDERS:
        if not cg.defined(q):
            raise AnalysisBroken("%s not found in the program" % q)

    def who(q, allowed, text):
        callers = sorted({c[0] for c in cg.call_sites(q)})
        ok = bool(callers) and set(callers) <= set(allowed)
        ctx.ob("who-calls/%s" % q.rsplit("::", 1)[-1], "WHO-MAY-CALL", text, ok, None, {"callers": callers, "allowed": sorted(allowed)})
    who(BM + "PruneOneBlockFile", FINDERS, "PruneOneBlockFile (clears BLOCK_HAVE_DATA/UNDO and the file info) is called only by the two prune finders")
    who(BM + "UnlinkPrunedFiles", ["Chainstate::FlushStateToDisk", BM + "ScanAndUnlinkAlreadyPrunedFiles"],
        "UnlinkPrunedFiles is called only by FlushStateToDisk and the start-up sweep of already-pruned files")
    for q in FINDERS:
        who(q, ["Chainstate::FlushStateToDisk"], "%s is called only by Chainstate::FlushStateToDisk (which bounds the height by the prune locks)" % q)
    ws = sorted({w[0] for w in cg.writers("node::PruneLockInfo::height_first")})
    ok = set(ws) <= {"BaseIndex::SetBestBlockIndex", "Chainstate::DisconnectTip", "node::PruneLockInfo::PruneLockInfo"} and "Chainstate::DisconnectTip" in ws
    ctx.ob("who-writes/height_first", "WHO-MAY-WRITE", "a prune lock's height_first is written only by the index that owns it and by DisconnectTip (moving it back)",
           ok, None, {"writers": ws})
    ers = sorted({c[0] for c in cg.field_calls(BM + "m_prune_locks", "erase")} | {c[0] for c in cg.field_calls(BM + "m_prune_locks", "clear")})
    ctx.ob("who-erases/m_prune_locks", "WHO-MAY-WRITE", "prune locks are removed only by BlockManager::DeletePruneLock", set(ers) <= {BM + "DeletePruneLock"}, None, {"erasers": ers})


def finders(ctx, P):
    for q in FINDERS:
        f = ctx.used(P.fn(q))
        short = q.rsplit("::", 1)[-1]
        sub = naming(f, P)
        # the range comes from chain.GetPruneRange(<height parameter>)
        gr = sites(f, mcall_named("Chainstate::GetPruneRange"), P)
        ok = len(gr) == 1 and match(["param", "chain"], call_obj(gr[0].expr)) and call_args(gr[0].expr)[0][0] == "param" \
            and call_args(gr[0].expr)[0][1] in [p["n"] for p in f.params if p.get("ty") == "int"]
        ctx.ob("%s/range-source" % short, "PROVENANCE", "%s takes the prunable range from chain.GetPruneRange(<its height parameter>)" % q, ok, f.where)
        if not ok:
            continue
        rng = re.escape(show(gr[0].expr))
        ps = sites(f, mcall_named(BM + "PruneOneBlockFile"), P)
        ins = sites(f, lambda e: is_expr(e) and e[0] == "mcall" and e[1] == "std::set::insert" and match(["param", "setFilesToPrune"], e[2]), P)
        ctx.floor("%s prune sites" % short, min(len(ps), len(ins)), 1)
        for s, what, oid in [(x, "marked pruned (PruneOneBlockFile)", "prune") for x in ps] + [(x, "queued for unlinking", "queue") for x in ins]:
            arg = call_args(s.expr)[0]
            n = re.escape(show(arg))
            info = r"m_blockfile_info\[%s\]" % n
            atoms = {"NONEMPTY": re.compile(info + r"\.nSize"),
                     "ABOVE": re.compile(r"(\(unsigned int\))?(bind1\(%s\)|%s\.second) < %s\.nHeightLast" % (rng, rng, info)),
                     "BELOW": re.compile(r"%s\.nHeightFirst < (\(unsigned int\))?(bind0\(%s\)|%s\.first)" % (info, rng, rng))}
            lp = _loop_of(f, s)
            if lp is None:
                raise AnalysisBroken("%s: prune site outside a loop" % q)
            fm = F.mk_and([g.formula(sub) for g in _inner(s, lp.get("l"))])
            fb, mp, un = F.bind_atoms(fm, atoms)
            cex = F.counterexample(fb, F.parse("NONEMPTY && !ABOVE && !BELOW"))
            ctx.ob("%s/%s-guard@L%s" % (short, oid, s.line), "LADDER",
                   "in %s a block file is %s only if it is non-empty, its highest block is <= GetPruneRange().second and its lowest block is >= "
                   "GetPruneRange().first" % (q, what), cex is None, s.where,
                   None if cex is None else {"iteration_guard": F.fshow(fm)[:700], "binding": mp, "unbound": un[:8], "counterexample": cex})
            # the loop variable is not changed between the guard and the effect
            wr = [x for st_, e in all_exprs(lp.get("b")) for x in subexprs(e) if x[0] == "b" and x[1] in ASSIGN_OPS and x[2] == arg]
            ctx.ob("%s/%s-same-file@L%s" % (short, oid, s.line), "PROVENANCE", "the file number tested is the one acted upon (not reassigned inside the loop body)",
                   not wr and arg[0] == "local", s.where)
    # automatic pruning: early exits of the scan
    f = P.fn(FINDERS[0])
    sub = naming(f, P)
    ps = sites(f, mcall_named(BM + "PruneOneBlockFile"), P)
    lp = _loop_of(f, ps[0])
    lo, hi = lp.get("l"), max(x.get("l") or 0 for x in stmts(lp))
    n = re.escape(show(call_args(ps[0].expr)[0]))
    info = r"m_blockfile_info\[%s\]" % n
    rng = re.escape(show(sites(f, mcall_named("Chainstate::GetPruneRange"), P)[0].expr))
    atoms = {"NONEMPTY": re.compile(info + r"\.nSize"), "ABOVE": re.compile(r"(\(unsigned int\))?(bind1\(%s\)|%s\.second) < %s\.nHeightLast" % (rng, rng, info)),
             "BELOW": re.compile(r"%s\.nHeightFirst < (\(unsigned int\))?(bind0\(%s\)|%s\.first)" % (info, rng, rng)),
             "UNDER": lambda k_: k_ in under}
    # the stop test is the negation of the test that started the scan: `usage + buffer < target` (names are free)
    outer = [g for g in ps[0].guards if (g.line or 0) < lo and g.kind == "if"]
    under = set()
    for g in outer:
        gf = g.formula(sub)
        for a_ in F.atoms(gf):
            if re.fullmatch(r".+ \+ .+ < .+", a_) and F.implies(gf, F.mk_not(F.atom(a_))):
                under.add(F.strip_stale(a_))    # the loop lowers the usage: inside it the same test reads the current value
    if not under:
        raise AnalysisBroken("FindFilesToPrune: the usage-vs-target test enclosing the scan was not recognised")
    nb = 0
    for s in stmt_sites(f, lambda st: st.get("k") in ("break", "continue", "ret", "throw"), P):
        if not (lo <= (s.line or 0) <= hi):
            continue
        fm = F.mk_and([g.formula(sub) for g in _inner(s, lo)])
        fb, mp, un = F.bind_atoms(fm, atoms)
        k = s.stmt.get("k")
        if k == "continue":
            spec, text = "!NONEMPTY || ABOVE || BELOW", "FindFilesToPrune skips a file only if it is empty or not entirely inside the prunable range"
        else:
            nb += 1
            spec, text = "UNDER", "FindFilesToPrune stops scanning early only when usage + buffer is below the target"
        cex = F.counterexample(fb, F.parse(spec))
        ctx.ob("FindFilesToPrune/%s@L%s" % (k, s.line), "LADDER", text, cex is None, s.where,
               None if cex is None else {"iteration_guard": F.fshow(fm)[:500], "counterexample": cex})
    ctx.floor("FindFilesToPrune early-stop sites", nb, 1)
    ok = lp.get("k") == "for" and match(["b", "<", ["local", ANY], ["mcall", BM + "MaxBlockfileNum"]], lp.get("c")) and \
        is_expr((lp.get("init") or {}).get("i")) and match(["int", 0], lp["init"]["i"])
    ctx.ob("FindFilesToPrune/scan-range", "LADDER", "the automatic prune scan visits every block file number from 0 up to MaxBlockfileNum()", ok, "%s:%s" % (f.file, lo))
    acc = sites(f, lambda e: match(["b", "-=", ["local", ANY]], e) and any(re.search(r"\b%s\b" % re.escape(e[2][1]), u_) for u_ in under), P)
    ok = len(acc) == 1 and lo <= acc[0].line <= hi and acc[0].line > ps[0].line
    ctx.ob("FindFilesToPrune/usage-accounting", "LADDER", "the usage compared with the target is reduced for each file pruned (so the stop test sees the freed space)", ok, f.where)
    # start-up sweep: only files already marked empty
    sw = ctx.used(P.fn(BM + "ScanAndUnlinkAlreadyPrunedFiles"))
    ins = sites(sw, lambda e: is_expr(e) and e[0] == "mcall" and e[1] == "std::set::insert", P)
    ctx.floor("ScanAndUnlinkAlreadyPrunedFiles insert sites", len(ins), 1)
    ssub = naming(sw, P)
    for s in ins:
        n = re.escape(show(call_args(s.expr)[0]))
        fb, mp, un = F.bind_atoms(s.formula(ssub), {"EMPTY": (re.compile(r"m_blockfile_info\[%s\]\.nSize" % n), False)})
        cex = F.counterexample(fb, F.parse("EMPTY"))
        ctx.ob("ScanAndUnlinkAlreadyPrunedFiles/only-empty@L%s" % s.line, "LADDER", "the start-up sweep unlinks only files whose recorded size is 0 (already pruned)", cex is None, s.where)
    us = sites(sw, mcall_named(BM + "UnlinkPrunedFiles"), P)
    sets = {show(call_obj(s.expr)) for s in ins}
    ok = len(us) == 1 and {show(call_args(us[0].expr)[0])} == sets
    ctx.ob("ScanAndUnlinkAlreadyPrunedFiles/set", "PROVENANCE", "the start-up sweep unlinks exactly the set it collected", ok, sw.where)


def prune_range(ctx, P):
    f = ctx.used(P.fn("Chainstate::GetPruneRange"))
    k = P.const("MIN_BLOCKS_TO_KEEP")
    ctx.ob("const/MIN_BLOCKS_TO_KEEP", "CONST", "MIN_BLOCKS_TO_KEEP == 288", k == 288, None, {"value": k})
    b = P.const("PRUNE_LOCK_BUFFER")
    ctx.ob("const/PRUNE_LOCK_BUFFER", "CONST", "PRUNE_LOCK_BUFFER >= 0", b is not None and b >= 0, None, {"value": b})
    sub = naming(f, P)
    defs = {st["n"]: st.get("i") for st in stmts(f.body) if st.get("k") == "decl" and is_expr(st.get("i"))}
    height = ["mcall", "CChain::Height", [".", ["this"], "Chainstate::m_chain"]]

    def resolve(e):
        while is_expr(e) and e[0] == "local" and e[1] in defs and len(local_values(f, e[1])) == 1:
            e = defs[e[1]]
        return e

    def is_max_prune(e):
        e = resolve(e)
        if not (is_expr(e) and e[0] == "call" and e[1] == "std::max" and len(call_args(e)) == 2):
            return False
        a, b_ = resolve(e[2]), resolve(e[3])
        for x, y in ((a, b_), (b_, a)):
            y = y[2] if is_expr(y) and y[0] == "cast" else y
            if match(["int", 0], x) and match(["b", "-", height, ["int", 288]], y):
                return True
        return False

    def is_end(e):
        e = resolve(e)
        if not (is_expr(e) and e[0] == "call" and e[1] == "std::min" and len(e) == 4):
            return False
        return any(match(["param", "last_height_can_prune"], x) and is_max_prune(y) for x, y in ((e[2], e[3]), (e[3], e[2])))

    n = 0
    start_local = None
    for e in exits(f, P, sub):
        v = e.value
        pair = v if is_expr(v) and v[0] in ("ctor", "init") else None
        vals = [x for x in (pair or [])[2:] if is_expr(x)]
        where = "%s:%s" % (f.file, e.line)
        if pair is None or len(vals) != 2:
            ctx.ob("GetPruneRange/exit@L%s" % e.line, "TWIN", "GetPruneRange returns a (start, end) pair", False, where, {"value": show(v) if is_expr(v) else None})
            continue
        n += 1
        if match(["int", 0], vals[0]) and match(["int", 0], vals[1]):
            # the empty range [0, 0]: prunes nothing above genesis height 0; allowed on any path
            ctx.ob("GetPruneRange/empty-range@L%s" % e.line, "TWIN", "GetPruneRange may return the empty range {0, 0}", True, where)
            continue
        ok_end = is_end(vals[1])
        ctx.ob("GetPruneRange/end@L%s" % e.line, "TWIN", "GetPruneRange's upper bound is min(last_height_can_prune, max(0, tip height - MIN_BLOCKS_TO_KEEP)): "
               "nothing within the last 288 blocks of the tip or above the caller's limit is prunable", ok_end, where, None if ok_end else {"end": show(resolve(vals[1]))})
        if vals[0][0] == "local":
            start_local = vals[0][1]
        else:
            ctx.ob("GetPruneRange/start@L%s" % e.line, "TWIN", "GetPruneRange's lower bound is a local computed from the snapshot state", False, where)
    ctx.floor("GetPruneRange exits", n, 2)
    if start_local is None:
        raise AnalysisBroken("GetPruneRange: lower-bound local not found")
    vals = local_values(f, start_local)
    base1 = lambda v: match(["b", "+", [".", ANY, "CBlockIndex::nHeight"], ["int", 1]], v) and contains(["mcall", "Chainstate::SnapshotBase"], v)
    ok = len(vals) == 2 and sorted([match(["int", 0], v) and 1 or 0 for _, v in vals]) == [0, 1] and any(base1(v) for _, v in vals)
    ctx.ob("GetPruneRange/start-values", "TWIN", "the lower bound is 0 or SnapshotBase()->nHeight + 1", ok, f.where, {"values": [(l, show(v)) for l, v in vals]})
    ss = sites(f, lambda e: is_expr(e) and e[0] == "b" and e[1] == "=" and match(["local", start_local], e[2]), P)
    atoms = {"SNAP": "m_from_snapshot_blockhash", "VALIDATED": re.compile(r"m_assumeutxo == Assumeutxo::VALIDATED|Assumeutxo::VALIDATED == m_assumeutxo"),
             "EMPTYCHAIN": "m_chain.Height() < 1"}
    for s in ss:
        fb, mp, un = F.bind_atoms(s.formula(sub), atoms)
        spec = F.parse("SNAP && !VALIDATED && !EMPTYCHAIN")
        c1, c2 = F.counterexample(fb, spec), F.counterexample(spec, fb)
        top = not s.loops and s.stmt in _top_level_if_bodies(f)
        ok = c1 is None and c2 is None and not un and top
        ctx.ob("GetPruneRange/snapshot-guard@L%s" % s.line, "TWIN",
               "the lower bound is raised to snapshot base + 1 exactly when the chainstate was created from a snapshot that is not yet validated "
               "(blocks needed by background validation are never prunable through this chainstate)", ok, s.where,
               None if ok else {"guard": F.fshow(s.formula(sub)), "unbound": un, "counterexample": c1 or c2})
    ctx.floor("GetPruneRange snapshot assignments", len(ss), 1)


def _top_level_if_bodies(f):
    out = []
    for st in f.body.get("s", []):
        if st.get("k") == "if" and st.get("e") is None:
            t = st.get("t")
            out += t.get("s", []) if t.get("k") == "seq" else [t]
    return out


def _offset(e, base_pred):
    """e == base + k for an integer k → k, else None."""
    if base_pred(e):
        return 0
    if is_expr(e) and e[0] == "b" and e[1] in ("-", "+") and is_expr(e[3]) and e[3][0] == "int":
        k = _offset(e[2], base_pred)
        return None if k is None else (k - e[3][1] if e[1] == "-" else k + e[3][1])
    return None


def flush_value_flow(ctx, P):
    f = ctx.used(P.fn("Chainstate::FlushStateToDisk"))
    sub = naming(f, P)
    calls = [(s, 1) for s in sites(f, mcall_named(FINDERS[0]), P)] + [(s, 1) for s in sites(f, mcall_named(FINDERS[1]), P)]
    ctx.floor("FlushStateToDisk finder calls", len(calls), 2)
    lps = set()
    for s, i in calls:
        a = call_args(s.expr)[i]
        lp = None
        if a[0] == "local":
            lp = a[1]
        elif a[0] == "call" and a[1] == "std::min" and len(a) == 4:
            loc = [x for x in a[2:] if x[0] == "local"]
            lp = loc[0][1] if len(loc) == 1 else None
        ctx.ob("FlushStateToDisk/height-arg@L%s" % s.line, "PROVENANCE", "the height limit handed to %s is the lock-bounded local (or its minimum with the manual height)"
               % s.expr[1].rsplit("::", 1)[-1], lp is not None, s.where, {"arg": show(a)})
        ok = match(["u", "*", ["this"]], call_args(s.expr)[2])
        ctx.ob("FlushStateToDisk/chain-arg@L%s" % s.line, "PROVENANCE", "the finders examine this chainstate (whose tip bounds the range)", ok, s.where)
        if lp:
            lps.add(lp)
    if len(lps) != 1:
        raise AnalysisBroken("FlushStateToDisk: lock-bounded height local not unique: %s" % sorted(lps))
    lp = list(lps)[0]
    loops = [st for st in stmts(f.body) if st.get("k") == "foreach" and match([".", ANY, BM + "m_prune_locks"], st.get("range"))]
    if len(loops) != 1:
        raise AnalysisBroken("FlushStateToDisk: loop over m_prune_locks not found")
    L = loops[0]
    lo, hi = L.get("l"), max(x.get("l") or 0 for x in stmts(L))
    var = L["var"]["n"]
    hf = lambda e: match([".", [".", ["local", var], "std::pair::second"], "node::PruneLockInfo::height_first"], e)
    ldefs = {st["n"]: st.get("i") for st in stmts(L) if st.get("k") == "decl" and is_expr(st.get("i"))}
    vals = local_values(f, lp)
    inside = [(l, v) for l, v in vals if lo <= l <= hi]
    outside = [(l, v) for l, v in vals if not (lo <= l <= hi)]
    ok = len(outside) == 1 and outside[0][0] < lo
    ctx.ob("FlushStateToDisk/limit-init", "VALUE-FLOW", "the height limit is initialised once before the prune-lock loop and changed only inside it", ok, f.where,
           {"values": [(l, show(v)) for l, v in vals]})
    ctx.floor("FlushStateToDisk limit updates in the lock loop", len(inside), 1)
    clamp = None
    for l, v in inside:
        e = v
        if is_expr(e) and e[0] == "call" and e[1] == "std::max" and len(call_args(e)) == 2:
            c = [x for x in e[2:] if x[0] == "int"]
            o = [x for x in e[2:] if x[0] != "int"]
            if len(c) == 1 and len(o) == 1:
                clamp, e = c[0][1], o[0]
        off = None
        if is_expr(e) and e[0] == "call" and e[1] == "std::min" and len(e) == 4:
            for x, y in ((e[2], e[3]), (e[3], e[2])):
                if match(["local", lp], x):
                    y = ldefs.get(y[1], y) if y[0] == "local" else y
                    off = _offset(y, hf)
        ok = off is not None and off <= 0
        ctx.ob("FlushStateToDisk/limit-update@L%s" % l, "VALUE-FLOW",
               "for each prune lock the height limit becomes min(limit, height_first - k) with k >= 0 (nothing at or above a lock's height is handed to the finders)",
               ok, "%s:%s" % (f.file, l), {"value": show(v), "offset": off, "clamp": clamp})
    if clamp is not None:
        ctx.note("observation: FlushStateToDisk clamps the lock-bounded prune height with std::max(%d, .): a prune lock with height_first - buffer < %d does not "
                 "protect heights <= %d" % (clamp, clamp, clamp))
        ctx.ob("FlushStateToDisk/limit-clamp", "VALUE-FLOW", "the lower clamp on the lock-bounded height is at most 1 (only genesis and block 1 can escape a lock)",
               clamp <= 1, f.where, {"clamp": clamp})
    ctx.ob("FlushStateToDisk/lock-loop-complete", "VALUE-FLOW", "the loop over the prune locks cannot be left early", not has_break(L.get("b")) and
           not [s for s in stmt_sites(f, lambda st: st.get("k") in ("ret", "throw"), P) if lo <= (s.line or 0) <= hi], "%s:%s" % (f.file, lo))
    maxed = re.compile(r"each\(.*m_prune_locks\)\.second\.height_first == 2147483647")
    for s in stmt_sites(f, lambda st: st.get("k") == "continue", P):
        if lo <= (s.line or 0) <= hi:
            fb, mp, un = F.bind_atoms(F.mk_and([g.formula(sub) for g in _inner(s, lo)]), {"UNSET": maxed})
            ctx.ob("FlushStateToDisk/lock-skip@L%s" % s.line, "VALUE-FLOW", "a prune lock is skipped only if its height_first is INT_MAX (lock not positioned yet)",
                   F.counterexample(fb, F.parse("UNSET")) is None, s.where)
    for s in sites(f, lambda e: is_expr(e) and e[0] == "b" and e[1] == "=" and match(["local", lp], e[2]), P):
        if lo <= (s.line or 0) <= hi:
            fb, mp, un = F.bind_atoms(F.mk_and([g.formula(sub) for g in _inner(s, lo)]), {"UNSET": maxed})
            ok = F.counterexample(F.parse("!UNSET"), fb) is None
            ctx.ob("FlushStateToDisk/lock-applied@L%s" % s.line, "VALUE-FLOW", "every positioned prune lock lowers the limit (the update is not under an additional condition)",
                   ok, s.where, None if ok else {"guard": F.fshow(fb)})
    # order: the loop precedes the finder calls; the unlinked set is the finders' set
    locks_seen = lambda e: match([".", ANY, BM + "m_prune_locks"], e)
    t = "the prune finders run only after the loop over the prune locks"
    must_before(ctx, f, P, [("LOCKS", locks_seen)], [("finder-after-locks", lambda e: mcall_named(*FINDERS)(e), ["LOCKS"], t)], "FlushStateToDisk")
    un = sites(f, mcall_named(BM + "UnlinkPrunedFiles"), P)
    sets = {show(call_args(s.expr)[0]) for s, _ in calls}
    ok = len(un) >= 1 and all({show(call_args(s.expr)[0])} == sets for s in un)
    setname = list(sets)[0] if len(sets) == 1 else None
    others = [s for s in sites(f, lambda e: is_expr(e) and e[0] == "mcall" and e[1].startswith("std::set::") and e[1].rsplit("::", 1)[-1] in ("insert", "emplace", "merge", "swap")
                               and show(e[2]) == setname, P)]
    ctx.ob("FlushStateToDisk/unlinked-set", "PROVENANCE", "the set of files unlinked is exactly the set the finders filled (FlushStateToDisk adds nothing to it)",
           ok and not others, f.where, {"sets": sorted(sets)})


def disconnect_tip(ctx, P):
    f = ctx.used(P.fn("Chainstate::DisconnectTip"))
    sub = naming(f, P)
    moved = assign_to_field("node::PruneLockInfo::height_first")
    locks_seen = lambda e: match([".", ANY, BM + "m_prune_locks"], e)
    t1 = "DisconnectTip visits the prune locks (moving back those above the new tip) before the flush that may prune"
    t2 = "DisconnectTip visits the prune locks (moving back those above the new tip) before the active tip moves to the parent"
    must_before(ctx, f, P, [("LOCKS", locks_seen)],
                [("flush-after-locks", mcall_named("Chainstate::FlushStateToDisk"), ["LOCKS"], t1),
                 ("tip-after-locks", mcall_named("CChain::SetTip"), ["LOCKS"], t2)], "DisconnectTip")
    loops = [st for st in stmts(f.body) if st.get("k") == "foreach" and match([".", ANY, BM + "m_prune_locks"], st.get("range"))]
    if len(loops) != 1:
        raise AnalysisBroken("DisconnectTip: loop over m_prune_locks not found")
    L = loops[0]
    lo, hi = L.get("l"), max(x.get("l") or 0 for x in stmts(L))
    ctx.ob("DisconnectTip/lock-loop-complete", "VALUE-FLOW", "the loop over the prune locks cannot be left early", not has_break(L.get("b")) and
           not [s for s in stmt_sites(f, lambda st: st.get("k") in ("ret", "throw"), P) if lo <= (s.line or 0) <= hi], "%s:%s" % (f.file, lo))
    ws = [s for s in sites(f, moved, P) if lo <= (s.line or 0) <= hi]
    ctx.floor("DisconnectTip lock writes", len(ws), 1)
    tip = r"m_chain\.Tip\(\)"
    newh = r"%s\.nHeight - 1" % tip
    hfa = r"each\(.*m_prune_locks\)\.second\.height_first"
    above = re.compile(r"%s < %s" % (newh, hfa))
    for s in ws:
        vv = F.expand(s.expr[3], sub)
        txt = F.key(vv)
        ok_val = s.expr[1] == "=" and re.fullmatch(newh, txt) is not None
        ctx.ob("DisconnectTip/lock-value@L%s" % s.line, "VALUE-FLOW", "a prune lock is moved back to the disconnected block's height - 1 (the new tip height)", ok_val, s.where,
               {"value": txt})
        fb, mp, un = F.bind_atoms(F.mk_and([g.formula(sub) for g in _inner(s, lo)]), {"ABOVE": above})
        ok = F.counterexample(F.parse("ABOVE"), fb) is None
        ctx.ob("DisconnectTip/lock-applied@L%s" % s.line, "VALUE-FLOW", "every prune lock whose height_first exceeds the new tip height is moved back (no additional condition)", ok, s.where,
               None if ok else {"guard": F.fshow(fb), "unbound": un})
    for s in stmt_sites(f, lambda st: st.get("k") == "continue", P):
        if lo <= (s.line or 0) <= hi:
            fb, mp, un = F.bind_atoms(F.mk_and([g.formula(sub) for g in _inner(s, lo)]), {"ABOVE": above})
            ctx.ob("DisconnectTip/lock-skip@L%s" % s.line, "VALUE-FLOW", "a prune lock is left alone only if its height_first is not above the new tip height",
                   F.counterexample(fb, F.parse("!ABOVE")) is None, s.where)


def check(ctx):
    P = ctx.program(UNITS)
    callgraph_obs(ctx)
    finders(ctx, P)
    prune_range(ctx, P)
    flush_value_flow(ctx, P)
    disconnect_tip(ctx, P)
