"""Helpers shared by the wallet partial-claim rule modules C56 and C43.

Nothing in here decides a property; these are small adapters on top of sa.engine:

* inline_predicates(formula, fn, P, subst): an atom that is a call of a free `bool` helper function defined in the
  loaded units (every exit `return <expr>`, no loops) is replaced by that helper's return formula with the
  arguments substituted for the parameters, so that extracting part of a condition into a helper does not change
  the decision structure seen by the rule (depth 2).
* DbWriters(cg): "this callee may reach a wallet database record write (WriteIC/EraseIC/..)" by the whole-program call graph.
* replace_atom(formula, atom_key, replacement); assert_false(stmt): `assert(false)` statements (the extractor folds the literal).
"""
import copy

from sa.engine.api import *
from sa.engine.ir import Function

# the low-level record writers every wallet database update goes through
DB_SINKS = ("wallet::WalletBatch::WriteIC", "wallet::WalletBatch::EraseIC", "wallet::DatabaseBatch::Write", "wallet::DatabaseBatch::Erase",
            "wallet::DatabaseBatch::ErasePrefix", "wallet::SQLiteBatch::WriteKey", "wallet::SQLiteBatch::EraseKey", "wallet::SQLiteBatch::ErasePrefix")


class DbWriters:
    """may_write(q): the function q (or an overrider of it) reaches one of DB_SINKS in the call graph."""

    def __init__(self, cg, sinks=DB_SINKS, stop=()):
        self.cg, self.sinks, self.stop = cg, tuple(sinks), tuple(stop)
        self.cache = {}
        missing = [s for s in ("wallet::WalletBatch::WriteIC", "wallet::WalletBatch::EraseIC") if not cg.defined(s)]
        if missing:
            raise AnalysisBroken("wallet record writers not found in the call graph: %s" % missing)

    def path(self, q):
        if q not in self.cache:
            if q in self.sinks:
                self.cache[q] = [q]
            else:
                starts = [q] + sorted(self.cg.overriders.get(q, ()))
                seen = self.cg.reach(starts, stop=self.stop)
                hit = [s for s in self.sinks if s in seen]
                self.cache[q] = self.cg.path(seen, hit[0]) if hit else None
        return self.cache[q]

    def may_write(self, q):
        return self.path(q) is not None


def replace_atom(f, k, repl):
    t = f[0]
    if t == "atom":
        return repl if f[1] == k else f
    if t == "not":
        return F.mk_not(replace_atom(f[1], k, repl))
    if t == "and":
        return F.mk_and([replace_atom(x, k, repl) for x in f[1]])
    if t == "or":
        return F.mk_or([replace_atom(x, k, repl) for x in f[1]])
    return f


def _subst_params(x, table):
    if isinstance(x, list):
        if len(x) == 2 and x[0] == "param" and x[1] in table:
            return copy.deepcopy(table[x[1]])
        return [_subst_params(y, table) for y in x]
    if isinstance(x, dict):
        return {k: _subst_params(v, table) for k, v in x.items()}
    return x


def _helper_formula(h, P, args):
    """Return formula of a loop-free bool helper with `args` substituted for its parameters, or None."""
    if h.d.get("ret") != "bool" or h.body is None or len(h.params) != len(args):
        return None
    if any(st.get("k") in ("for", "while", "do", "foreach", "try", "switch") for st in stmts(h.body)):
        return None
    d = copy.deepcopy(h.d)
    d["body"] = _subst_params(d["body"], {p["n"]: a for p, a in zip(h.params, args) if p.get("n")})
    h2 = Function(d, h.unit)
    h2.simp()
    sub = naming(h2, P)
    parts = []
    for e in exits(h2, P, sub):
        if e.kind != "ret" or not is_expr(e.value):
            return None
        parts.append(F.mk_and([e.formula, F.to_formula(e.value, sub)]))
    return F.mk_or(parts)


def inline_predicates(f, fn, P, subst, depth=2):
    for _ in range(depth):
        have = set(F.atoms(f))
        changed = False
        for st, e in all_exprs(fn.body):
            for x in subexprs(e):
                if x[0] != "call" or not isinstance(x[1], str):
                    continue
                k = F.key(F.expand(x, subst))
                if k not in have:
                    continue
                cands = [h for h in P.funcs.get(x[1], []) if h.body is not None]
                if len(cands) != 1:
                    continue
                args = [F.expand(a, subst) for a in call_args(x)]
                hf = _helper_formula(cands[0], P, args)
                if hf is None:
                    continue
                f = replace_atom(f, k, hf)
                have.discard(k)
                changed = True
        if not changed:
            break
    return f


def assert_false(s):
    """`assert(false)` / `assert(0)`: the extractor folds the literal to ["int", 0], which always_exits() does not recognise."""
    e = s.get("e") if isinstance(s, dict) and s.get("k") == "expr" else None
    return is_expr(e) and e[0] == "asserted" and s.get("m") in ("assert", "Assert", "CHECK_NONFATAL") and is_expr(e[1]) and \
        ((e[1][0] == "int" and int(e[1][1]) == 0) or (e[1][0] == "bool" and e[1][1] is False))
