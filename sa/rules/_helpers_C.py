"""Helpers shared by the rule modules C13, C15, C18, C20, C21 (kept outside sa/engine on purpose).

* unlock(P, e): the WITH_LOCK(cs, return X) idiom (`MaybeCheckNotHeld(cs) , [lambda]()`) is replaced by X when the
  lambda body is exactly {lock declaration; return X}.
* naming_x(fn, P, also=()): engine naming() + values unlocked + `init` wrappers stripped + if-init variables
  (`if (auto r{f()}; !r)`) + the locals named in `also` when they are declared once with an initialiser and are never
  written afterwards (any type).
* assigned_locals(fn, pred): names of locals whose initialiser / assigned value satisfies pred.
* strip(e): removes `init`/`cast`/`defarg` one-argument wrappers.
"""
from sa.engine.api import *
from sa.engine.paths import local_defs


def strip(e):
    while is_expr(e):
        if e[0] == "init" and len(e) == 3 and is_expr(e[2]):
            e = e[2]
        elif e[0] == "defarg" and len(e) == 2 and is_expr(e[1]):
            e = e[1]
        elif e[0] == "cast" and len(e) == 3 and is_expr(e[2]):
            e = e[2]
        else:
            break
    return e


def _lambda_value(P, q):
    fs = P.fns(q)
    if len(fs) != 1 or fs[0].body is None:
        return None
    body = fs[0].body
    items = body.get("s", []) if body.get("k") == "seq" else [body]
    items = [x for x in items if isinstance(x, dict)]
    if len(items) == 2 and items[0].get("k") == "decl" and is_expr(items[0].get("i")) and callee(items[0]["i"]) == "UniqueLock" \
            and items[1].get("k") == "ret" and is_expr(items[1].get("v")):
        return items[1]["v"]
    return None


def unlock(P, e):
    """Replace every WITH_LOCK(cs, return X) inside e by X (recursively)."""
    if not is_expr(e):
        return e
    if e[0] == "b" and e[1] == "," and len(e) >= 4 and is_call_to("MaybeCheckNotHeld", e[2]) and is_expr(e[3]) and e[3][0] == "opcall" \
            and len(e[3]) > 3 and is_expr(e[3][3]) and e[3][3][0] == "lambda":
        v = _lambda_value(P, e[3][3][1])
        if v is not None:
            return unlock(P, v)
    return [e[0]] + [unlock(P, x) if is_expr(x) else x for x in e[1:]]


def decl_names(fn):
    return [st["n"] for st in stmts(fn.body) if st.get("k") == "decl" and st.get("n")]


def naming_x(fn, P, also=()):
    subst = dict(naming(fn, P))
    extra = set(also)
    for st in stmts(fn.body):
        if st.get("k") == "if" and isinstance(st.get("init"), dict) and st["init"].get("k") == "decl" and st["init"].get("n"):
            extra.add(st["init"]["n"])
    if extra:
        d = local_defs(fn, P, extra_ok=tuple(extra))
        for n in extra:
            if n in d:
                subst[n] = d[n]
    return {k: strip(unlock(P, strip(v))) for k, v in subst.items()}


def assigned_locals(fn, pred):
    """{name: [(line, value)]} of locals that are initialised with / assigned a value satisfying pred."""
    out = {}
    for st in stmts(fn.body):
        if st.get("k") == "decl" and st.get("n") and is_expr(st.get("i")) and pred(strip(st["i"])):
            out.setdefault(st["n"], []).append((st.get("l"), strip(st["i"])))
        for _, e in stmt_exprs(st):
            for x in subexprs(e):
                if x[0] == "b" and x[1] == "=" and is_expr(x[2]) and x[2][0] == "local" and is_expr(x[3]) and pred(strip(x[3])):
                    out.setdefault(x[2][1], []).append((st.get("l"), strip(x[3])))
    return out


def lambda_local(fn, name):
    """Qualified name of the lambda a local is initialised with, or None."""
    for st in stmts(fn.body):
        if st.get("k") == "decl" and st.get("n") == name and is_expr(st.get("i")) and st["i"][0] == "lambda":
            return st["i"][1]
    return None


def calls_local_lambda(e, q):
    """Is e a call `<local>(...)` of the lambda q?"""
    return is_expr(e) and e[0] == "opcall" and len(e) > 3 and e[2] == q


def member_calls_on_local(fn, name):
    """Qualified callees of all member calls whose object is the local `name`."""
    out = set()
    for _, e in all_exprs(fn.body):
        for x in subexprs(e):
            if x[0] in ("mcall", "vcall") and match(["local", name], x[2]):
                out.add(x[1])
    return out


def unlocked_fn(P, fn):
    """A copy of fn whose statement tree has every WITH_LOCK(cs, return X) replaced by X (the analysed
    guards then speak about X instead of an opaque lambda call).  The original function object is untouched."""
    import copy
    f2 = copy.copy(fn)
    f2.body = copy.deepcopy(fn.body)
    for st in stmts(f2.body):
        for k in ("c", "e", "v", "i", "range", "inc"):
            if is_expr(st.get(k)):
                st[k] = unlock(P, st[k])
        v = st.get("var")
        if isinstance(v, dict) and is_expr(v.get("i")):
            v["i"] = unlock(P, v["i"])
    return f2


def is_empty_init(v):
    """`T x;` / `T x{};` initialisers: a constructor or init node without arguments, or a null/zero literal."""
    v = strip(v)
    return is_expr(v) and ((v[0] in ("ctor", "init") and len(v) == 2) or v[0] == "null")
