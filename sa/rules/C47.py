"""C47 PSBTs round-trip, combine and finalize correctly - structural clauses only (listed N/A at design time: content equality is data semantics)."""
import itertools
import re

from sa.engine.api import *

READER_UNIT = "psbt.cpp"            # holds instantiations of the three Unserialize templates (SpanReader) and the non-template methods
WRITER_UNIT = "external_signer.cpp"  # smallest unit that instantiates the three Serialize templates (DataStream)
UNITS = [READER_UNIT, WRITER_UNIT]
EXPLANATION = ("Taken whole (content equality after re-encoding and merging, finalisation) the property is about data; decided are three clauses visible in the code shape. "
               "(1) TABLE/SYMMETRY: for PSBTInput, PSBTOutput and PartiallySignedTransaction the writer's key table (every PSBT_IN_/PSBT_OUT_/PSBT_GLOBAL_ constant passed to a "
               "stream call in Serialize, with the data members written after it / iterated around it) is compared with the reader's table (every `case` of the key-type switch "
               "in Unserialize with the members it fills, a count read into a local being tied to the vector whose size is checked against it): same key set, same members per "
               "key; proprietary/unknown/trailing records agree; a key is written depending only on its own member's presence (frozen exception: non-final input fields are "
               "omitted once the input is finalized); per key and PSBT version in {0, 2} (the versions the reader admits) the reader's version rejections/requirements agree "
               "with the writer's version guards (rejected => never written, required => always written, accepted => writable). "
               "(2) COVERAGE: PSBTInput::Merge, PSBTOutput::Merge and PartiallySignedTransaction::Merge (with helpers that receive the other object) update, from the same member of "
               "the other object, every data member an Unserialize case can fill, except the frozen identity members, which Merge/GetUniqueID provably compare instead; guard purity: the "
               "branch conditions around the update of member m mention no other data member of either object (no exceptions on the reference tree). Record buffers: in every writer loop "
               "that emits one record per iteration, a local written to the stream but declared outside the loop is not modified inside it unless reset first. "
               "(3) LADDER (EXACT) on PartiallySignedTransaction::ComputeTimeLock: a time-only input clears the height candidate, a height-only input clears the time candidate, "
               "nullopt exactly when the needed candidate was already cleared, candidates accumulate max() of present requirements, after a complete loop height is preferred, "
               "then time, otherwise (and for version < 2) the fallback locktime; GetUnsignedTx uses that value and v0 decoding stores the unsigned tx's nLockTime as fallback.")
ASSUMPTIONS = ["value encodings at corresponding positions are inverse (SerializeToVector/UnserializeFromVector, operator<< / operator>>, HD keypath and MuSig2 helpers): not compared",
               "std::optional / std::max semantics", "a member `mentioned` by the statements that follow a key marker is the value written under that key"]
CLAIM = dict(
    technique="static analysis: writer-vs-reader key/member table agreement, version-guard agreement by evaluation of guard formulas at the admitted versions, "
              "who-is-merged coverage of Merge against the reader's table, exact decision-ladder conformance of ComputeTimeLock (truth tables over canonical guard atoms)",
    text="PARTIAL, structural claim. Decided for all paths: (1) every PSBT key type written by Serialize has an Unserialize case filling the same member(s) and vice versa, for "
         "inputs, outputs and the global map, and writer and reader agree per key on the PSBT versions (0/2) in which the key may or must appear; (2) the three Merge "
         "functions take over every member the decoder can fill (identity members excepted and shown to be compared); (3) ComputeTimeLock has the BIP370 decision structure "
         "(height preferred, undetermined on conflict, fallback otherwise, v0: the transaction's locktime).",
    note="NOT decided: byte-level equality of re-encoded PSBTs and the value formats per key; commutativity/idempotence of merging as values (only that each member is merged from "
         "the same member); conflict handling inside Merge; finalize/extract correctness, txid equality and script verification. Reported, not suppressed (evidence notes / "
         "finding candidates): PSBTInput::Merge does not merge sighash_type; PSBTInput::Serialize omits the non-final fields of a finalized input, so such a PSBT does not "
         "re-encode to the same content.",
    ref="DESIGN.md §3 C47 (claimed partially after the design)")

CLASSES = {
    "PSBTInput": dict(prefix="PSBT_IN_", min_keys=27),
    "PSBTOutput": dict(prefix="PSBT_OUT_", min_keys=9),
    "PartiallySignedTransaction": dict(prefix="PSBT_GLOBAL_", min_keys=8),
}
PSBT_VERSIONS = (0, 2)
# keys of an input that must be written whatever else the input holds (BIP174 finalizer keeps UTXOs, final scripts; BIP370 identity fields)
INPUT_ALWAYS = {"PSBT_IN_NON_WITNESS_UTXO", "PSBT_IN_WITNESS_UTXO", "PSBT_IN_SCRIPTSIG", "PSBT_IN_SCRIPTWITNESS", "PSBT_IN_PREVIOUS_TXID", "PSBT_IN_OUTPUT_INDEX",
                "PSBT_IN_SEQUENCE", "PSBT_IN_REQUIRED_TIME_LOCKTIME", "PSBT_IN_REQUIRED_HEIGHT_LOCKTIME"}
FINAL_MEMBERS = {"final_script_sig", "final_script_witness"}
VERSION_MEMBERS = {"m_psbt_version"}   # not data: fixed by the constructor from the enclosing PSBT's version
# members that identify the object instead of carrying mergeable content (one line of reason each)
IDENTITY = {
    "PSBTInput": {"prev_txid": "outpoint of the input: part of the unsigned transaction, PartiallySignedTransaction::Merge requires equal GetUniqueID()",
                  "prev_out": "outpoint of the input: part of the unsigned transaction, PartiallySignedTransaction::Merge requires equal GetUniqueID()"},
    "PSBTOutput": {"amount": "part of the unsigned transaction (GetUniqueID)", "script": "part of the unsigned transaction (GetUniqueID)"},
    "PartiallySignedTransaction": {"tx_version": "part of the unsigned transaction (GetUniqueID)", "m_version": "Merge requires equal GetVersion()"},
}
FINALIZED_OMISSION_KEY = "C47/writer/finalized-input-omits-fields"
OBSERVERS = {"empty", "IsNull", "has_value", "size", "begin", "end", "cbegin", "cend", "value_or", "operator bool", "contains", "count", "find", "value", "operator*",
             "operator->", "test", "at", "back", "front", "IsValid", "IsFullyValid", "to_ulong", "any", "none", "all"}


# ------------------------------------------------------------------------------------------------ helpers
def short_name(q):
    return q.rsplit("::", 1)[-1]


def members_in(e, cls):
    """Names of data members of `*this` (class cls) occurring in an expression."""
    out = set()
    if not is_expr(e):
        return out
    for x in subexprs(e):
        if x[0] == "." and len(x) == 3 and x[1] == ["this"] and isinstance(x[2], str) and x[2].startswith(cls + "::"):
            out.add(x[2][len(cls) + 2:])
    return out


def this_calls_in(e, cls):
    out = set()
    if not is_expr(e):
        return out
    for x in subexprs(e):
        if x[0] in ("mcall", "vcall") and len(x) >= 3 and x[2] == ["this"] and isinstance(x[1], str) and x[1].startswith(cls + "::"):
            out.add(x[1])
    return out


def stmt_all_exprs(st, subst):
    return [F.expand(e, subst) for _, e in all_exprs(st)]


def pick(P, q):
    fs = P.fns(q)
    inst = [f for f in fs if not f.d.get("dep") and f.body is not None]
    if len(inst) > 1:
        raise AnalysisBroken("%s: %d instantiations kept, expected one" % (q, len(inst)))
    if not inst:
        raise AnalysisBroken("%s: no instantiated body in the analysed unit (template instantiation vanished?)" % q)
    return inst[0]


def method_members(PR, cls, q, seen=None):
    """Members of *this read (transitively through calls on this) by the non-template method q."""
    seen = set() if seen is None else seen
    if q in seen:
        return set()
    seen.add(q)
    fs = [f for f in PR.fns(q) if f.body is not None]
    if not fs:
        raise AnalysisBroken("body of %s not available" % q)
    out = set()
    for f in fs:
        for _, e in all_exprs(f.body):
            out |= members_in(e, cls)
            for c in this_calls_in(e, cls):
                out |= method_members(PR, cls, c, seen)
    return out


def soft_naming(fn, P):
    """naming() made safe for member collection: names declared more than once (`hash`, `preimage` re-bound by several loops) are not substituted; locals with one
    initialised declaration that are only ever read (never assigned, never a call/constructor argument, no mutating member call, address not taken) are substituted too."""
    sub = dict(naming(fn, P))
    cnt, init = {}, {}
    for st in stmts(fn.body):
        names = []
        if st.get("k") == "decl":
            names = ([st["n"]] if st.get("n") else []) + list(st.get("binds") or [])
            if st.get("n") and is_expr(st.get("i")):
                init[st["n"]] = st["i"]
        v = st.get("var")
        if isinstance(v, dict):
            names += ([v["n"]] if v.get("n") else []) + list(v.get("binds") or [])
        for n in names:
            cnt[n] = cnt.get(n, 0) + 1
    for p_ in fn.params:
        if p_.get("n"):
            cnt[p_["n"]] = cnt.get(p_["n"], 0) + 1
    for k in list(sub):
        if k != "@idx" and cnt.get(k, 0) > 1:
            del sub[k]
    dirty = set()
    for _, e in all_exprs(fn.body):
        for x in subexprs(e):
            t = x[0]
            if t == "b" and x[1] in ASSIGN_OPS and is_expr(x[2]):
                r = x[2]
                while is_expr(r) and r[0] in (".", "idx", "u") and len(r) > 2:
                    r = r[1] if r[0] != "u" else r[2]
                if is_expr(r) and r[0] == "local":
                    dirty.add(r[1])
            elif t == "u" and x[1] in ("++", "--", "post++", "post--", "&") and is_expr(x[2]) and x[2][0] == "local":
                dirty.add(x[2][1])
            elif t in ("call", "ucall", "ctor", "init", "new", "icall", "opcall"):
                for a in x[1:]:
                    if is_expr(a) and a[0] == "local":
                        dirty.add(a[1])
            elif t in ("mcall", "vcall", "umcall") and len(x) >= 3:
                if is_expr(x[2]) and x[2][0] == "local" and short_name(str(x[1])) not in OBSERVERS:
                    dirty.add(x[2][1])
                for a in x[3:]:
                    if is_expr(a) and a[0] == "local":
                        dirty.add(a[1])
    for n, i in init.items():
        if n not in sub and cnt.get(n) == 1 and n not in dirty:
            sub[n] = i
    return sub


def version_atom(a, vterms, v):
    """Truth value at PSBT version v of an atom that only compares a version term with a constant (None for any other atom)."""
    if a in vterms:
        return v != 0
    m = re.fullmatch(r"(.+) (<|==) (\d+)", a)
    if m and m.group(1) in vterms:
        return (v < int(m.group(3))) if m.group(2) == "<" else (v == int(m.group(3)))
    return None


def target_root(e, cls):
    """("member", M) / ("local", n) at the root of an expression standing in a write position (through fields, subscripts, dereferences, casts and wrapper calls)."""
    while is_expr(e):
        t = e[0]
        if t == "." and len(e) == 3:
            if e[1] == ["this"] and isinstance(e[2], str) and e[2].startswith(cls + "::"):
                return ("member", e[2][len(cls) + 2:])
            e = e[1]
        elif t == "idx":
            e = e[1]
        elif t == "u" and e[1] in ("*", "&"):
            e = e[2]
        elif t == "cast":
            e = e[2]
        elif t == "opcall" and len(e) >= 5:
            e = e[-1]
        elif t in ("mcall", "vcall") and len(e) >= 3 and short_name(e[1]) in ("operator[]", "at", "back", "front", "operator*", "operator->", "value"):
            e = e[2]
        elif t == "call" and short_name(str(e[1])) in ("move", "ref", "forward") and len(e) >= 3:
            e = e[2]
        elif t == "local":
            return ("local", e[1])
        else:
            return None
    return None


def fill_targets(x, cls):
    """Members / locals that expression node x (not its sub-expressions) may write: stream extraction target, assignment target, argument of a call or constructor,
    object or argument of a non-observer member call."""
    cands = []
    t = x[0]
    if t == "b" and x[1] == ">>":
        cands = [x[3]]
    elif t == "b" and x[1] in ASSIGN_OPS:
        cands = [x[2]]
    elif t in ("call", "ucall", "ctor", "init", "opcall", "icall", "new"):
        cands = [a for a in x[1:] if is_expr(a)]
    elif t in ("mcall", "vcall", "umcall") and len(x) >= 3:
        if short_name(str(x[1])) not in OBSERVERS:
            cands = [x[2]]
        cands += [a for a in x[3:] if is_expr(a)]
    mem, loc = set(), set()
    for c in cands:
        r = target_root(c, cls)
        if r and r[0] == "member":
            mem.add(r[1])
        elif r:
            loc.add(r[1])
    return mem, loc


def blk(s):
    if not isinstance(s, dict):
        return []
    return s.get("s", []) if s.get("k") == "seq" else [s]


def at_version(f, vterms, v):
    """Formula with the atoms that compare a version term with a constant evaluated at version v; returns (satisfiable, tautology, remaining atoms)."""
    env0, rest = {}, []
    for a in F.atoms(f):
        val = version_atom(a, vterms, v)
        if val is None:
            rest.append(a)
        else:
            env0[a] = val
    if len(rest) > 12:
        raise AnalysisBroken("guard with %d free atoms" % len(rest))
    vals = []
    for bits in itertools.product((False, True), repeat=len(rest)):
        env = dict(env0)
        env.update(zip(rest, bits))
        vals.append(F.ev(f, env))
    return any(vals), all(vals), rest


def if_guards(site, subst):
    return F.mk_and([g.formula(subst) for g in site.guards if g.kind in ("if", "sc")])


# ------------------------------------------------------------------------------------------------ writer table
def writer_table(fn, P, PR, cls, prefix):
    subst = soft_naming(fn, P)
    sname = fn.params[0]["n"]

    def marker_names(st):
        out = []
        for e in stmt_all_exprs(st, None):
            for x in subexprs(e):
                if x[0] == "int" and len(x) >= 3 and isinstance(x[2], str) and x[2].startswith(prefix):
                    out.append(x[2])
        return out

    def tree_members(st):
        """members / this-method calls in value positions of a statement tree: expression statements, initialisers and loop ranges (not branch conditions)"""
        mem, calls = set(), set()
        for x in stmts(st):
            es = []
            if x.get("k") in ("expr", "decl", "ret"):
                es = [e for _, e in stmt_exprs(x)]
            elif x.get("k") == "foreach" and is_expr(x.get("range")):
                es = [x["range"]]
            for e in es:
                e = F.expand(e, subst)
                mem |= members_in(e, cls)
                calls |= this_calls_in(e, cls)
        return mem - VERSION_MEMBERS, calls

    entries, raw = [], set()

    def visit(items, ranges):
        for i, st in enumerate(items):
            if not isinstance(st, dict):
                continue
            k = st.get("k")
            if k in ("expr", "decl"):
                ks = sorted(set(marker_names(st)))
                if not ks:
                    continue
                if len(ks) > 1:
                    raise AnalysisBroken("%s: statement at line %s names two key types" % (fn.q, st.get("l")))
                mem, calls = tree_members(st)
                for nx in items[i + 1:]:
                    if isinstance(nx, dict) and marker_names(nx):
                        break
                    m2, c2 = tree_members(nx)
                    mem |= m2
                    calls |= c2
                for r in ranges:
                    mem |= members_in(F.expand(r, subst), cls) - VERSION_MEMBERS
                entries.append(dict(key=ks[0], line=st.get("l"), members=mem, calls=calls))
            elif k == "seq":
                visit(st.get("s", []), ranges)
            elif k == "if":
                visit(blk(st.get("t")), ranges)
                visit(blk(st.get("e")), ranges)
            elif k in ("foreach", "for", "while", "do"):
                r = st.get("range") if k == "foreach" else st.get("c")
                if not marker_names(st):
                    rm = members_in(F.expand(r, subst), cls) if is_expr(r) else set()
                    uses_stream = any(x == ["param", sname] for e in stmt_all_exprs(st.get("b"), None) for x in subexprs(e))
                    if rm and uses_stream:
                        raw.update(rm)
                    continue
                visit(blk(st.get("b")), ranges + ([r] if is_expr(r) else []))
            elif marker_names(st):
                raise AnalysisBroken("%s: key type written inside a `%s` statement (unknown idiom)" % (fn.q, k))

    visit(blk(fn.body), [])
    # guards of the marker statements
    table = {}
    for en in entries:
        site = next((s for s in all_sites(fn, P) if s.expr is None and s.stmt.get("l") == en["line"] and s.stmt.get("k") in ("expr", "decl") and en["key"] in marker_names(s.stmt)), None)
        if site is None:
            raise AnalysisBroken("%s: marker site at line %s not found" % (fn.q, en["line"]))
        g = if_guards(site, subst)
        gm = set()
        for gd in site.guards:
            if gd.kind in ("if", "sc"):
                gm |= members_in(F.expand(gd.expr, subst), cls)
        derived = set()
        for c in en["calls"]:
            derived |= method_members(PR, cls, c)
        t = table.setdefault(en["key"], dict(members=set(), derived=set(), guards=[], guard_members=set(), lines=[], where=site.where))
        t["members"] |= en["members"]
        t["derived"] |= derived
        t["guards"].append(g)
        t["guard_members"] |= gm
        t["lines"].append(en["line"])
    return table, raw


# ------------------------------------------------------------------------------------------------ reader table
def record_buffers(fn, prefix):
    """For every loop whose body (not a nested loop) writes a key-type marker - one iteration emits one record - the locals that are emitted to the stream inside the loop
    but declared outside it must not be modified inside the loop (otherwise a record's value carries bytes of earlier records), unless the loop resets them first.
    Returns [(loop stmt, key, {local: [reasons]})]."""
    sname = fn.params[0]["n"]
    LOOPS = ("foreach", "for", "while", "do")

    def direct(node):
        """statements of a loop body reachable without entering a nested loop"""
        out = []
        if not isinstance(node, dict):
            return out
        out.append(node)
        if node.get("k") in LOOPS:
            return out
        for x in node.get("s", []) or []:
            out += direct(x)
        for kk in ("t", "e", "b"):
            if isinstance(node.get(kk), dict):
                out += direct(node[kk])
        return out

    def markers(st):
        return [x[2] for _, e in stmt_exprs(st) for x in subexprs(e) if x[0] == "int" and len(x) >= 3 and isinstance(x[2], str) and x[2].startswith(prefix)]

    res = []
    for lp in stmts(fn.body):
        if lp.get("k") not in LOOPS or not isinstance(lp.get("b"), dict):
            continue
        ks = sorted({k for st in direct(lp["b"]) if st.get("k") in ("expr", "decl") for k in markers(st)})
        if not ks:
            continue
        inside = set()
        v = lp.get("var")
        if isinstance(v, dict):
            inside |= ({v["n"]} if v.get("n") else set()) | set(v.get("binds") or [])
        if isinstance(lp.get("init"), dict) and lp["init"].get("n"):
            inside.add(lp["init"]["n"])
        for st in stmts(lp["b"]):
            if st.get("k") == "decl":
                inside |= ({st["n"]} if st.get("n") else set()) | set(st.get("binds") or [])
            v2 = st.get("var")
            if isinstance(v2, dict):
                inside |= ({v2["n"]} if v2.get("n") else set()) | set(v2.get("binds") or [])
        emitted = set()
        for st in stmts(lp["b"]):
            if st.get("k") in ("expr", "decl"):
                xs = [x for _, e in stmt_exprs(st) for x in subexprs(e)]
                if any(x == ["param", sname] for x in xs):
                    emitted |= {x[1] for x in xs if x[0] == "local"}
        bad = {}
        for name in sorted(emitted - inside):
            V = ["local", name]
            reasons = []
            for st in stmts(lp["b"]):
                for _, e in stmt_exprs(st):
                    for x in subexprs(e):
                        t = x[0]
                        if t == "b" and x[1] in ASSIGN_OPS and x[2] == V:
                            reasons.append("assigned at line %s" % st.get("l"))
                        elif t in ("mcall", "vcall", "umcall") and len(x) >= 3 and x[2] == V and short_name(str(x[1])) not in OBSERVERS:
                            reasons.append("%s() at line %s" % (short_name(str(x[1])), st.get("l")))
                        elif t in ("call", "ucall", "ctor", "init", "mcall", "vcall", "umcall", "opcall", "new") and any(a == V for a in x[1:] if is_expr(a)):
                            if t in ("mcall", "vcall", "umcall") and x[2] == V:
                                continue
                            ok = any(a == ["param", sname] for a in x[1:] if is_expr(a)) or (t in ("ctor", "init") and "span" in str(x[1]))
                            if not ok:
                                reasons.append("passed to %s at line %s" % (x[1], st.get("l")))
                        elif t == "u" and x[1] in ("&", "++", "--", "post++", "post--") and x[2] == V:
                            reasons.append("`%s` at line %s" % (x[1], st.get("l")))
            if reasons:
                # reset first: the first statement of the loop body that mentions the local clears or reassigns it
                first = next((st for st in stmts(lp["b"]) if st.get("k") in ("expr", "decl") and any(x == V for _, e in stmt_exprs(st) for x in subexprs(e))), None)
                e0 = first.get("e") if first is not None else None
                reset = is_expr(e0) and ((e0[0] in ("mcall", "umcall") and e0[2] == V and short_name(str(e0[1])) in ("clear", "assign")) or (e0[0] == "b" and e0[1] == "=" and e0[2] == V))
                if not reset:
                    bad[name] = reasons
        res.append((lp, ks[0], bad))
    return res


def reader_table(fn, P, cls, prefix):
    subst = soft_naming(fn, P)
    sws = [st for st in stmts(fn.body) if st.get("k") == "switch" and any(isinstance(it, dict) and it.get("k") == "case" and is_expr(it.get("v")) and len(it["v"]) >= 3
                                                                             and str(it["v"][2]).startswith(prefix) for it in st.get("s", []))]
    if len(sws) != 1:
        raise AnalysisBroken("%s: expected one switch over the key type, found %d" % (fn.q, len(sws)))
    sw = sws[0]
    top = blk(fn.body)
    fn_locals = {st["n"]: st.get("ty", "") for st in top if st.get("k") == "decl" and st.get("n")}
    table, trailer = {}, set()
    throws = []
    for s in all_sites(fn, P):
        cg = [g for g in s.guards if g.kind == "case" and g.line == sw.get("l") and g.expr == sw.get("c")]
        keys = None
        if cg:
            keys = []
            for v in cg[-1].vals:
                if v == "default":
                    keys.append("<default>")
                elif is_expr(v) and v[0] == "int" and len(v) >= 3 and str(v[2]).startswith(prefix):
                    keys.append(v[2])
                else:
                    raise AnalysisBroken("%s: case label %s is not a named %s* constant" % (fn.q, show(v) if is_expr(v) else v, prefix))
            for k in keys:
                table.setdefault(k, dict(members=set(), locals=set(), line=s.line, where=s.where))
        if s.expr is None:
            if s.stmt.get("k") == "throw":
                throws.append((s, keys))
            continue
        if s.stmt.get("k") not in ("expr", "decl"):
            continue
        m, ls = fill_targets(s.expr, cls)
        m -= VERSION_MEMBERS
        if keys is None:
            # outside the key switch: members filled by the trailing part of the reader (input/output maps of the global reader)
            if m and s.line > sw.get("l"):
                trailer |= m
            continue
        for k in keys:
            table[k]["members"] |= m
            table[k]["locals"] |= {l for l in ls if l in fn_locals and fn_locals[l] != "bool"}
    # a count read into a function-level local stands for the member whose size is checked against it afterwards
    resolve = {}
    for st in top:
        if st.get("k") == "if" and always_exits(st.get("t")) and st.get("l") > sw.get("l"):
            c = st.get("c")
            if is_expr(c) and c[0] == "b" and c[1] in ("!=", "=="):
                for a, b in ((c[2], c[3]), (c[3], c[2])):
                    if is_expr(a) and a[0] == "local" and a[1] in fn_locals:
                        ms = members_in(b, cls)
                        if ms:
                            resolve.setdefault(a[1], set()).update(ms)
    for k, t in table.items():
        t["resolved"] = set()
        for l in t["locals"]:
            t["resolved"] |= resolve.get(l, set())
    # presence indicators: bool locals set true / optional locals filled in exactly one case; optional members filled by exactly one key
    indicator = {}
    writes = {}
    for s in all_sites(fn, P):
        if s.expr is None:
            continue
        e = s.expr
        tgt = None
        if e[0] == "b" and e[1] in ASSIGN_OPS and is_expr(e[2]) and e[2][0] == "local":
            tgt = e[2][1]
        elif e[0] in ("mcall",) and len(e) >= 3 and is_expr(e[2]) and e[2][0] == "local" and short_name(e[1]) in ("emplace", "reset"):
            tgt = e[2][1]
        if tgt in fn_locals:
            cg = [g for g in s.guards if g.kind == "case" and g.line == sw.get("l")]
            ks = tuple(v[2] if is_expr(v) else "<default>" for v in cg[-1].vals) if cg else None
            writes.setdefault(tgt, []).append(ks)
    for l, ws in writes.items():
        if all(w is not None and len(w) == 1 for w in ws) and len({w for w in ws}) == 1:
            indicator[l] = (ws[0][0], True)
    for k, t in table.items():
        for m in t["members"]:
            owners = [k2 for k2, t2 in table.items() if m in t2["members"]]
            if owners == [k]:
                mk = F.key([".", ["this"], "%s::%s" % (cls, m)])
                indicator.setdefault(mk, (k, True))
                indicator.setdefault("%s == std::nullopt" % mk, (k, False))
    return dict(table=table, trailer=trailer, throws=throws, indicator=indicator, subst=subst, switch=sw)


def version_rules(rd, vterms, versions):
    """{(key, v): 'reject'|'require'} from throws whose own condition is (version atoms [and one presence indicator]); plus versions rejected outright."""
    rules, banned = {}, set()
    for s, keys in rd["throws"]:
        g = if_guards(s, rd["subst"])
        ats = F.atoms(g)
        vat = [a for a in ats if version_atom(a, vterms, 0) is not None]
        other = [a for a in ats if a not in vat]
        if not vat:
            continue
        if keys:
            if other:
                continue        # data-dependent rejection inside a case
            for v in versions:
                sat, taut, _ = at_version(g, vterms, v)
                if taut:
                    for k in keys:
                        rules[(k, v)] = ("reject", s.line)
        else:
            if not other:
                for v in range(0, 4):
                    if at_version(g, vterms, v)[1]:
                        banned.add(v)
                continue
            if len(other) != 1 or other[0] not in rd["indicator"]:
                continue
            k, pol = rd["indicator"][other[0]]
            for v in versions:
                env = {a: version_atom(a, vterms, v) for a in vat}
                if F.ev(g, dict(env, **{other[0]: pol})):
                    rules[(k, v)] = ("reject", s.line)
                if F.ev(g, dict(env, **{other[0]: not pol})):
                    rules[(k, v)] = ("require", s.line)
    return rules, banned


# ------------------------------------------------------------------------------------------------ clause (1)
def tables(ctx, PW, PR):
    vterms = {F.key([".", ["this"], "PSBTInput::m_psbt_version"]), F.key([".", ["this"], "PSBTOutput::m_psbt_version"]),
              F.key(["mcall", "PartiallySignedTransaction::GetVersion", ["this"]])}
    fillable = {}
    g_rd = reader_table(ctx.used(pick(PR, "PartiallySignedTransaction::Unserialize")), PR, "PartiallySignedTransaction", "PSBT_GLOBAL_")
    _, banned = version_rules(g_rd, vterms, PSBT_VERSIONS)
    admitted = tuple(v for v in range(0, 4) if v not in banned)
    ctx.ob("versions/admitted", "TABLE", "PartiallySignedTransaction::Unserialize rejects, by a condition on the version alone, exactly the PSBT versions other than 0 and 2",
           admitted == PSBT_VERSIONS, g_rd["switch"].get("l") and "%s:%s" % (pick(PR, "PartiallySignedTransaction::Unserialize").file, g_rd["switch"].get("l")), {"admitted": admitted})
    n_rules = 0
    n_record_loops = 0
    for cls, cfg in CLASSES.items():
        prefix = cfg["prefix"]
        w = ctx.used(pick(PW, cls + "::Serialize"))
        r = ctx.used(pick(PR, cls + "::Unserialize"))
        wt, raw = writer_table(w, PW, PR, cls, prefix)
        for lp, k_, bad in record_buffers(w, prefix):
            n_record_loops += 1
            ctx.ob("%s/record-buffer/%s@L%s" % (cls, k_, lp.get("l")), "VALUE-SHAPE", "in the loop that emits one %s record per iteration, every local that is written to the stream "
                   "but declared outside the loop is not modified inside it (or is reset first): a record's value is built afresh, not accumulated over records" % k_, not bad,
                   "%s:%s" % (w.file, lp.get("l")), None if not bad else {"carried_over_and_modified": bad})
        rd = g_rd if cls == "PartiallySignedTransaction" else reader_table(r, PR, cls, prefix)
        rt = rd["table"]
        rules, _ = version_rules(rd, vterms, PSBT_VERSIONS)
        n_rules += len(rules)
        prop = prefix + "PROPRIETARY"
        keys = sorted((set(wt) | set(rt)) - {"<default>", prop})
        ctx.floor("%s key types" % cls, len(keys), cfg["min_keys"])
        for k in keys:
            a, b = wt.get(k), rt.get(k)
            wm = sorted(a["members"]) if a else None
            wd = sorted(a["members"] | a["derived"]) if a else None
            rm = sorted(b["members"] | b["resolved"]) if b else None
            if a is None or b is None:
                ok = False
            elif a["derived"]:
                ok = bool(rm) and set(rm) <= set(wd)
            else:
                ok = bool(rm) and rm == wm
            ctx.ob("%s/key/%s" % (cls, k), "SYMMETRY", "key type %s: %s::Serialize writes it and %s::Unserialize has a case for it, and the data member(s) written under it are the "
                   "member(s) that case fills (a value computed by a method of the object must at least depend on every member the case fills)" % (k, cls, cls), ok,
                   (b or a)["where"], {"written_from": wm, "written_from_incl_methods": wd if a and a["derived"] else None, "case_fills": rm,
                                       "case_fills_via_locals": sorted(b["locals"]) if b else None})
            if a is None or b is None:
                continue
            # a key's presence in the output depends on its own member only
            foreign = a["guard_members"] - a["members"] - a["derived"] - {"m_psbt_version"}
            allowed = cls == "PSBTInput" and k not in INPUT_ALWAYS and foreign <= FINAL_MEMBERS
            ctx.ob("%s/own-guard/%s" % (cls, k), "SYMMETRY", "key type %s is written whenever its own member is present: the conditions around the write mention no other data member "
                   "(frozen exception: non-final fields of an input are skipped once final_script_sig/final_script_witness is set; UTXOs, final scripts and the BIP370 "
                   "identity/locktime fields are never skipped)" % k, not foreign or allowed, a["where"], {"other_members_in_condition": sorted(foreign)})
            # versions
            bad = []
            is_version_key = "m_version" in b["members"] and cls == "PartiallySignedTransaction"
            for v in PSBT_VERSIONS:
                sat = any(at_version(g, vterms, v)[0] for g in a["guards"])
                taut = any(at_version(g, vterms, v)[1] for g in a["guards"])
                rule = rules.get((k, v), (None, None))[0]
                if is_version_key:
                    # the version record itself: absent means version 0, so it must be written for every other version and need not be written for version 0
                    if v > 0 and not taut:
                        bad.append("v%d: the version record is not always written (a re-decoded PSBT would be version 0)" % v)
                    continue
                if rule == "reject" and sat:
                    bad.append("v%d: reader rejects the key, writer may write it" % v)
                if rule == "require" and not taut:
                    bad.append("v%d: reader requires the key, writer does not always write it" % v)
                if rule != "reject" and not sat:
                    bad.append("v%d: reader accepts the key, writer never writes it" % v)
            ctx.ob("%s/version/%s" % (cls, k), "SYMMETRY", "key type %s: for PSBT versions 0 and 2 the writer's version condition agrees with the reader (a key the reader rejects for a "
                   "version is never written for it, a key it requires is always written, a key it accepts can be written)" % k, not bad, a["where"],
                   {"problems": bad, "writer_guards": [F.fshow(g) for g in a["guards"]], "reader_rules": {"v%d" % v: rules[(k, v)][0] for v in PSBT_VERSIONS if (k, v) in rules}})
        # proprietary / unknown / trailing records
        pm = rt.get(prop, {}).get("members", set())
        dm = rt.get("<default>", {}).get("members", set())
        ok = bool(pm) and bool(dm) and raw == pm | dm | rd["trailer"] and prop not in wt and not (pm & dm)
        ctx.ob("%s/raw-records" % cls, "SYMMETRY", "%s: the members written as raw key/value (or whole-map) loops without a key-type constant are exactly the member filled by the "
               "PROPRIETARY case, the member filled by the default (unknown key) case and the members filled after the key loop" % cls, ok, w.where,
               {"written_raw": sorted(raw), "proprietary_case": sorted(pm), "default_case": sorted(dm), "after_loop": sorted(rd["trailer"])})
        fill = set()
        for k, t in rt.items():
            fill |= t["members"] | t["resolved"]
        fillable[cls] = fill | rd["trailer"]
        # note the frozen exception once
        if cls == "PSBTInput":
            skipped = sorted(k for k in keys if k in wt and (wt[k]["guard_members"] - wt[k]["members"]) & FINAL_MEMBERS)
            if skipped:
                text = ("PSBTInput::Serialize writes %d key types only while final_script_sig and final_script_witness are both empty; Unserialize accepts them next to a final "
                        "script, so a decoded finalized input that still carries them re-encodes without them (BIP174 finalizer behaviour, but a deviation from `re-encodes to the "
                        "same content`): %s" % (len(skipped), ", ".join(skipped)))
                for k_ in skipped:
                    ctx.ob("PSBTInput/finalized-omission/%s" % k_, "SYMMETRY", "the input record %s, which Unserialize accepts next to a final script, is re-encoded for a finalized input "
                           "(PSBTInput::Serialize writes it only while final_script_sig and final_script_witness are both empty: a decoded finalized input that still carries "
                           "it does not re-encode to the same content)" % k_, False, w.where, None, key="%s/%s" % (FINALIZED_OMISSION_KEY, k_))
            ctx.ob("PSBTInput/finalized-omission", "SYMMETRY", "PSBTInput::Serialize withholds a record because the input is final only for the key types audited as known findings",
                   True, w.where, {"withheld_when_final": skipped})
    # the reader's per-version rejections/requirements must still be recognised (21 on the reference tree); a single dropped check is a violation above, not a vanished anchor
    ctx.floor("reader version rules (key, version)", n_rules, 15)
    ctx.floor("per-record writer loops", n_record_loops, 14)
    # v0: the unsigned transaction's version/locktime become tx_version / fallback_locktime
    ur = pick(PR, "PartiallySignedTransaction::Unserialize")
    src = {}
    for s in all_sites(ur, PR):
        cg = [g for g in s.guards if g.kind == "case"]
        if s.expr is not None and cg and any(is_expr(v) and len(v) >= 3 and v[2] == "PSBT_GLOBAL_UNSIGNED_TX" for v in cg[-1].vals):
            e = s.expr
            if e[0] == "b" and e[1] == "=" and match([".", ["this"], ANY], e[2]):
                src[short_name(e[2][2])] = {short_name(x[2]) for x in subexprs(e[3]) if x[0] == "." and len(x) == 3 and isinstance(x[2], str) and x[2].startswith("CMutableTransaction::")}
    ok = src.get("fallback_locktime") == {"nLockTime"} and src.get("tx_version") == {"version"}
    ctx.ob("PartiallySignedTransaction/v0-unsigned-tx", "PROVENANCE", "decoding PSBT_GLOBAL_UNSIGNED_TX stores the transaction's version as tx_version and its nLockTime as "
           "fallback_locktime (so a v0 PSBT's locktime is the transaction's)", ok, ur.where, {k: sorted(v) for k, v in src.items()})
    return fillable


# ------------------------------------------------------------------------------------------------ clause (2)
def root_member(e, cls):
    """Member of *this at the root of an lvalue / object expression (through fields, subscripts and dereferences)."""
    while is_expr(e):
        if e[0] == "." and len(e) == 3:
            if e[1] == ["this"] and isinstance(e[2], str) and e[2].startswith(cls + "::"):
                return e[2][len(cls) + 2:]
            e = e[1]
        elif e[0] == "idx":
            e = e[1]
        elif e[0] == "u" and e[1] == "*":
            e = e[2]
        elif e[0] in ("mcall",) and short_name(e[1]) in ("operator[]", "at", "back", "front", "operator*", "operator->", "value"):
            e = e[2]
        else:
            return None
    return None


def merged_members(PR, cls, fn, other, seen=None):
    """Members M of *this that fn updates from other.M: an assignment to / a mutating call on this.M whose source mentions other.M, directly or through locals derived from it."""
    seen = set() if seen is None else seen
    if (fn.q, other) in seen:
        return {}
    seen.add((fn.q, other))

    def other_members(e):
        return {x[2][len(cls) + 2:] for x in subexprs(e) if x[0] == "." and len(x) == 3 and x[1] == ["param", other] and isinstance(x[2], str) and x[2].startswith(cls + "::")} if is_expr(e) else set()

    # taint of locals: which members of `other` a local is derived from
    taint = {}
    changed = True

    def src_members(e):
        out = other_members(e)
        if is_expr(e):
            for x in subexprs(e):
                if x[0] == "local" and x[1] in taint:
                    out |= taint[x[1]]
        return out
    while changed:
        changed = False
        for st in stmts(fn.body):
            names, srcs = [], []
            if st.get("k") == "decl":
                names = [st["n"]] if st.get("n") else list(st.get("binds") or [])
                srcs = [st.get("i")]
            elif st.get("k") == "foreach" and isinstance(st.get("var"), dict):
                v = st["var"]
                names = ([v["n"]] if v.get("n") else []) + list(v.get("binds") or [])
                srcs = [st.get("range")]
            for e in srcs:
                sm = src_members(e)
                for n in names:
                    if sm - taint.get(n, set()):
                        taint[n] = taint.get(n, set()) | sm
                        changed = True
            for _, e in stmt_exprs(st):
                for x in subexprs(e):
                    # a local updated from the other object (x = f(other.M); x.set(.., other.M))
                    if x[0] == "b" and x[1] in ASSIGN_OPS and is_expr(x[2]) and x[2][0] == "local":
                        sm = src_members(x[3])
                        if sm - taint.get(x[2][1], set()):
                            taint[x[2][1]] = taint.get(x[2][1], set()) | sm
                            changed = True
    out = {}
    sub = soft_naming(fn, PR)

    def record(m, site):
        # data members (of either object) other than m in the branch conditions that dominate the update
        seen_m = set()
        for g in site.guards:
            if g.kind in ("if", "sc") and is_expr(g.expr):
                ge = F.expand(g.expr, sub)
                seen_m |= members_in(ge, cls) | other_members(ge)
                for x in subexprs(ge):
                    if x[0] == "local" and x[1] in taint:
                        seen_m |= taint[x[1]]
        d = out.setdefault(m, dict(foreign=set(), where=site.where))
        d["foreign"] |= seen_m - {m} - VERSION_MEMBERS

    for s in all_sites(fn, PR):
        x = s.expr
        if x is None:
            continue
        if x[0] == "b" and x[1] in ASSIGN_OPS:
            m = root_member(x[2], cls)
            if m and m in src_members(x[3]):
                record(m, s)
        elif x[0] in ("mcall", "vcall") and len(x) >= 3:
            if x[2] == ["this"] and x[1].startswith(cls + "::"):
                # helper of the same class that receives the other object
                for i, a in enumerate(x[3:]):
                    if a == ["param", other]:
                        for g in PR.fns(x[1]):
                            if g.body is not None and i < len(g.params):
                                for m, d in merged_members(PR, cls, g, g.params[i]["n"], seen).items():
                                    d0 = out.setdefault(m, dict(foreign=set(), where=d["where"]))
                                    d0["foreign"] |= d["foreign"]
                                    record(m, s)
                continue
            if short_name(x[1]) in OBSERVERS:
                continue
            m = root_member(x[2], cls)
            if m:
                sm = set()
                for a in x[3:]:
                    sm |= src_members(a)
                if m in sm:
                    record(m, s)
    return out


def merge_coverage(ctx, PR, fillable):
    total = 0
    for cls in CLASSES:
        fn = ctx.used(PR.fn(cls + "::Merge"))
        if len(fn.params) != 1:
            raise AnalysisBroken("%s::Merge: unexpected signature" % cls)
        got = merged_members(PR, cls, fn, fn.params[0]["n"])
        fields = {f["n"] for f in PR.record(cls)["fields"]}
        want = sorted(fillable[cls])
        if not set(want) <= fields:
            raise AnalysisBroken("%s: reader fills unknown members %s" % (cls, sorted(set(want) - fields)))
        for m in want:
            total += 1
            if m in IDENTITY[cls]:
                continue
            ok = m in got
            ctx.ob("%s/merge/%s" % (cls, m), "COVERAGE", "%s::Merge (or a helper it passes the other object to) updates `%s` - which %s::Unserialize can fill - from the same member of "
                   "the other object" % (cls, m, cls), ok, fn.where, None if ok else {"merged_members": sorted(got)})
            if ok:
                foreign = sorted(got[m]["foreign"])
                ctx.ob("%s/merge-guard/%s" % (cls, m), "COVERAGE", "whether %s::Merge takes `%s` over from the other object depends only on `%s` itself (of either object): the branch "
                       "conditions around the update mention no other data member - otherwise some combinations lose the field and the result depends on the order" % (cls, m, m),
                       not foreign, got[m]["where"], None if not foreign else {"other_members_in_condition": foreign})
        stale = [m for m in IDENTITY[cls] if m not in fillable[cls]]
        if stale:
            raise AnalysisBroken("%s: identity members %s are no longer filled by the reader (frozen table outdated)" % (cls, stale))
    ctx.floor("members the readers can fill", total, 45)
    # the identity exemptions are justified: Merge refuses objects that differ in them
    pm = PR.fn("PartiallySignedTransaction::Merge")
    other = pm.params[0]["n"]
    sub = soft_naming(pm, PR)
    uid = "PartiallySignedTransaction::GetUniqueID"
    ver = "PartiallySignedTransaction::GetVersion"
    k_this_id, k_other_id = F.key(["mcall", uid, ["this"]]), F.key(["mcall", uid, ["param", other]])
    k_this_v, k_other_v = F.key(["mcall", ver, ["this"]]), F.key(["mcall", ver, ["param", other]])

    def eq_atom(a, b):
        return [re.compile(r"^(%s == %s|%s == %s)$" % (re.escape(a), re.escape(b), re.escape(b), re.escape(a)))]
    acc = [e for e in exits(pm, PR, sub) if is_true_ret(e)]
    ctx.floor("PartiallySignedTransaction::Merge success exits", len(acc), 1)
    for e in acc:
        bf, _, _ = F.bind_atoms(e.formula, {"SAMEID": eq_atom(k_this_id, k_other_id), "THIS": k_this_id, "OTHER": k_other_id, "SAMEVER": eq_atom(k_this_v, k_other_v)})
        c1 = F.counterexample(bf, F.parse("SAMEID && THIS && OTHER"))
        ctx.ob("Merge/same-transaction@L%s" % e.line, "MPT", "PartiallySignedTransaction::Merge succeeds only if both PSBTs have a unique id and the ids are equal (justifies not "
               "merging outpoints, amounts, scripts and tx_version)", c1 is None, "%s:%s" % (pm.file, e.line), None if c1 is None else {"path": F.fshow(e.formula)[:400], "counterexample": c1})
        c2 = F.counterexample(bf, F.parse("SAMEVER"))
        ctx.ob("Merge/same-version@L%s" % e.line, "MPT", "PartiallySignedTransaction::Merge succeeds only if both PSBTs have the same PSBT version (justifies not merging m_version)",
               c2 is None, "%s:%s" % (pm.file, e.line), None if c2 is None else {"path": F.fshow(e.formula)[:400], "counterexample": c2})
    # the unique id is a hash of the unsigned transaction, which is built from the identity members
    gu = ctx.used(PR.fn(uid))
    ok = any(x[0] == "mcall" and x[1] == "PartiallySignedTransaction::GetUnsignedTx" and x[2] == ["this"] for _, e in all_exprs(gu.body) for x in subexprs(e))
    rets = [e for e in exits(gu, PR) if e.kind == "ret" and not contains(["global", "std::nullopt"], e.value)]
    ok = ok and bool(rets) and all(any(x[0] == "mcall" and short_name(x[1]) == "GetHash" for x in subexprs(F.expand(e.value, soft_naming(gu, PR)))) for e in rets)
    ctx.ob("GetUniqueID/hash-of-unsigned-tx", "PROVENANCE", "GetUniqueID returns GetHash() of the transaction built by GetUnsignedTx()", ok, gu.where)
    gt = ctx.used(PR.fn("PartiallySignedTransaction::GetUnsignedTx"))
    used = set()
    for _, e in all_exprs(gt.body):
        for x in subexprs(e):
            if x[0] == "." and len(x) == 3 and isinstance(x[2], str):
                for cls in CLASSES:
                    if x[2].startswith(cls + "::"):
                        used.add((cls, x[2][len(cls) + 2:]))
    need = {(cls, m) for cls in CLASSES for m in IDENTITY[cls] if m != "m_version"}
    ctx.ob("GetUnsignedTx/identity-members", "PROVENANCE", "the unsigned transaction is built from every identity member (tx_version, each input's prev_txid/prev_out, each output's "
           "amount/script)", need <= used, gt.where, {"missing": sorted(need - used)})
    return gt


# ------------------------------------------------------------------------------------------------ clause (3)
def timelock(ctx, PR, gt):
    f = ctx.used(PR.fn("PartiallySignedTransaction::ComputeTimeLock"))
    sub = naming(f, PR)
    loops = [st for st in stmts(f.body) if st.get("k") == "foreach" and members_in(st.get("range"), "PartiallySignedTransaction") == {"inputs"}]
    idx = [st for st in stmts(f.body) if st.get("k") == "for" and loop_range_key(st, sub) and "inputs" in str(loop_range_key(st, sub))]
    if len(loops) + len(idx) != 1:
        raise AnalysisBroken("ComputeTimeLock: expected exactly one loop over this->inputs")
    loop = (loops + idx)[0]
    body = loop.get("b")
    complete = not has_break(body) and not [st for st in stmts(body) if st.get("k") == "continue"]
    ctx.ob("ComputeTimeLock/loop", "LOOP", "ComputeTimeLock examines every input: one loop over this->inputs without break/continue", complete, "%s:%s" % (f.file, loop.get("l")))
    EACH_T = re.compile(r"^each\((this\.)?inputs\)\.time_locktime$")
    EACH_H = re.compile(r"^each\((this\.)?inputs\)\.height_locktime$")

    def in_loop(s):
        return any(l is loop for l in s.loops)

    # the two candidate locals, identified by what they accumulate
    role = {}
    accs = []
    for s in all_sites(f, PR):
        e = s.expr
        if e is not None and e[0] == "b" and e[1] == "=" and is_expr(e[2]) and e[2][0] == "local" and in_loop(s):
            rhs = F.expand(e[3], {k: v for k, v in sub.items() if k != e[2][1]})
            if is_expr(rhs) and rhs[0] == "call" and short_name(rhs[1]) == "max" and len(call_args(rhs)) == 2:
                ks = sorted(F.key(a) for a in call_args(rhs))
                fld = [k for k in ks if EACH_T.match(k) or EACH_H.match(k)]
                if len(fld) == 1 and e[2][1] in ks:
                    r = "T" if EACH_T.match(fld[0]) else "H"
                    role.setdefault(r, set()).add(e[2][1])
                    accs.append((r, s))
    if set(role) != {"T", "H"} or any(len(v) != 1 for v in role.values()):
        raise AnalysisBroken("ComputeTimeLock: the max() accumulators of time_locktime / height_locktime were not found (%s)" % role)
    TL, HL = next(iter(role["T"])), next(iter(role["H"]))
    ver = re.escape(F.key(["mcall", "PartiallySignedTransaction::GetVersion", ["this"]]))
    AT = {"T": EACH_T, "H": EACH_H, "TL": re.compile(r"^%s([#@]\w+)?$" % re.escape(TL)), "HL": re.compile(r"^%s([#@]\w+)?$" % re.escape(HL)),
          "TPOS": (re.compile(r"^\*%s([#@]\w+)? < 1$" % re.escape(TL)), False), "HPOS": (re.compile(r"^\*%s([#@]\w+)? < 1$" % re.escape(HL)), False),
          "V2": (re.compile(r"^%s < 2$" % ver), False), "DONE": re.compile(r"^done\(loop@%s\)$" % loop.get("l"))}

    def loop_guard(s):
        gs = [g for g in s.guards if g.kind in ("if", "sc") and g.line >= loop.get("l")]
        return F.bind_atoms(F.mk_and([g.formula(sub) for g in gs]), AT)

    def equiv(code, spec):
        bf, _, un = code
        sf = F.parse(spec)
        c = F.counterexample(bf, sf) or F.counterexample(sf, bf)
        return c is None, {"code": F.fshow(bf), "spec": spec, "unbound_atoms": un, "counterexample": c}

    decls = {st["n"]: st for st in stmts(f.body) if st.get("k") == "decl" and st.get("n") in (TL, HL)}
    ok = len(decls) == 2 and all(match(["ctor", "std::optional", ["int", 0]], d.get("i")) or match(["int", 0], d.get("i")) for d in decls.values())
    ctx.ob("ComputeTimeLock/start", "LADDER", "both candidates (time, height) start as `allowed, value 0`", ok, f.where)
    for r, s in accs:
        ok, d = equiv(loop_guard(s), "T && TL" if r == "T" else "H && HL")
        ctx.ob("ComputeTimeLock/accumulate-%s@L%s" % ("time" if r == "T" else "height", s.line), "LADDER", "the %s candidate becomes max(candidate, input's required %s locktime) exactly "
               "when the input has that requirement and the candidate is still allowed" % (("time", "time") if r == "T" else ("height", "height")), ok, s.where, None if ok else d)
    clears = {"T": [], "H": []}
    for s in all_sites(f, PR):
        e = s.expr
        if e is None or not in_loop(s):
            continue
        tgt = None
        if e[0] == "mcall" and short_name(e[1]) == "reset" and is_expr(e[2]) and e[2][0] == "local" and len(e) == 3:
            tgt = e[2][1]
        elif e[0] == "b" and e[1] == "=" and is_expr(e[2]) and e[2][0] == "local" and contains(["global", "std::nullopt"], e[3]):
            tgt = e[2][1]
        if tgt == TL:
            clears["T"].append(s)
        elif tgt == HL:
            clears["H"].append(s)
    ctx.floor("ComputeTimeLock candidate clears", len(clears["T"]) + len(clears["H"]), 2)
    for r, spec, what in (("H", "T && !H", "an input that requires a time lock and has no height lock rules out a height locktime"),
                          ("T", "!T && H", "an input that requires a height lock and has no time lock rules out a time locktime")):
        if not clears[r]:
            ctx.ob("ComputeTimeLock/clear-%s" % ("height" if r == "H" else "time"), "LADDER", what + " (the candidate is cleared)", False, f.where)
        for s in clears[r]:
            ok, d = equiv(loop_guard(s), spec)
            ctx.ob("ComputeTimeLock/clear-%s@L%s" % ("height" if r == "H" else "time", s.line), "LADDER", what + ": the candidate is cleared exactly under that condition", ok, s.where,
                   None if ok else d)
    ex = exits(f, PR, sub)
    kinds = {"nullopt": [], "height": [], "time": [], "fallback": [], "other": []}
    for e in ex:
        v = e.value
        if e.kind != "ret" or not is_expr(v):
            kinds["other"].append(e)
        elif contains(["global", "std::nullopt"], v):
            kinds["nullopt"].append(e)
        elif contains(["u", "*", ["local", HL]], v):
            kinds["height"].append(e)
        elif contains(["u", "*", ["local", TL]], v):
            kinds["time"].append(e)
        elif any(x[0] == "mcall" and short_name(x[1]) == "value_or" and root_member(x[2], "PartiallySignedTransaction") == "fallback_locktime" and match(["int", 0], x[3]) for x in subexprs(v)):
            kinds["fallback"].append(e)
        else:
            kinds["other"].append(e)
    ctx.floor("ComputeTimeLock exits", len(ex), 3)
    ctx.ob("ComputeTimeLock/results", "LADDER", "ComputeTimeLock returns only: nullopt, the height candidate, the time candidate, or fallback_locktime.value_or(0)", not kinds["other"], f.where,
           {"unexpected": [(e.line, show(e.value) if is_expr(e.value) else e.kind) for e in kinds["other"]]})
    inl = [e for e in kinds["nullopt"] if any(l is loop for l in e.loops)]
    outl = [e for e in kinds["nullopt"] if e not in inl]
    code = F.mk_or([F.mk_and([g.formula(sub) for g in e.guards if g.kind in ("if", "sc") and g.line >= loop.get("l")]) for e in inl])
    ok, d = equiv(F.bind_atoms(code, AT), "(T && !H && !TL) || (!T && H && !HL)")
    ctx.ob("ComputeTimeLock/undetermined", "LADDER", "nullopt (no valid locktime) is returned, while scanning, exactly for a time-only input when time was already ruled out or a "
           "height-only input when height was already ruled out - and nowhere else", ok and not outl and len(inl) >= 2, inl[0].site.where if inl else f.where,
           None if ok and not outl else dict(d, nullopt_outside_loop=[e.line for e in outl]))
    for name, spec, what in (("height", "V2 && DONE && HL && HPOS", "the height candidate is returned exactly when (version >= 2, all inputs scanned) it is still allowed and > 0: height is "
                                                                      "preferred over time"),
                             ("time", "V2 && DONE && !(HL && HPOS) && TL && TPOS", "the time candidate is returned exactly when the height candidate is not usable and time is allowed and > 0"),
                             ("fallback", "!V2 || (DONE && !(HL && HPOS) && !(TL && TPOS))", "fallback_locktime.value_or(0) is returned exactly for version < 2 or when neither candidate is usable")):
        es = kinds[name]
        code = F.mk_or([e.formula for e in es]) if es else F.Fa
        ok, d = equiv(F.bind_atoms(code, AT), spec)
        ctx.ob("ComputeTimeLock/%s" % name, "LADDER", what, ok and bool(es), es[0].site.where if es else f.where, None if ok else d)
    # the unsigned transaction uses it
    gsub = soft_naming(gt, PR)
    ctl = ["mcall", "PartiallySignedTransaction::ComputeTimeLock", ["this"]]
    lt = [x for _, e in all_exprs(gt.body) for x in subexprs(e) if x[0] == "b" and x[1] == "=" and is_expr(x[2]) and x[2][0] == "." and x[2][2] == "CMutableTransaction::nLockTime"]
    ok = len(lt) == 1 and contains(["u", "*", ctl], F.expand(lt[0][3], gsub))
    gex = exits(gt, PR, gsub)
    nul = [e for e in gex if e.kind == "ret" and contains(["global", "std::nullopt"], e.value)]
    okn = bool(nul) and all(F.implies(F.atom(F.key(ctl)), F.mk_not(e.formula)) for e in nul) and \
        all(F.implies(e.formula, F.atom(F.key(ctl))) for e in gex if e not in nul)
    ctx.ob("GetUnsignedTx/locktime", "PROVENANCE", "GetUnsignedTx sets nLockTime to the value of ComputeTimeLock() and yields no transaction exactly when it is undetermined", ok and okn, gt.where)


# ------------------------------------------------------------------------------------------------
def check(ctx):
    PR = ctx.program([READER_UNIT])
    PW = ctx.program([WRITER_UNIT])
    fillable = tables(ctx, PW, PR)
    gt = merge_coverage(ctx, PR, fillable)
    timelock(ctx, PR, gt)
    ctx.floor("C47 obligations", len(ctx.obs), 150)
