"""C42 Wallet encryption protects keys (DESIGN §3 C42)."""
import re

from sa.engine.api import *

UNITS = ["wallet/wallet.cpp", "wallet/scriptpubkeyman.cpp", "wallet/walletdb.cpp"]
EXPLANATION = ("ORDER rule on CWallet::EncryptWallet (must-happen and may-happen dataflow over all paths): TxnBegin succeeded before WriteMasterKey; "
               "WriteMasterKey before every spk_man->Encrypt(plain_master_key, encrypted_batch) (same batch object throughout); the loop over "
               "m_spk_managers is complete (no break/continue, Encrypt called unconditionally for each manager); a failed Encrypt leads to TxnAbort and "
               "the path never continues (may-analysis: no path with a failed Encrypt reaches TxnCommit); TxnCommit only after the loop; Lock() only "
               "after a successful TxnCommit; GetDatabase().Rewrite() only after commit and a Lock() with no Unlock in between; `return true` only "
               "after all of these with the wallet locked. DescriptorScriptPubKeyMan::Encrypt: a complete range-for over m_map_keys in which each "
               "key is EncryptSecret'ed (failure -> return false) and the *encrypted* output is what WriteCryptedDescriptorKey receives; the only batch "
               "write is WriteCryptedDescriptorKey; every `return true` is preceded by the finished loop and m_map_keys.clear(). "
               "WalletBatch::WriteCryptedDescriptorKey erases the plaintext record of the same (descriptor, pubkey) after writing the encrypted one.")
ASSUMPTIONS = ["EncryptSecret/EncryptMasterKey implement the cipher correctly (C49 not claimed)", "database transactions are atomic (storage semantics)",
               "WalletDatabase::Rewrite rewrites the file without slack space"]
CLAIM = dict(
    technique="static analysis: must-precede and may-reach dataflow over CWallet::EncryptWallet and DescriptorScriptPubKeyMan::Encrypt, loop completeness, "
              "argument provenance (ciphertext vs plaintext), record-key pairing in WriteCryptedDescriptorKey",
    text="For every path: encrypted keys are written inside one transaction that starts with the master key, commits only if every key manager encrypted all its "
         "keys, and aborts otherwise; the wallet is locked and the file rewritten before success is reported; each descriptor key is encrypted, its plaintext "
         "record erased and the in-memory plaintext map cleared, and no plaintext secret is handed to the batch on this path.",
    note="Not decided: file content as bytes, wrong-passphrase behaviour, crash atomicity (storage semantics), the cipher itself.",
    ref="DESIGN.md §3 C42")

W = "wallet::CWallet::"
B = "wallet::WalletBatch::"
D = "wallet::DescriptorScriptPubKeyMan::"


def _assert_false(s):
    """`assert(false)` / `assert(0)`: the extractor folds the literal to ["int", 0], which the engine's always_exits() does not recognise."""
    e = s.get("e") if isinstance(s, dict) and s.get("k") == "expr" else None
    return is_expr(e) and e[0] == "asserted" and s.get("m") in ("assert", "Assert", "CHECK_NONFATAL") and is_expr(e[1]) and \
        ((e[1][0] == "int" and int(e[1][1]) == 0) or (e[1][0] == "bool" and e[1][1] is False))


def _never_completes(s):
    if always_exits(s):
        return True
    if not isinstance(s, dict):
        return False
    if _assert_false(s):
        return True
    if s.get("k") == "seq":
        return any(_never_completes(x) for x in s.get("s", []))
    if s.get("k") == "if":
        return _never_completes(s.get("t")) and s.get("e") is not None and _never_completes(s.get("e"))
    return False


class StopAtAssertFalse(MustFlow):
    """MustFlow in which `assert(false)` terminates the path (abort)."""

    def stmt(self, s, st):
        if st is not None and _assert_false(s):
            return {"normal": None, "break": None, "continue": None}
        return super().stmt(s, st)


class MayFlow(StopAtAssertFalse):
    """labels that MAY have happened on some path (join = union)."""

    def join(self, a, b):
        return a | b


def _m(q):
    return lambda e: e[0] in ("mcall", "vcall") and e[1] == q


def check(ctx):
    P = ctx.program(UNITS)
    encrypt_wallet(ctx, P)
    spkm_encrypt(ctx, P)
    crypted_key_record(ctx, P)
    master_key_record(ctx, P)
    provider_cache(ctx, P)


def master_key_record(ctx, P):
    """A passphrase change re-writes the master-key record under the id it already has: the write must be allowed to replace
    the existing record (otherwise the change lives in memory only and the replaced passphrase keeps unlocking the file)."""
    wm = ctx.used(P.fn("wallet::WalletBatch::WriteMasterKey"))
    ex = [e for e in exits(wm, P) if e.kind == "ret"]
    ok = False
    det = None
    if len(ex) == 1 and is_expr(ex[0].value):
        calls = [x for x in subexprs(ex[0].value) if (callee(x) or "").endswith("WalletBatch::WriteIC")]
        if len(calls) == 1:
            a = [undefarg(x) for x in call_args(calls[0])]
            det = [show(x) for x in a]
            ok = len(a) >= 3 and match(["bool", True], a[2]) and contains(["param", wm.params[1]["n"]], a[1]) and "MASTER_KEY" in show(a[0]) and contains(["param", wm.params[0]["n"]], a[0])
    ctx.ob("WriteMasterKey/overwrites", "PROVENANCE", "WriteMasterKey stores (MASTER_KEY, id) -> the given master key with overwriting enabled, and returns the write's result",
           ok, wm.where, det)
    cw = ctx.used(P.fn("wallet::CWallet::ChangeWalletPassphrase"))
    ws = sites(cw, call_to("wallet::WalletBatch::WriteMasterKey"), P)
    ctx.floor("ChangeWalletPassphrase master-key writes", len(ws), 1)
    for s_ in ws:
        a = call_args(s_.expr)
        loops = [loop_range_key(l, naming(cw, P)) for l in s_.loops]
        csub = naming(cw, P)
        k0, k1 = F.key(F.expand(a[0], csub)), F.key(F.expand(a[1], csub))
        ok = any("mapMasterKeys" in k for k in loops) and re.search(r"(bind0\(each\(mapMasterKeys\)\)|each\(mapMasterKeys\)\.first)", k0) is not None and \
            re.search(r"(bind1\(each\(mapMasterKeys\)\)|each\(mapMasterKeys\)\.second)", k1) is not None
        ctx.ob("ChangeWalletPassphrase/rewrites-same-id@L%s" % s_.line, "PROVENANCE", "a passphrase change writes the re-encrypted master key back under the id of the entry it "
               "decrypted", ok, s_.where, {"args": [show(x) for x in a], "loops": loops})


# ------------------------------------------------------------------------------------------------
def encrypt_wallet(ctx, P):
    f = ctx.used(P.fn(W + "EncryptWallet"))
    begin, wmk, enc, abort, commit = _m(B + "TxnBegin"), _m(B + "WriteMasterKey"), _m("wallet::ScriptPubKeyMan::Encrypt"), _m(B + "TxnAbort"), _m(B + "TxnCommit")
    lock, unlock = _m(W + "Lock"), _m(W + "Unlock")
    rewrite = _m("wallet::WalletDatabase::Rewrite")
    encs = sites(f, enc, P)
    ctx.floor("EncryptWallet -> spk_man->Encrypt", len(encs), 1)
    # one batch object
    def batch_of(e):
        # raw pointer, smart pointer (`p.get()`, `*p`, `&*p`) and reference spellings denote the same object
        while is_expr(e) and ((e[0] == "mcall" and e[1].endswith("::get") and len(e) == 3) or (e[0] == "u" and e[1] in ("*", "&")) or (e[0] in ("cast", "ctor") and len(e) == 3)):
            e = e[2]
        return show(e)
    batches = {batch_of(call_obj(s.expr)) for s in sites(f, lambda e: begin(e) or wmk(e) or abort(e) or commit(e), P)} | {batch_of(call_args(s.expr)[1]) for s in encs if len(call_args(s.expr)) == 2}
    bl = [st for st in stmts(f.body) if st.get("k") == "decl" and st.get("n") in batches]
    ok = len(batches) == 1 and len(bl) == 1 and ("WalletBatch" in bl[0].get("ty", "")) and not [v for _, v in local_values(f, bl[0]["n"])[1:] if not match(["null"], v)]
    ctx.ob("EncryptWallet/one-batch", "PROVENANCE", "TxnBegin, WriteMasterKey, every Encrypt, TxnAbort and TxnCommit all operate on the same WalletBatch object", ok, f.where,
           {"batch_expressions": sorted(batches)})

    mf = StopAtAssertFalse(f, P, marks=[("masterkey", wmk), ("commit", commit), ("lock", lock), ("rewrite", rewrite)],
                  branch_marks=[("begin-ok", begin, True), ("commit-ok", commit, True)], kills=[("lock", unlock)])
    mf.watch = lambda e: wmk(e) or enc(e) or commit(e) or lock(e) or rewrite(e)
    mf.run()

    def need(pred, labels, oid, text):
        evs = [(e, s, st) for e, s, st in mf.events if pred(e)]
        # (a missing call is reported by the success-dominated obligation below)
        for e, state, st in evs:
            miss = [x for x in labels if x not in state]
            ctx.ob("EncryptWallet/%s@L%s" % (oid, st.get("l")), "ORDER", text, not miss, "%s:%s" % (f.file, st.get("l")), {"not_guaranteed_before": miss} if miss else None)

    need(wmk, ["begin-ok"], "masterkey-in-txn", "WriteMasterKey happens only after TxnBegin succeeded")
    need(enc, ["begin-ok", "masterkey"], "encrypt-after-masterkey", "every spk_man->Encrypt(.., encrypted_batch) happens inside the transaction, after the master key was written")
    need(commit, ["begin-ok", "masterkey"], "commit-after-masterkey", "TxnCommit happens only after the master key was written in the same transaction")
    need(rewrite, ["commit-ok", "lock"], "rewrite-after-commit-and-lock", "the database file is rewritten only after a successful TxnCommit and after Lock() with no Unlock in between")
    # first Lock after commit
    locks = [(e, s, st) for e, s, st in mf.events if lock(e)]
    for e, state, st in locks:
        ctx.ob("EncryptWallet/lock-after-commit@L%s" % st.get("l"), "ORDER", "Lock() is called only after TxnCommit succeeded", "commit-ok" in state, "%s:%s" % (f.file, st.get("l")))
    n = 0
    for state, st in mf.exits:
        if st.get("k") == "ret" and match(["bool", True], st.get("v")):
            n += 1
            miss = [x for x in ("begin-ok", "masterkey", "commit-ok", "lock", "rewrite") if x not in state]
            ctx.ob("EncryptWallet/success-dominated@L%s" % st.get("l"), "ORDER", "EncryptWallet returns true only after TxnBegin, WriteMasterKey, a successful TxnCommit, Lock() "
                   "(wallet left locked) and Rewrite() on every path", not miss, "%s:%s" % (f.file, st.get("l")), {"missing": miss} if miss else None)
    ctx.floor("EncryptWallet true returns", n, 1)

    # loop completeness + commit after the loop
    for s in encs:
        lp = s.loops[-1] if s.loops else None
        # (a `continue` after the call - e.g. `if (Encrypt(..)) continue;` - skips nothing; one before it would)
        ok = lp is not None and lp.get("k") == "foreach" and match([".", ["this"], W + "m_spk_managers"], lp.get("range")) and not has_break(lp.get("b")) and \
            not [x for x in stmts(lp.get("b")) if x.get("k") == "continue" and (x.get("l") or 0) < s.line]
        inner = [g for g in s.guards if g.kind in ("if", "sc", "case") and g.line >= (lp.get("l") if lp else 0)]
        a = call_args(s.expr)
        elem_ok = False
        if lp is not None and match(["local", ANY], call_obj(s.expr)):
            names = {lp["var"].get("n")} | set(lp["var"].get("binds") or [])
            d = [x for x in stmts(lp.get("b")) if x.get("k") == "decl" and x.get("n") == call_obj(s.expr)[1]]
            elem_ok = call_obj(s.expr)[1] in names or (len(d) == 1 and any(contains(["local", n], d[0].get("i")) for n in names if n))
        ctx.ob("EncryptWallet/all-managers@L%s" % s.line, "LOOP", "Encrypt is called unconditionally for every element of m_spk_managers (complete range-for, no break/continue)",
               bool(ok and not inner and elem_ok), s.where)
        for c in sites(f, commit, P):
            g = c.formula(naming(f, P))
            ok = F.implies(g, F.atom("done(loop@%s)" % lp.get("l"))) if lp is not None else False
            ctx.ob("EncryptWallet/commit-after-loop@L%s" % c.line, "ORDER", "TxnCommit is reached only after the loop over all key managers has finished", ok, c.where)
    # failure path: may-analysis
    may = MayFlow(f, P, marks=[("aborted", abort)], branch_marks=[("encrypt-failed", enc, False)])
    may.watch = lambda e: commit(e) or enc(e)
    may.run()
    bad = [st.get("l") for e, state, st in may.events if commit(e) and ("encrypt-failed" in state or "aborted" in state)]
    ctx.ob("EncryptWallet/no-commit-after-failure", "ORDER", "no path on which some spk_man->Encrypt returned false (or TxnAbort ran) reaches TxnCommit", not bad, f.where,
           {"commit_lines": bad} if bad else None)
    bad = [st.get("l") for e, state, st in may.events if enc(e) and "encrypt-failed" in state]
    ctx.ob("EncryptWallet/stop-at-first-failure", "ORDER", "after a failed Encrypt no further key manager is processed (the failure path leaves the function)", not bad, f.where)
    bad = [st.get("l") for state, st in may.exits if "encrypt-failed" in state and st.get("k") == "ret" and match(["bool", True], st.get("v"))]
    ctx.ob("EncryptWallet/failure-not-success", "ORDER", "no path with a failed Encrypt returns true", not bad, f.where)
    # the failure branch reaches TxnAbort
    # a failed Encrypt is followed by TxnAbort before the function is left: label set on the false edge of Encrypt, cleared by TxnAbort
    un = MayFlow(f, P, branch_marks=[("failed-unaborted", enc, False)], kills=[("failed-unaborted", abort)])
    un.watch = abort
    un.run()
    bad = sorted({st.get("l") for state, st in un.exits if "failed-unaborted" in state})
    ctx.ob("EncryptWallet/failure-aborts", "ORDER", "on every path on which an Encrypt failed, TxnAbort is called before the function returns", not bad and bool(un.events), f.where,
           {"exits_without_abort": bad} if bad else None)


# ------------------------------------------------------------------------------------------------
def spkm_encrypt(ctx, P):
    f = ctx.used(P.fn(D + "Encrypt"))
    if len(f.params) != 2:
        raise AnalysisBroken("DescriptorScriptPubKeyMan::Encrypt: unexpected signature")
    mk, batch = ["param", f.params[0]["n"]], ["param", f.params[1]["n"]]
    is_es = lambda e: is_call_to("wallet::EncryptSecret", e)
    is_w = _m(B + "WriteCryptedDescriptorKey")
    is_clear = lambda e: e[0] == "mcall" and e[1].endswith("::clear") and match([".", ["this"], D + "m_map_keys"], e[2])
    es = sites(f, is_es, P)
    ctx.floor("Encrypt -> EncryptSecret", len(es), 1)
    for s in es:
        lp = s.loops[-1] if s.loops else None
        ok = lp is not None and lp.get("k") == "foreach" and match([".", ["this"], D + "m_map_keys"], lp.get("range")) and not has_break(lp.get("b")) and \
            not [x for x in stmts(lp.get("b")) if x.get("k") == "continue" and (x.get("l") or 0) < s.line]
        inner = [g for g in s.guards if g.kind in ("if", "sc", "case") and lp is not None and g.line >= lp.get("l")]
        ctx.ob("SPKM::Encrypt/all-keys@L%s" % s.line, "LOOP", "EncryptSecret runs unconditionally for every element of m_map_keys (complete range-for, no break/continue)",
               bool(ok and not inner), s.where)
        a = call_args(s.expr)
        # plaintext derives from the loop element; output is a distinct local
        sub = naming(f, P)
        src = F.expand(a[1], {k: v for k, v in _all_single_defs(f).items()}) if len(a) == 4 else None
        lnames = ({lp["var"].get("n")} | set(lp["var"].get("binds") or [])) - {None} if lp is not None else set()
        ok = len(a) == 4 and match(mk, a[0]) and any(contains(["local", n], src) for n in lnames) and match(["local", ANY], a[3]) and not match(a[1], a[3])
        ctx.ob("SPKM::Encrypt/secret-is-key@L%s" % s.line, "PROVENANCE", "the plaintext given to EncryptSecret is the loop element's key and it is encrypted with the wallet master key "
               "into a separate output buffer", bool(ok), s.where, {"args": [show(x) for x in a]})
    mf = MustFlow(f, P, marks=[("cleared", is_clear)], branch_marks=[("secret-encrypted", is_es, True)])
    mf.watch = is_w
    mf.run()
    ctx.ob("SPKM::Encrypt/writes-encrypted-keys", "EFFECT", "DescriptorScriptPubKeyMan::Encrypt stores the encrypted keys with WriteCryptedDescriptorKey", bool(mf.events), f.where)
    outs = {show(call_args(s.expr)[3]) for s in es if len(call_args(s.expr)) == 4}
    for e, state, st in mf.events:
        a = call_args(e)
        ok = "secret-encrypted" in state and len(a) == 3 and show(a[2]) in outs and match(batch, call_obj(e))
        ctx.ob("SPKM::Encrypt/writes-ciphertext@L%s" % st.get("l"), "PROVENANCE", "WriteCryptedDescriptorKey is called only after EncryptSecret succeeded and is given EncryptSecret's "
               "output buffer (never the plaintext secret)", ok, "%s:%s" % (f.file, st.get("l")), {"args": [show(x) for x in a]})
    for ws_ in sites(f, is_w, P):
        lp = ws_.loops[-1] if ws_.loops else None
        ok = lp is not None and lp.get("k") == "foreach" and match([".", ["this"], D + "m_map_keys"], lp.get("range")) and \
            not [g for g in ws_.guards if g.kind in ("if", "sc", "case") and g.line >= lp.get("l")] and \
            not [x for x in stmts(lp.get("b")) if x.get("k") == "continue" and (x.get("l") or 0) < ws_.line]
        ctx.ob("SPKM::Encrypt/every-key-written@L%s" % ws_.line, "LOOP", "inside the loop over m_map_keys the encrypted key is written for every element (no condition or `continue` "
               "can skip the write once the secret was encrypted)", bool(ok), ws_.where)
    # only ciphertext writes on the batch
    others = sorted({x[1] for _, e in all_exprs(f.body) for x in subexprs(e) if x[0] in ("mcall", "vcall") and match(batch, x[2]) and x[1] != B + "WriteCryptedDescriptorKey"})
    ctx.ob("SPKM::Encrypt/only-crypted-writes", "WHO-MAY-CALL", "the only WalletBatch operation performed by DescriptorScriptPubKeyMan::Encrypt is WriteCryptedDescriptorKey", not others,
           f.where, {"other_batch_calls": others} if others else None)
    # success exits
    lps = [s.loops[-1] for s in es if s.loops]
    n = 0
    for state, st in mf.exits:
        if st.get("k") == "ret" and match(["bool", True], st.get("v")):
            n += 1
            ctx.ob("SPKM::Encrypt/cleared-before-success@L%s" % st.get("l"), "ORDER", "Encrypt returns true only after m_map_keys.clear() (no plaintext key stays in memory)",
                   "cleared" in state, "%s:%s" % (f.file, st.get("l")))
    ctx.floor("SPKM::Encrypt true returns", n, 1)
    sub = naming(f, P)
    for e in exits(f, P, sub):
        if is_true_ret(e) and lps:
            ok = F.implies(e.formula, F.atom("done(loop@%s)" % lps[0].get("l")))
            ctx.ob("SPKM::Encrypt/success-after-loop@L%s" % e.line, "ORDER", "Encrypt returns true only after the loop over all keys has finished", ok, "%s:%s" % (f.file, e.line))
    # clear happens after the loop, i.e. not before keys are encrypted
    for s in sites(f, is_clear, P):
        ok = bool(lps) and F.implies(s.formula(sub), F.atom("done(loop@%s)" % lps[0].get("l")))
        ctx.ob("SPKM::Encrypt/clear-after-loop@L%s" % s.line, "ORDER", "m_map_keys is cleared only after every key was encrypted and written", ok, s.where)
    # EncryptSecret failure -> return false
    may = MayFlow(f, P, branch_marks=[("failed", is_es, False)])
    may.run()
    bad = [st.get("l") for state, st in may.exits if "failed" in state and not (st.get("k") == "ret" and match(["bool", False], st.get("v"))) and st.get("k") != "throw"]
    ctx.ob("SPKM::Encrypt/failure-returns-false", "LADDER", "every path on which EncryptSecret failed returns false", not bad, f.where, {"exits": bad} if bad else None)


def _all_single_defs(f):
    out = {}
    cnt = {}
    for st in stmts(f.body):
        if st.get("k") == "decl" and st.get("n"):
            cnt[st["n"]] = cnt.get(st["n"], 0) + 1
            if is_expr(st.get("i")):
                out[st["n"]] = st["i"]
    return {k: v for k, v in out.items() if cnt[k] == 1 and len(local_values(f, k)) == 1}


# ------------------------------------------------------------------------------------------------
def crypted_key_record(ctx, P):
    f = ctx.used(P.fn(B + "WriteCryptedDescriptorKey"))
    pn = [p["n"] for p in f.params]
    wr = sites(f, _m(B + "WriteIC"), P)
    er = sites(f, _m(B + "EraseIC"), P)
    ctx.floor("WriteCryptedDescriptorKey WriteIC", len(wr), 1)

    defs = _all_single_defs(f)

    def rec(e):
        k = F.expand(call_args(e)[0], defs)
        g = [x for x in subexprs(k) if x[0] == "global"]
        rest = [show(x) for x in subexprs(k) if x[0] == "param"]
        return (g[0][1] if len(g) == 1 else None), rest

    wk, wids = rec(wr[0].expr)
    ok = wk == "wallet::DBKeys::WALLETDESCRIPTORCKEY" and len(call_args(wr[0].expr)) >= 2 and match(["param", pn[2]], call_args(wr[0].expr)[1]) and wids == pn[:2]
    ctx.ob("WriteCryptedDescriptorKey/record", "PROVENANCE", "the encrypted secret is stored under the WALLETDESCRIPTORCKEY record of (descriptor id, pubkey)", bool(ok), wr[0].where)
    mf = MustFlow(f, P, branch_marks=[("written", _m(B + "WriteIC"), True)])
    mf.watch = _m(B + "EraseIC")
    mf.run()
    ok = False
    for e, state, st in mf.events:
        ek, eids = rec(e)
        if ek == "wallet::DBKeys::WALLETDESCRIPTORKEY" and eids == wids and "written" in state:
            ok = True
    ctx.ob("WriteCryptedDescriptorKey/erases-plaintext", "ORDER", "after the encrypted record was written the plaintext WALLETDESCRIPTORKEY record of the same (descriptor id, pubkey) is erased",
           ok, f.where)
    n = 0
    for state, st in mf.exits:
        if st.get("k") == "ret" and match(["bool", True], st.get("v")):
            n += 1
    # true only after erase
    mf2 = MustFlow(f, P, marks=[("erased", lambda e: _m(B + "EraseIC")(e) and rec(e)[0] == "wallet::DBKeys::WALLETDESCRIPTORKEY")], branch_marks=[("written", _m(B + "WriteIC"), True)])
    mf2.run()
    for state, st in mf2.exits:
        if st.get("k") == "ret" and match(["bool", True], st.get("v")):
            ctx.ob("WriteCryptedDescriptorKey/success@L%s" % st.get("l"), "ORDER", "WriteCryptedDescriptorKey reports success only after the encrypted write succeeded and the plaintext "
                   "record was erased", "written" in state and "erased" in state, "%s:%s" % (f.file, st.get("l")))


# ------------------------------------------------------------------------------------------------
def provider_cache(ctx, P):
    """The per-index signing-provider cache of a descriptor manager outlives Lock() (nothing clears it), so it must never hold
    private keys: in GetSigningProvider(index, include_private) the object stored into m_map_signing_providers is stored before
    any private key is expanded into it (ExpandPrivate / key-map additions come after the store on every path)."""
    SPKM = "wallet::DescriptorScriptPubKeyMan::"
    FIELD = SPKM + "m_map_signing_providers"
    fs = [g for g in P.fns(SPKM + "GetSigningProvider") if len(g.params) == 2 and any("int" in (p_["ty"] or "") for p_ in g.params[:1])]
    if len(fs) != 1:
        raise AnalysisBroken("DescriptorScriptPubKeyMan::GetSigningProvider(index, include_private) not found")
    f = ctx.used(fs[0])
    is_store = lambda e: (e[0] in ("b", "opcall") and e[1] in ASSIGN_OPS and contains([".", ["this"], FIELD], e[2 if e[0] == "b" else 3])) or \
        (e[0] in ("mcall", "vcall") and str(e[1]).rsplit("::", 1)[-1] in ("emplace", "insert", "try_emplace", "insert_or_assign") and contains([".", ["this"], FIELD], e[2]))
    is_priv = lambda e: e[0] in ("mcall", "vcall") and str(e[1]).rsplit("::", 1)[-1] in ("ExpandPrivate",) or \
        (e[0] in ("mcall", "vcall") and str(e[1]).rsplit("::", 1)[-1] in ("emplace", "insert", "merge", "operator[]") and contains([".", ANY, "FlatSigningProvider::keys"], e[2]))
    from sa.engine.paths import MayFlow as EngineMayFlow      # (this module has a local MayFlow of its own)
    mf = EngineMayFlow(f, P, gens=[("private", is_priv)])
    mf.watch = is_store
    mf.run()
    ctx.floor("GetSigningProvider cache stores", len(mf.events), 1)
    for e, state, st in mf.events:
        ctx.ob("GetSigningProvider/cache-holds-no-private-keys@L%s" % st.get("l"), "ORDER", "the signing provider is stored in the per-index cache (which Lock() does not clear) only "
               "before any private key was expanded into it", "private" not in state, "%s:%s" % (f.file, st.get("l")))
    w = sorted({g_.q.rsplit("::", 1)[-1] for q_, lst in P.funcs.items() if q_.startswith(SPKM) and "::lambda" not in q_ for g_ in [x.simp() for x in lst]
                if g_.body is not None and sites(g_, is_store, P)})
    ctx.ob("who-writes/m_map_signing_providers", "WHO-MAY-WRITE", "the signing-provider cache is filled only by GetSigningProvider", w == ["GetSigningProvider"], None, {"writers": w})
