"""C21 Indexes and UTXO statistics agree with recomputation (DESIGN §3 C21)."""
import re

from sa.engine.api import *
from sa.rules._helpers_C import strip

UNITS = ["index/coinstatsindex.cpp", "index/base.cpp"]
INDEX_UNITS = ["index/base.cpp", "index/coinstatsindex.cpp", "index/txindex.cpp", "index/blockfilterindex.cpp", "index/txospenderindex.cpp"]
EXPLANATION = ("SYMMETRY between CoinStatsIndex::CustomAppend and CoinStatsIndex::RevertBlock: every MuHash operation of one function (ApplyCoinHash / "
               "RemoveCoinHash with its fully resolved outpoint and coin arguments, the loops it sits in and its in-loop condition) is extracted and must "
               "have exactly one counterpart in the other function with the inverse operation, the same iteration space, an equivalent condition and the "
               "same arguments (created non-unspendable outputs: Apply <-> Remove; spent prevouts taken from the undo data: Remove <-> Apply; the BIP30 "
               "duplicate-coinbase skip on both sides). Writer/reader table agreement: the map DB field <- running total written by CustomAppend equals "
               "the map running total <- DB field restored by RevertBlock and by CustomInit, and together with muhash it covers every field of DBVal; "
               "DBVal's single READWRITE body covers every field (arith fields through the ArithToUint256/UintToArith256 pair); the finalized MuHash "
               "is stored by CustomAppend and compared by RevertBlock/CustomInit. MPT: CustomAppend touches the running state only if the block's "
               "prev_hash equals the hash the state corresponds to; RevertBlock restores from the entry of height-1 whose hash was checked. ORDER in "
               "BaseIndex::Sync / BlockConnected: ProcessBlock of a block that does not extend the indexed tip is reached only after a successful "
               "Rewind to its parent; Rewind calls CustomRemove for every block from the old tip down to (excluding) the new tip.")
ASSUMPTIONS = ["ApplyCoinHash and RemoveCoinHash are inverse MuHash operations for equal (outpoint, coin) arguments; MuHash is order independent",
               "block.undo_data->vtxundo[i-1].vprevout[j] is the coin spent by input j of transaction i (undo data layout, C17)"]
CLAIM = dict(
    technique="static analysis: writer/reader symmetry of extracted operation sequences (connect vs disconnect), field-table agreement, must-pass-through guard implication",
    text="For all blocks: what CustomAppend adds to / removes from the running MuHash is exactly what RevertBlock removes / re-adds (same outputs, same "
         "skips, same arguments), the eleven running totals stored per block are exactly the ones restored on revert and on start-up, and the index base "
         "class appends a block on another branch only after rewinding block by block to the fork point. Functional tests exercise a few reorgs; this "
         "compares the two code paths structurally for every path.",
    note="Not decided: equality with a from-scratch ComputeUTXOStats, MuHash arithmetic and order independence, the other indexes (txindex, blockfilterindex, "
         "txospenderindex), restart behaviour beyond CustomInit's consistency check. CustomAppend runs its loops only for height > 0 while RevertBlock has no such "
         "guard around its loops (the genesis block is never disconnected); only the in-loop conditions are compared.",
    ref="DESIGN.md §3 C21")

APPLY, REMOVE = "kernel::ApplyCoinHash", "kernel::RemoveCoinHash"


# --------------------------------------------------------------------------------------------------
class Scope:
    """Resolves locals of a function at a given site: loop variables become $<depth>, scoped single
    declarations are replaced by their (resolved) initialiser, assertion wrappers are dropped."""

    def __init__(self, fn):
        self.fn = fn
        self.parent = {}
        self._walk(fn.body, None)

    def _walk(self, s, par):
        if not isinstance(s, dict):
            return
        self.parent[id(s)] = par
        for k in ("s",):
            for x in s.get(k) or []:
                self._walk(x, s)
        for h in s.get("h") or []:
            self._walk(h.get("b"), s)
        for k in ("t", "e", "b", "init"):
            if isinstance(s.get(k), dict):
                self._walk(s[k], s)

    def decl_for(self, stmt, name):
        """Nearest declaration of `name` visible at stmt (same or enclosing block, earlier position)."""
        cur = stmt
        while cur is not None:
            par = self.parent.get(id(cur))
            if par is None:
                return None
            if par.get("k") == "seq":
                sibs = par.get("s", [])
                idx = [i for i, x in enumerate(sibs) if x is cur]
                if idx:
                    for x in reversed(sibs[:idx[0]]):
                        if isinstance(x, dict) and x.get("k") == "decl" and x.get("n") == name:
                            return x
                        if isinstance(x, dict) and x.get("k") == "seq" and x.get("flat"):
                            for y in x.get("s", []):
                                if y.get("k") == "decl" and y.get("n") == name:
                                    return y
            if par.get("k") in ("for",) and isinstance(par.get("init"), dict) and par["init"].get("n") == name:
                return par["init"]
            cur = par
        return None

    def loop_depth_of(self, stmt, name):
        cur, loops = stmt, []
        while cur is not None:
            if cur.get("k") in ("for", "foreach", "while", "do"):
                loops.append(cur)
            cur = self.parent.get(id(cur))
        loops.reverse()
        for d, lp in enumerate(loops):
            if lp.get("k") == "for" and isinstance(lp.get("init"), dict) and lp["init"].get("n") == name:
                return d
        return None

    def written(self, name):
        for _, e in all_exprs(self.fn.body):
            for x in subexprs(e):
                if x[0] == "b" and x[1] in ASSIGN_OPS and x[2] == ["local", name]:
                    return True
        return False

    def resolve(self, e, stmt, depth=0):
        if not is_expr(e) or depth > 12:
            return e
        if e[0] == "asserted" and len(e) == 2:
            return self.resolve(e[1], stmt, depth)
        if e[0] in ("init", "cast", "defarg") and strip(e) is not e:
            return self.resolve(strip(e), stmt, depth)
        if e[0] == "local":
            d = self.loop_depth_of(stmt, e[1])
            if d is not None:
                return ["local", "$%d" % d]
            dc = self.decl_for(stmt, e[1])
            if dc is not None and is_expr(dc.get("i")) and not self.written(e[1]) and (dc.get("ty", "").startswith("const ") or dc.get("ty", "").endswith("&")):
                return self.resolve(dc["i"], dc, depth + 1)
            return e
        return [e[0]] + [self.resolve(x, stmt, depth) if is_expr(x) else x for x in e[1:]]


def in_loop_guards(site, outer):
    """Formula of the conditions guarding `site` inside its outermost loop `outer` (loop conditions themselves excluded)."""
    gs, inside = [], False
    for g in site.guards:
        if g.kind == "loop" and g.line == outer.get("l"):
            inside = True
            continue
        if inside and g.kind != "loop":
            gs.append(g)
    return gs


def guard_formula(sc, gs, anchor_stmt):
    fs = []
    for g in gs:
        if g.kind == "assert":
            continue
        if g.kind == "post":
            st = g.vals
            if not isinstance(st, dict):
                continue
            if st.get("k") == "if":
                # only early-exit ifs matter: `if (c) { ...; continue; }`  ->  !c
                from sa.engine.paths import always_exits
                if always_exits(st.get("t")) and st.get("e") is None:
                    fs.append(F.mk_not(F.to_formula(sc.resolve(st["c"], st))))
                elif st.get("e") is not None and always_exits(st.get("e")) and not always_exits(st.get("t")):
                    fs.append(F.to_formula(sc.resolve(st["c"], st)))
            continue
        if g.kind in ("if", "sc"):
            f = F.to_formula(sc.resolve(g.expr, anchor_stmt))
            fs.append(f if g.pol else F.mk_not(f))
    return F.mk_and(fs)


def muhash_ops(fn, P):
    sc = Scope(fn)
    ops = []
    for s in sites(fn, lambda e: callee(e) in (APPLY, REMOVE), P):
        if not s.loops:
            raise AnalysisBroken("%s: MuHash operation outside a loop at line %s" % (fn.q, s.line))
        args = [show(sc.resolve(a, s.stmt)) for a in call_args(s.expr)]
        loops = []
        for lp in s.loops:
            if lp.get("k") != "for" or not isinstance(lp.get("init"), dict):
                raise AnalysisBroken("%s: unexpected loop kind around a MuHash operation" % fn.q)
            loops.append("for(%s; %s; %s)" % (show(sc.resolve(lp["init"].get("i"), lp)), show(sc.resolve(lp.get("c"), lp.get("b") or lp)), show(sc.resolve(lp.get("inc"), lp.get("b") or lp))))
        g = guard_formula(sc, in_loop_guards(s, s.loops[0]), s.stmt)
        ops.append(dict(kind=callee(s.expr), args=args, loops=loops, guard=g, line=s.line, where=s.where))
    return ops


# --------------------------------------------------------------------------------------------------
def symmetry(ctx, P):
    fa, fr = ctx.used(P.fn("CoinStatsIndex::CustomAppend")), ctx.used(P.fn("CoinStatsIndex::RevertBlock"))
    A, R = muhash_ops(fa, P), muhash_ops(fr, P)
    ctx.floor("CustomAppend MuHash operations", len(A), 2)
    ctx.floor("RevertBlock MuHash operations", len(R), 2)
    inv = {APPLY: REMOVE, REMOVE: APPLY}
    used = set()
    for a in A:
        cands = [i for i, r in enumerate(R) if i not in used and r["kind"] == inv[a["kind"]] and r["args"] == a["args"] and r["loops"] == a["loops"]]
        ok = len(cands) == 1
        detail = {"append": {"op": a["kind"], "args": a["args"], "loops": a["loops"], "guard": F.fshow(a["guard"])},
                  "revert_ops": [{"op": r["kind"], "args": r["args"], "loops": r["loops"], "guard": F.fshow(r["guard"]), "line": r["line"]} for r in R]}
        ctx.ob("Symmetry/%s@L%s" % (a["kind"].rsplit("::", 1)[1], a["line"]), "SYMMETRY",
               "the %s of CustomAppend at line %s has exactly one counterpart in RevertBlock: the inverse operation over the same iteration space with the same "
               "(MuHash, outpoint, coin) arguments" % (a["kind"].rsplit("::", 1)[1], a["line"]), ok, a["where"], None if ok else detail)
        if ok:
            used.add(cands[0])
            r = R[cands[0]]
            gok = F.equivalent(a["guard"], r["guard"])
            ctx.ob("Symmetry/guard@L%s" % a["line"], "SYMMETRY", "that pair of operations is executed under equivalent in-loop conditions (same skips: BIP30 duplicate "
                   "coinbase, unspendable scripts, coinbase has no inputs)", gok, a["where"], None if gok else {"append": F.fshow(a["guard"]), "revert": F.fshow(r["guard"])})
    extra = [r for i, r in enumerate(R) if i not in used]
    ctx.ob("Symmetry/no-extra", "SYMMETRY", "RevertBlock performs no MuHash operation without a counterpart in CustomAppend", not extra, fr.where,
           None if not extra else {"unmatched": [(r["kind"], r["line"]) for r in extra]})
    # the conditions mention what they should
    for a in A:
        ats = " ".join(sorted(F.atoms(a["guard"])))
        if a["kind"] == APPLY:
            ok = "IsUnspendable()" in ats and "IsBIP30Unspendable(block.hash, block.height)" in ats
            ctx.ob("Append/created-guard@L%s" % a["line"], "MPT", "created outputs enter the MuHash only if their script is not unspendable and the transaction is not a "
                   "BIP30 duplicate coinbase", ok and F.implies(a["guard"], F.mk_not(F.atom([x for x in F.atoms(a["guard"]) if x.endswith("scriptPubKey.IsUnspendable()")][0]))),
                   a["where"], {"guard": F.fshow(a["guard"])})
        else:
            cb = [x for x in F.atoms(a["guard"]) if x.endswith(".IsCoinBase()")]
            ok = len(cb) >= 1 and F.implies(a["guard"], F.mk_not(F.atom(cb[0])))
            ctx.ob("Append/spent-guard@L%s" % a["line"], "MPT", "spent prevouts are removed from the MuHash for every non-coinbase transaction", ok, a["where"],
                   {"guard": F.fshow(a["guard"])})
    # argument shapes (what is hashed)
    for a in A:
        if a["kind"] == APPLY:
            ok = a["args"][0] == "m_muhash" and re.fullmatch(r"COutPoint\{block\.data\.vtx\.at\(\$0\)\.GetHash\(\), \$1\}", a["args"][1]) is not None and \
                re.fullmatch(r"Coin\{block\.data\.vtx\.at\(\$0\)\.vout\[\$1\], block\.height, block\.data\.vtx\.at\(\$0\)\.IsCoinBase\(\)\}", a["args"][2]) is not None
            text = "a created output is hashed as (txid, index j) -> Coin(vout[j], block height, is-coinbase)"
        else:
            ok = a["args"][0] == "m_muhash" and re.fullmatch(r"COutPoint\{block\.data\.vtx\.at\(\$0\)\.vin\[\$1\]\.prevout\.hash, block\.data\.vtx\.at\(\$0\)\.vin\[\$1\]\.prevout\.n\}", a["args"][1]) is not None and \
                re.fullmatch(r"block\.undo_data\.vtxundo\.at\(\$0 - 1\)\.vprevout\[\$1\]", a["args"][2]) is not None
            text = "a spent output is hashed as vin[j].prevout -> the undo coin vtxundo[i-1].vprevout[j] of the same transaction and input"
        ctx.ob("Append/args@L%s" % a["line"], "PROVENANCE", text, ok, a["where"], {"args": a["args"]})


# --------------------------------------------------------------------------------------------------
def field_tables(ctx, P):
    dbq = None
    for q in ("DBVal",):
        try:
            P.record(q)
            dbq = q
        except AnalysisBroken:
            pass
    if dbq is None:
        raise AnalysisBroken("record DBVal not found")
    fields = [f["n"] for f in P.record(dbq)["fields"]]
    fa, fr, fi = P.fn("CoinStatsIndex::CustomAppend"), P.fn("CoinStatsIndex::RevertBlock"), ctx.used(P.fn("CoinStatsIndex::CustomInit"))

    def member(e):
        e = strip(e)
        return e[2].rsplit("::", 1)[-1] if is_expr(e) and e[0] == "." and e[1] == ["this"] else None

    def dbfield(e):
        e = strip(e)
        if is_expr(e) and e[0] == "." and isinstance(e[2], str) and e[2].startswith("DBVal::"):
            return e[2].rsplit("::", 1)[-1], show(e[1])
        return None

    def table(fn, writer):
        t, objs, dup = {}, set(), []
        for st, e in all_exprs(fn.body):
            for x in subexprs(e):
                if x[0] == "b" and x[1] == "=":
                    lhs, rhs = (x[2], x[3])
                    d, m = (dbfield(lhs), member(rhs)) if writer else (dbfield(rhs), member(lhs))
                    if d and m:
                        if d[0] in t:
                            dup.append(d[0])
                        t[d[0]] = m
                        objs.add(d[1])
        return t, objs, dup
    ta, oa, da = table(fa, True)
    tr, orr, dr = table(fr, False)
    ti, oi, di = table(fi, False)
    want = set(fields) - {"muhash"}
    ok = set(ta) == want and not da and len(oa) == 1 and len(set(ta.values())) == len(ta)
    ctx.ob("Fields/append-covers", "SYMMETRY", "CustomAppend stores one distinct running total into every DBVal field except muhash (which receives the finalized MuHash)",
           ok, fa.where, {"missing": sorted(want - set(ta)), "extra": sorted(set(ta) - want), "objects": sorted(oa)})
    ok = tr == ta and not dr and len(orr) == 1
    ctx.ob("Fields/revert-restores", "SYMMETRY", "RevertBlock restores exactly the running totals CustomAppend stored, each from the field it was stored in",
           ok, fr.where, None if ok else {"append": ta, "revert": tr})
    ok = ti == ta and not di and len(oi) == 1
    ctx.ob("Fields/init-restores", "SYMMETRY", "CustomInit restores exactly the running totals CustomAppend stored, each from the field it was stored in",
           ok, fi.where, None if ok else {"append": ta, "init": ti})
    # muhash: finalize -> store / compare
    def finals(fn):
        return [call_args(x)[0] for _, e in all_exprs(fn.body) for x in subexprs(e) if is_call_to("MuHash3072::Finalize", x) and member(x[2]) == "m_muhash"]
    fin_a = finals(fa)
    st_a = [x for _, e in all_exprs(fa.body) for x in subexprs(e) if x[0] == "b" and x[1] == "=" and dbfield(x[2]) and dbfield(x[2])[0] == "muhash"]
    ok = len(fin_a) == 1 and len(st_a) == 1 and strip(st_a[0][3]) == strip(fin_a[0]) and dbfield(st_a[0][2])[1] in oa
    mf = MustFlow(fa, P, marks=[("final", lambda e: is_call_to("MuHash3072::Finalize", e))])
    mf.watch = lambda e: bool(st_a) and e is st_a[0]
    mf.run()
    ok = ok and bool(mf.events) and all("final" in s for _, s, _ in mf.events)
    ctx.ob("Fields/append-muhash", "SYMMETRY", "CustomAppend stores the finalized running MuHash in DBVal::muhash", ok, fa.where)
    for fn, oid, objs in ((fr, "revert", orr), (fi, "init", oi)):
        fin = finals(fn)
        cmp_ = [x for _, e in all_exprs(fn.body) for x in subexprs(e) if x[0] == "b" and x[1] in ("==", "!=") and
                any(dbfield(y) and dbfield(y)[0] == "muhash" and dbfield(y)[1] in objs for y in (x[2], x[3]))]
        ok = len(fin) == 1 and len(cmp_) == 1 and any(strip(y) == strip(fin[0]) for y in (cmp_[0][2], cmp_[0][3]))
        ctx.ob("Fields/%s-muhash" % oid, "SYMMETRY", "%s compares the finalized running MuHash with the stored DBVal::muhash of the entry it restores from" % fn.q, ok, fn.where)
    # the value written to the DB is the one that was filled, under the block's height key, tagged with the block hash
    wr = sites(fa, lambda e: e[0] in ("mcall", "vcall") and e[1].endswith("::Write") and len(call_args(e)) >= 2 and e[1].startswith("CDBWrapper"), P)
    ok = len(wr) == 1 and show(call_args(wr[0].expr)[0]) == "index_util::DBHeightKey{block.height}" or (len(wr) == 1 and "DBHeightKey" in show(call_args(wr[0].expr)[0]) and "block.height" in show(call_args(wr[0].expr)[0]))
    if ok:
        v = call_args(wr[0].expr)[1]
        ok = v[0] == "local" and all(o.startswith(v[1] + ".") for o in oa)
        first = [x for _, e in all_exprs(fa.body) for x in subexprs(e) if x[0] == "b" and x[1] == "=" and show(x[2]) == "%s.first" % v[1]]
        ok = ok and len(first) == 1 and show(first[0][3]) == "block.hash"
    ctx.ob("Fields/append-writes", "PROVENANCE", "CustomAppend writes the filled (block.hash, DBVal) pair under DBHeightKey(block.height)", bool(ok), fa.where)
    # DBVal serialisation: single body, every field
    so = [f for f in P.fns("DBVal::SerializationOps")]
    if not so:
        raise AnalysisBroken("DBVal::SerializationOps not found")
    covered, via = [], {}
    f0 = ctx.used(so[0])
    for st, e in all_exprs(f0.body):
        for x in subexprs(e):
            if callee(x) and callee(x).endswith("SerReadWriteMany"):
                for a in call_args(x):
                    d = dbfield(a)
                    if d:
                        covered.append(d[0])
                    elif is_expr(a) and a[0] == "local":
                        via[a[1]] = {"w": None, "r": None}
    for q, fl in P.funcs.items():
        if q.startswith("DBVal::SerializationOps::lambda"):
            for fn in fl:
                for _, e in all_exprs(fn.body):
                    for x in subexprs(e):
                        if x[0] == "b" and x[1] == "=":
                            if x[2][0] == "local" and x[2][1] in via and is_call_to("ArithToUint256", strip(x[3])) and dbfield(call_args(strip(x[3]))[0]):
                                via[x[2][1]]["w"] = dbfield(call_args(strip(x[3]))[0])[0]
                            if dbfield(x[2]) and is_call_to("UintToArith256", strip(x[3])) and strip(call_args(strip(x[3]))[0])[0] == "local":
                                n = strip(call_args(strip(x[3]))[0])[1]
                                if n in via:
                                    via[n]["r"] = dbfield(x[2])[0]
    okv = all(v["w"] is not None and v["w"] == v["r"] for v in via.values())
    allf = sorted(covered + [v["w"] for v in via.values() if v["w"]])
    ok = okv and allf == sorted(fields)
    ctx.ob("Fields/dbval-serialization", "SYMMETRY", "DBVal's single READWRITE body covers every field once; each arith field goes through a local that is filled with "
           "ArithToUint256(field) when writing and assigned back with UintToArith256 to the same field when reading", ok, f0.where,
           {"direct": covered, "converted": via, "fields": fields})


# --------------------------------------------------------------------------------------------------
def append_guard(ctx, P):
    f = P.fn("CoinStatsIndex::CustomAppend")
    sc = Scope(f)
    ss = sites(f, lambda e: callee(e) in (APPLY, REMOVE), P)
    for s in ss:
        fm = F.mk_and([g.formula(None) for g in s.guards if g.kind in ("post", "if")])
        ats = [a for a in F.atoms(fm) if "m_current_block_hash" in a and "==" in a]
        ok = False
        if len(ats) == 1 and F.implies(fm, F.atom(ats[0])):
            other = [x for x in ats[0].split(" == ") if x != "m_current_block_hash"]
            if len(other) == 1:
                d = [st for st in stmts(f.body) if st.get("k") == "decl" and st.get("n") == other[0]]
                src = show(sc.resolve(d[0]["i"], d[0])) if len(d) == 1 and is_expr(d[0].get("i")) else other[0]
                ok = src == "*block.prev_hash"
        ctx.ob("Append/on-top-of-state@L%s" % s.line, "MPT", "CustomAppend changes the MuHash only if the block's prev_hash equals the hash of the block the running "
               "state corresponds to", ok, s.where, {"guard_atoms": ats})
    cur = [x for st, e in all_exprs(f.body) for x in subexprs(e) if x[0] == "b" and x[1] == "=" and show(x[2]) == "m_current_block_hash"]
    ok = len(cur) == 1 and show(cur[0][3]) == "block.hash"
    ctx.ob("Append/state-hash", "EFFECT", "after appending, the running state is tagged with the appended block's hash", ok, f.where)
    r = P.fn("CoinStatsIndex::RevertBlock")
    cur = [x for st, e in all_exprs(r.body) for x in subexprs(e) if x[0] == "b" and x[1] == "=" and show(x[2]) == "m_current_block_hash"]
    ok = len(cur) == 1 and show(cur[0][3]) == "*block.prev_hash"
    ctx.ob("Revert/state-hash", "EFFECT", "after reverting, the running state is tagged with the reverted block's prev_hash", ok, r.where)
    # RevertBlock reads the entry for height-1 and verifies / replaces it by hash before using it
    rd = sites(r, lambda e: e[0] in ("mcall", "vcall") and e[1].endswith("::Read") and len(call_args(e)) == 2, P)
    keys = [show(call_args(s.expr)[0]) for s in rd]
    ok = len(rd) == 2 and "DBHeightKey" in keys[0] and "block.height - 1" in keys[0] and "DBHashKey" in keys[1] and len({show(call_args(s.expr)[1]) for s in rd}) == 1
    if ok:
        obj = show(call_args(rd[0].expr)[1])
        fm = rd[1].formula(None)
        ats = [a for a in F.atoms(fm) if a.startswith(obj + ".first == ") or a.endswith(" == " + obj + ".first")]
        ok = len(ats) == 1 and F.implies(fm, F.mk_not(F.atom(ats[0])))
        # failure of either read returns false
        for e in exits(r, P, {}):
            if is_true_ret(e):
                a1 = [a for a in F.atoms(e.formula) if "DBHeightKey" in a and a.endswith(".Read(%s, %s)" % (keys[0], obj)) or a == "m_db.Read(%s, %s)" % (keys[0], obj)]
                ok = ok and len(a1) == 1 and F.implies(F.mk_and([e.formula, F.mk_not(F.atom("block.height < 1"))]), F.atom(a1[0]))
    ctx.ob("Revert/source-entry", "MPT", "RevertBlock restores from the entry stored under height-1, replaced by the entry stored under the expected prev_hash when "
           "the hashes differ, and fails if a needed entry cannot be read", bool(ok), r.where, {"reads": keys})
    cr = ctx.used(P.fn("CoinStatsIndex::CustomRemove"))
    for e in exits(cr, P, {}):
        if is_true_ret(e):
            ok = F.implies(e.formula, F.atom("CoinStatsIndex::RevertBlock(block)"))
            ctx.ob("CustomRemove/reverts@L%s" % e.line, "MPT", "CustomRemove succeeds only if RevertBlock(block) succeeded", ok, "%s:%s" % (cr.file, e.line))


# --------------------------------------------------------------------------------------------------
def base_index(ctx, P):
    rw = ctx.used(P.fn("BaseIndex::Rewind"))
    pn = [p["n"] for p in rw.params]
    loops = [st for st in stmts(rw.body) if st.get("k") == "for"]
    if len(loops) != 1:
        raise AnalysisBroken("BaseIndex::Rewind: loop not found")
    L = loops[0]
    it = L["init"]["n"]
    ok = show(L["init"]["i"]) == pn[0] and show(L["c"]) == "%s != %s" % (it, pn[1]) and show(L["inc"]) == "%s = %s.pprev" % (it, it) and not has_break(L["b"])
    ctx.ob("Rewind/loop", "LADDER", "Rewind walks from the current tip along pprev until the new tip, without break", ok, "%s:%s" % (rw.file, L.get("l")),
           {"loop": (show(L["init"]["i"]), show(L["c"]), show(L["inc"]))})
    cr = [s for s in sites(rw, lambda e: e[0] in ("mcall", "vcall") and e[1] == "BaseIndex::CustomRemove", P)]
    ctx.floor("Rewind CustomRemove calls", len(cr), 1)
    for s in cr:
        a = call_args(s.expr)[0]
        d = [st for st in stmts(L) if st.get("k") == "decl" and a[0] == "local" and st.get("n") == a[1]]
        ok = L in s.loops and len(d) == 1 and is_call_to("kernel::MakeBlockInfo", strip(d[0]["i"])) and call_args(strip(d[0]["i"]))[0] == ["local", it]
        ctx.ob("Rewind/remove-arg@L%s" % s.line, "PROVENANCE", "CustomRemove is called, inside the loop, with the block info of the block being walked over", ok, s.where)
    RM = re.compile(r"BaseIndex::CustomRemove\(\w+\)")
    for e in exits(rw, P, {}):
        if is_true_ret(e):
            ok = F.implies(e.formula, F.atom("done(loop@%s)" % L.get("l")))
            ctx.ob("Rewind/complete@L%s" % e.line, "LADDER", "Rewind returns true only after the loop over all blocks to disconnect completed", ok, "%s:%s" % (rw.file, e.line))
    # inside the loop a failing CustomRemove returns false
    rej = []
    for e in exits(rw, P, {}):
        if L in e.loops and is_false_ret(e):
            gs = [g for g in e.guards if g.kind in ("if", "sc") and g.line is not None and g.line >= L.get("l")]
            rej.append(F.mk_and([g.formula(None) for g in gs]))
    f, _, _ = F.bind_atoms(F.mk_or(rej), {"REMOVED": RM})
    ok = F.implies(F.parse("!REMOVED"), f)
    ctx.ob("Rewind/remove-failure", "LADDER", "inside the loop a failing CustomRemove makes Rewind return false", ok, rw.where)
    sb = sites(rw, lambda e: e[0] in ("mcall", "vcall") and e[1] == "BaseIndex::SetBestBlockIndex", P)
    ok = len(sb) == 1 and call_args(sb[0].expr) == [["param", pn[1]]] and F.implies(sb[0].formula(None), F.atom("done(loop@%s)" % L.get("l")))
    ctx.ob("Rewind/best-block", "ORDER", "the best block index is moved to the new tip only after every block above it was removed", ok, rw.where)

    # Sync
    sy = ctx.used(P.fn("BaseIndex::Sync"))
    pb = sites(sy, lambda e: e[0] in ("mcall", "vcall") and e[1] == "BaseIndex::ProcessBlock", P)
    ctx.floor("Sync ProcessBlock calls", len(pb), 1)
    for s in pb:
        fm = F.unstale(s.formula(None))     # `cur = nxt` between the test and ProcessBlock is checked explicitly below
        arg = call_args(s.expr)[0]
        rws = [a for a in F.atoms(fm) if a.startswith("BaseIndex::Rewind(")]
        ok = False
        detail = {"atoms": sorted(a for a in F.atoms(fm) if "pprev" in a or "Rewind" in a)}
        if len(rws) == 1 and arg[0] == "local":
            m = re.fullmatch(r"BaseIndex::Rewind\((\w+), (\w+)\.pprev\)", rws[0])
            if m:
                cur, nxt = m.group(1), m.group(2)
                conn = [a for a in F.atoms(fm) if a in ("%s == %s.pprev" % (cur, nxt), "%s.pprev == %s" % (nxt, cur))]
                ok = len(conn) == 1 and F.implies(fm, F.mk_or([F.atom(conn[0]), F.atom(rws[0])])) and cur == arg[1]
                # the processed block is the successor: between the check and ProcessBlock, cur = nxt
                asg = [st.get("l") for st, e in all_exprs(sy.body) for x in subexprs(e) if x[0] == "b" and x[1] == "=" and x[2] == ["local", cur] and x[3] == ["local", nxt]]
                chk = [st.get("l") for st in stmts(sy.body) if st.get("k") == "if" and contains(["mcall", "BaseIndex::Rewind"], st.get("c"))]
                ok = ok and len(asg) == 1 and len(chk) == 1 and chk[0] < asg[0] < s.line
        ctx.ob("Sync/rewind-before-append@L%s" % s.line, "ORDER", "in the sync loop the next block is processed only if it extends the indexed block or a Rewind from "
               "the indexed block to the next block's parent succeeded", ok, s.where, detail)
    # BlockConnected
    bc = ctx.used(P.fn("BaseIndex::BlockConnected"))
    pb = sites(bc, lambda e: e[0] in ("mcall", "vcall") and e[1] == "BaseIndex::ProcessBlock", P)
    ctx.floor("BlockConnected ProcessBlock calls", len(pb), 1)
    from sa.rules._helpers_C import naming_x
    subst = naming_x(bc, P)
    for s in pb:
        fm = s.formula(subst)
        atoms = {"VALIDATED": "role.validated", "SYNCED": "m_synced", "BEST": "m_best_block_index.load()",
                 "GENESIS": ("pindex.nHeight", False),
                 "ANCESTOR": ["m_best_block_index.load().GetAncestor(pindex.nHeight - 1) == pindex.pprev", "pindex.pprev == m_best_block_index.load().GetAncestor(pindex.nHeight - 1)"],
                 "EXTENDS": ["m_best_block_index.load() == pindex.pprev", "pindex.pprev == m_best_block_index.load()"],
                 "REWOUND": "BaseIndex::Rewind(m_best_block_index.load(), pindex.pprev)"}
        g, mp, un = F.bind_atoms(fm, atoms)
        spec = "VALIDATED && SYNCED && ((!BEST && GENESIS) || (BEST && ANCESTOR && (EXTENDS || REWOUND)))"
        cex = F.counterexample(g, F.parse(spec))
        ok = cex is None and show(call_args(s.expr)[0]) == "pindex"
        ctx.ob("BlockConnected/rewind-before-append@L%s" % s.line, "ORDER", "a connected block is processed only for a validated chain once synced, and only if it is the "
               "genesis block of an empty index, or connects to an ancestor of the indexed tip and either extends the tip or a Rewind to its parent succeeded [%s]" % spec,
               ok, s.where, None if ok else {"counterexample": cex, "unbound": un[:10], "path_condition": F.fshow(fm)[:900]})


# --------------------------------------------------------------------------------------------------
class AltFlow(Flow):
    """Path-sensitive label flow: the state is a set of alternatives (one label set per class of paths; joins take the union)."""

    def __init__(self, fn, P, marks=(), kills=(), branch_marks=()):
        super().__init__(fn, P)
        self.marks, self.kills, self.branch_marks = list(marks), list(kills), list(branch_marks)
        self.watch, self.events = None, []

    def initial(self):
        return frozenset([frozenset()])

    def join(self, a, b):
        return a | b

    def on_expr(self, state, e, stmt):
        if self.watch is not None and self.watch(e):
            self.events.append((e, state, stmt))
        for label, pred in self.kills:
            if pred(e):
                state = frozenset(alt - {label} for alt in state)
        for label, pred in self.marks:
            if pred(e):
                state = frozenset(alt | {label} for alt in state)
        return state

    def refine(self, state, atom, pol):
        for label, pred, p in self.branch_marks:
            if p == pol and pred(atom):
                state = frozenset(alt | {label} for alt in state)
        return state


SET_BEST = lambda e: is_expr(e) and e[0] in ("mcall", "vcall") and e[1] == "BaseIndex::SetBestBlockIndex"
IS_PROCESS = lambda e: is_expr(e) and e[0] in ("mcall", "vcall") and e[1] == "BaseIndex::ProcessBlock"


def best_block(ctx, P):
    """Where the index's notion of 'indexed up to here' may come from."""
    from sa.rules._helpers_C import naming_x
    PX = ctx.program(INDEX_UNITS)
    callers = {}
    for q, fl in PX.funcs.items():
        for fn in fl:
            if fn.body is None or q == "BaseIndex::SetBestBlockIndex":
                continue
            n = sum(1 for _, e in all_exprs(fn.body) for x in subexprs(e) if SET_BEST(x))
            if n:
                callers[q] = n
    want = {"BaseIndex::Init", "BaseIndex::Sync", "BaseIndex::Rewind", "BaseIndex::BlockConnected"}
    ctx.ob("BestBlock/callers", "WHO-MAY-CALL", "within the index sources SetBestBlockIndex is called only from BaseIndex::Init, Sync, Rewind and BlockConnected", set(callers) == want,
           None, {"callers": callers})
    # ---- Init: nullptr for an empty locator, otherwise exactly the block named by the locator's top hash
    f = ctx.used(P.fn("BaseIndex::Init"))
    subst = naming_x(f, P)
    ss = sites(f, SET_BEST, P)
    ctx.floor("Init SetBestBlockIndex sites", len(ss), 1)
    LOC = r"BaseIndex::GetDB\(\)\.ReadBestBlock\(\)"
    TOP = re.compile(r"^m_chainstate\.m_blockman\.LookupBlockIndex\(%s\.vHave(\.at\(0\)|\.front\(\)|\[0\])\)$" % LOC)
    kinds = set()
    for s in ss:
        a = show(F.expand(strip(call_args(s.expr)[0]), subst))
        fm = s.formula(subst)
        null_atoms = [x for x in F.atoms(fm) if re.fullmatch(LOC + r"\.IsNull\(\)", x)]
        if a == "nullptr":
            ok = len(null_atoms) == 1 and F.implies(fm, F.atom(null_atoms[0]))
            kinds.add("null")
            text = "BaseIndex::Init resets the best block to nullptr only when the persisted locator is empty"
        else:
            found = [x for x in F.atoms(fm) if TOP.match(x)]
            ok = TOP.match(a) is not None and len(null_atoms) == 1 and F.implies(fm, F.mk_not(F.atom(null_atoms[0]))) and len(found) == 1 and F.implies(fm, F.atom(found[0]))
            kinds.add("top")
            text = ("BaseIndex::Init sets the best block to exactly the block looked up from the persisted locator's top hash (found in the block index) - never to a "
                    "block chosen through the active chain (fork point / tip), so that stale blocks are rewound by Sync")
        ctx.ob("BestBlock/Init@L%s" % s.line, "PROVENANCE", text, ok, s.where, None if ok else {"argument": a, "condition": F.fshow(fm)[:400]})
    ctx.ob("BestBlock/Init-cases", "PROVENANCE", "BaseIndex::Init handles both the empty-locator and the stored-locator case", kinds == {"null", "top"}, f.where)
    # ---- Sync: the block marked best is the stored best block or a block whose ProcessBlock succeeded
    sy = P.fn("BaseIndex::Sync")
    ss = sites(sy, SET_BEST, P)
    ctx.floor("Sync SetBestBlockIndex sites", len(ss), 1)
    locs = {strip(call_args(s.expr)[0])[1] if strip(call_args(s.expr)[0])[0] == "local" else None for s in ss}
    if len(locs) != 1 or None in locs:
        raise AnalysisBroken("BaseIndex::Sync: SetBestBlockIndex arguments are not one local")
    v = next(iter(locs))
    vals = local_values(sy, v)
    okv = bool(vals) and show(strip(vals[0][1])).startswith("m_best_block_index.load(") and all(is_expr(x) and x[0] == "local" for _, x in vals[1:])
    is_asg = lambda e: e[0] == "b" and e[1] in ASSIGN_OPS and e[2] == ["local", v]
    fl = AltFlow(sy, P, marks=[("stored", lambda e: e[0] == "mcall" and e[1] == "std::atomic::load" and show(e[2]) == "m_best_block_index")],
                 kills=[("stored", is_asg), ("processed", is_asg)],
                 branch_marks=[("processed", lambda a: IS_PROCESS(a) and strip(call_args(a)[0]) == ["local", v], True)])
    fl.watch = SET_BEST
    fl.run()
    for e, state, st in fl.events:
        ok = okv and all(("stored" in alt) or ("processed" in alt) for alt in state)
        ctx.ob("BestBlock/Sync@L%s" % st.get("l"), "ORDER", "in the sync loop the best block is set to the stored best block or to a block whose ProcessBlock succeeded since it "
               "became the current block (on every path)", ok, "%s:%s" % (sy.file, st.get("l")), None if ok else {"paths": [sorted(alt) for alt in state], "values": [(l, show(x)) for l, x in vals]})
    ctx.floor("Sync SetBestBlockIndex events", len(fl.events), 1)
    # ---- BlockConnected: the connected block, after it was processed
    bc = P.fn("BaseIndex::BlockConnected")
    for s in sites(bc, SET_BEST, P):
        fm = s.formula(None)
        a = strip(call_args(s.expr)[0])
        ats = [x for x in F.atoms(fm) if x.startswith("BaseIndex::ProcessBlock(%s" % show(a))]
        ok = a[0] == "param" and len(ats) == 1 and F.implies(fm, F.atom(ats[0]))
        ctx.ob("BestBlock/BlockConnected@L%s" % s.line, "ORDER", "BlockConnected marks the connected block as best only after ProcessBlock of that block succeeded", ok, s.where)


def check(ctx):
    P = ctx.program(UNITS)
    symmetry(ctx, P)
    field_tables(ctx, P)
    append_guard(ctx, P)
    base_index(ctx, P)
    best_block(ctx, P)
