"""C39 Transaction-origin privacy is preserved (DESIGN §3 C39)."""
import re

from sa.engine.api import *
from sa.engine import callgraph

UNITS = ["net_processing.cpp", "private_broadcast.cpp", "node/transaction.cpp"]
EXPLANATION = ("CALLGRAPH + PROVENANCE + guard rule. Every reference to NetMsgType::TX in net_processing.cpp is either a message-type comparison or the "
               "type argument of MakeAndPushMessage at exactly three audited sites: ProcessGetData (payload = the result of FindTxForGetData), "
               "ProcessGetBlockData (transactions of a block for a filtered-block request) and the GETDATA handler on a private-broadcast connection "
               "(payload = PrivateBroadcast::GetTxForNode, only for the single requested inv matching it). CConnman::PushMessage / NetMsg::Make have "
               "no other callers. FindTxForGetData returns only CTxMemPool::info_for_relay(id, m_last_inv_sequence).tx, an entry of "
               "m_most_recent_block_txs, or nothing, and calls no other mempool lookup; info_for_relay yields an entry only if GetSequence() < "
               "last_sequence; m_last_inv_sequence is written only in SendMessages, from CTxMemPool::GetSequence(), under the trickle flag. "
               "BroadcastTransaction with NO_MEMPOOL_PRIVATE_BROADCAST reaches ProcessTransaction only with test_accept=true, never AddUnbroadcastTx / "
               "InitiateTxBroadcastToAll, and returns InitiateTxBroadcastPrivate, from which no path reaches the mempool or the public relay. "
               "PushPrivateBroadcastTx/PickTxForSend/GetTxForNode have single callers on IsPrivateBroadcastConn() paths; PrivateBroadcast::Add inserts "
               "only below m_max_transactions; PickTxForSend records a send only for IsPending entries; IsPending is size() < m_max_send_attempts; "
               "the limits are 10'000 / 1'000 and PeerManagerImpl uses the defaults.")
ASSUMPTIONS = ["sendmsgtopeer (test-only RPC, operator supplied message) is not a peer-triggered path",
               "std::ranges::max_element over the IsPending-filtered view returns an element of that view (library semantics)",
               "CTxMemPoolEntry::GetSequence is the mempool entry sequence assigned at insertion"]
CLAIM = dict(
    technique="static analysis: who-may-send (message-type references over the unit + call graph), payload provenance, guard implication, who-may-write, predicate twins, constants",
    text="For all paths: a TX message leaves the node only from three sites whose payloads come from FindTxForGetData (relay-sequence filtered mempool "
         "entry or most recent block), a block's own transactions, or the private-broadcast slot of that very connection; the relay-sequence filter and "
         "its update point are pinned; a privately broadcast transaction is only test-accepted, never added to the mempool/unbroadcast set or "
         "announced publicly by the submission path, and the queue/attempt caps guard the only insertion/selection sites.",
    note="Not decided: interleaving semantics (histories), that m_most_recent_block_txs holds exactly the latest block's transactions, removal of a private "
         "transaction when it is received back (TX handler) is checked only as a call-site presence. 'One transaction per connection' is checked as "
         "single-caller structure (PickTxForSend only from PushPrivateBroadcastTx, itself only from the VERACK private-broadcast branch).",
    ref="DESIGN.md §3 C39")

TX = ["global", "NetMsgType::TX"]
MAPM = "PeerManagerImpl::MakeAndPushMessage"


def peel(e):
    while is_expr(e) and ((e[0] == "ctor" and len(e) == 3) or e[0] == "cast" or e[0] == "defarg"):
        e = e[2] if e[0] != "defarg" else e[1]
    return e


def unit_functions(P, suffix):
    for q, fl in P.funcs.items():
        for g in fl:
            if g.body is not None and g.file.endswith(suffix):
                yield g.simp()


def payload_roots(e):
    """locals / params / fields that the payload expression reads (serialisation-parameter globals excluded)."""
    roots = set()
    for x in subexprs(e):
        if x[0] in ("local", "param"):
            roots.add((x[0], x[1]))
        elif x[0] == "." and is_expr(x[1]) and x[1][0] == "this":
            roots.add(("field", x[2]))
    return roots


def exclusive_enums(f, extra=()):
    groups = {}
    for k in sorted(set(F.atoms(f)) | set(extra)):
        m = re.fullmatch(r"(.+) == (\w+(?:::\w+)+)", k)
        if m:
            groups.setdefault(m.group(1), []).append(k)
    ax = []
    for ks in groups.values():
        for i in range(len(ks)):
            for j in range(i + 1, len(ks)):
                ax.append(F.mk_not(F.mk_and([F.atom(ks[i]), F.atom(ks[j])])))
    return ax


def check(ctx):
    P = ctx.program(UNITS)
    cg = callgraph.load_all()
    send_sites(ctx, P, cg)
    find_tx(ctx, P, cg)
    inv_sequence(ctx, P, cg)
    private_submit(ctx, P, cg)
    private_queue(ctx, P, cg)
    private_reattempt(ctx, P)


# ------------------------------------------------------------------------------------------------
def send_sites(ctx, P, cg):
    total, compares, sends = 0, 0, []
    for g in unit_functions(P, "net_processing.cpp"):
        for st, e in all_exprs(g.body):
            for x in subexprs(e):
                if x == TX:
                    total += 1
                if x[0] == "b" and x[1] in ("==", "!=") and (peel(x[2]) == TX or peel(x[3]) == TX):
                    compares += 1
                if callee(x) == MAPM and len(call_args(x)) > 1 and peel(call_args(x)[1]) == TX:
                    sends.append((g, st, x))
    ctx.floor("references to NetMsgType::TX in net_processing.cpp", total, 4)
    ctx.ob("TXmsg/references", "WHO-MAY-SEND", "every reference to NetMsgType::TX in net_processing.cpp is a message-type comparison or the type argument of MakeAndPushMessage "
           "(no TX message is built through another API)", total == compares + len(sends), None, {"references": total, "comparisons": compares, "sends": len(sends)})
    where = sorted({g.q for g, _, _ in sends})
    want = ["PeerManagerImpl::ProcessGetBlockData", "PeerManagerImpl::ProcessGetData", "PeerManagerImpl::ProcessMessage"]
    ctx.ob("TXmsg/three-sites", "WHO-MAY-SEND", "a TX message is sent from exactly three sites: ProcessGetData, ProcessGetBlockData and the private-broadcast GETDATA branch of ProcessMessage",
           where == want and len(sends) == 3, None, {"sites": ["%s:%s" % (g.q, st.get("l")) for g, st, _ in sends]})
    pushers = sorted({c[0] for c in cg.call_sites("CConnman::PushMessage")})
    okp = set(pushers) <= {MAPM, "PeerManagerImpl::PushMessage"} | {p for p in pushers if p.startswith("sendmsgtopeer")}
    ctx.ob("who-calls/CConnman::PushMessage", "WHO-MAY-CALL", "CConnman::PushMessage is called only by net_processing's MakeAndPushMessage/PushMessage (and the test-only sendmsgtopeer RPC)",
           okp and MAPM in pushers, None, {"callers": pushers})
    makers = sorted({c[0] for c in cg.call_sites("NetMsg::Make") if not c[1].endswith("net_processing.cpp")})
    ctx.ob("who-calls/NetMsg::Make", "WHO-MAY-CALL", "no unit other than net_processing.cpp builds P2P messages with NetMsg::Make", not makers, None, {"callers": makers})

    for g, st, x in sends:
        ss = [s for s in sites(g, lambda e: e is x, P)]
        if len(ss) != 1:
            ss = [s for s in sites(g, lambda e: callee(e) == MAPM and peel(call_args(e)[1]) == TX, P) if s.line == st.get("l")]
        s = ss[0]
        subst = naming(g, P)
        f0 = s.formula(subst)
        payload = call_args(x)[2:]
        roots = set().union(*[payload_roots(p) for p in payload]) if payload else set()
        name = g.q.rsplit("::", 1)[-1]
        if g.q == "PeerManagerImpl::ProcessGetData":
            txl = [r[1] for r in roots if r[0] == "local" and r[1] not in subst]
            decls = [d["var"] for d in stmts(g.body) if d.get("k") == "if" and isinstance(d.get("var"), dict) and d["var"].get("n") in txl] + \
                    [d for d in stmts(g.body) if d.get("k") == "decl" and d.get("n") in txl]
            ok = len(txl) == 1 and len(decls) == 1 and is_call_to("PeerManagerImpl::FindTxForGetData", peel(decls[0].get("i"))) and not local_values_extra(g, txl[0])
            others = {r for r in roots if r != ("local", txl[0] if txl else None) and not (r[0] == "local" and ser_param_only(subst.get(r[1])))}
            ctx.ob("TXmsg/%s/payload@L%s" % (name, s.line), "PROVENANCE", "the transaction served for a GETDATA is exactly the result of FindTxForGetData for the requested inv "
                   "(the relay-sequence filter cannot be bypassed)", bool(ok) and not others, s.where, {"payload": [show(p) for p in payload], "other_roots": sorted(others)})
            ok2 = F.implies(f0, F.atom(txl[0])) if txl else False
            ctx.ob("TXmsg/%s/found@L%s" % (name, s.line), "MPT", "the TX message is sent only if FindTxForGetData returned a transaction", ok2, s.where)
        elif g.q == "PeerManagerImpl::ProcessGetBlockData":
            blk = [r[1] for r in roots if r[0] == "local" and "CBlock" in decl_type(g, r[1])]
            ok = len(blk) == 1 and any(contains(["idx", [".", ["local", blk[0]], "CBlock::vtx"]], p) for p in payload)
            others = {r for r in roots if r[0] != "local"}
            ctx.ob("TXmsg/%s/payload@L%s" % (name, s.line), "PROVENANCE", "the transactions pushed after a MERKLEBLOCK are elements of the served block's own vtx (confirmed transactions)",
                   ok and not others, s.where, {"payload": [show(p) for p in payload]})
            fb, mp, un = F.bind_atoms(f0, {"FILTERED": re.compile(r"\w+\.IsMsgFilteredBlk\(\)"), "HAVEDATA": re.compile(r"BLOCK_HAVE_DATA & \w+\.nStatus")})
            cex = F.counterexample(fb, F.parse("FILTERED && HAVEDATA"))
            ctx.ob("TXmsg/%s/guard@L%s" % (name, s.line), "MPT", "block transactions are pushed only for a filtered-block request of a block whose data is stored", cex is None, s.where,
                   None if cex is None else {"counterexample": cex})
        elif g.q == "PeerManagerImpl::ProcessMessage":
            reg = handler_region(g, "GETDATA")
            inreg = reg["l"] <= s.line <= max(x2.get("l") or 0 for x2 in stmts(reg["t"]))
            txl = [r[1] for r in roots if r[0] == "local"]
            src = peel(F.expand(["local", txl[0]], subst)) if len(txl) == 1 else None
            for _ in range(4):
                if is_expr(src) and src[0] == "u" and src[1] == "*":
                    src = peel(F.expand(src[2], subst))
            if is_expr(src) and src[0] == "local":
                vals = local_values(g, src[1])
                src = peel(vals[0][1]) if len(vals) == 1 else src
            if is_expr(src) and src[0] == "u" and src[1] == "*":
                inner = src[2]
                vals = local_values(g, inner[1]) if inner[0] == "local" else []
                src = peel(vals[0][1]) if len(vals) == 1 else src
            ok = is_expr(src) and src[0] in ("mcall", "vcall") and src[1] == "PrivateBroadcast::GetTxForNode" and \
                contains(["mcall", "CNode::GetId", ["param", ANY]], src) and match([".", ["this"], "PeerManagerImpl::m_tx_for_private_broadcast"], src[2])
            ctx.ob("TXmsg/GETDATA-private/payload@L%s" % s.line, "PROVENANCE", "on a private-broadcast connection the served transaction is the one recorded for this very node "
                   "(m_tx_for_private_broadcast.GetTxForNode(pfrom.GetId()))", bool(ok) and inreg, s.where, {"payload": [show(p) for p in payload], "source": show(src) if is_expr(src) else None})
            atoms = {"PRIVCONN": re.compile(r"\w+\.IsPrivateBroadcastConn\(\)"), "ONE": re.compile(r"\w+\.size\(\) == 1"), "ISTX": re.compile(r"\w+\[0\]\.IsMsgTx\(\)"),
                     "SAME": re.compile(r"\*?m_tx_for_private_broadcast\.GetTxForNode\(\w+\.GetId\(\)\)\.GetHash\(\)\.ToUint256\(\) == \w+\[0\]\.hash"),
                     "HAVE": re.compile(r"m_tx_for_private_broadcast\.GetTxForNode\(\w+\.GetId\(\)\)")}
            fb, mp, un = F.bind_atoms(f0, atoms)
            cex = F.counterexample(fb, F.parse("PRIVCONN && HAVE && ONE && ISTX && SAME"))
            ctx.ob("TXmsg/GETDATA-private/guard@L%s" % s.line, "MPT", "the private transaction is sent only on a private-broadcast connection, in answer to a GETDATA of exactly one "
                   "MSG_TX inv whose hash is that transaction's txid", cex is None, s.where, None if cex is None else {"counterexample": cex, "path_condition": F.fshow(f0)[-700:]})


def local_values_extra(g, name):
    """assignments to a local beyond its declaration"""
    return [v for st in stmts(g.body) for _, e in stmt_exprs(st) for v in subexprs(e)
            if v[0] == "b" and v[1] in ASSIGN_OPS and match(["local", name], v[2])]


def ser_param_only(e):
    """a local that only selects serialisation parameters (TX_NO_WITNESS / TX_WITH_WITNESS)"""
    if not is_expr(e):
        return False
    gl = [x for x in subexprs(e) if x[0] == "global"]
    return bool(gl) and all(x[1] in ("TX_NO_WITNESS", "TX_WITH_WITNESS") for x in gl) and not any(x[0] in ("mcall", "vcall", "call") and "CInv::" not in (callee(x) or "")
                                                                                                  for x in subexprs(e))


def decl_type(g, name):
    for st in stmts(g.body):
        if st.get("k") == "decl" and st.get("n") == name:
            return st.get("ty") or ""
    return ""


# ------------------------------------------------------------------------------------------------
def find_tx(ctx, P, cg):
    f = ctx.used(P.fn("PeerManagerImpl::FindTxForGetData"))
    region = [f.body]
    lam = [P.fn(q) for q in P.funcs if q.startswith(f.q + "::lambda")]
    region += [l.body for l in lam]
    # mempool method calls in the region: resolved (CTxMemPool::x) or template-dependent (generic visitor lambda: umcall on m_mempool)
    mpcalls = []
    for r in region:
        for st, e in all_exprs(r):
            for x in subexprs(e):
                if x[0] in ("mcall", "vcall") and x[1].startswith("CTxMemPool::"):
                    mpcalls.append((x[1].rsplit("::", 1)[-1], x, call_args(x), st))
                elif x[0] == "umcall" and contains([".", ANY, "PeerManagerImpl::m_mempool"], x[2]):
                    mpcalls.append((x[1], x, x[3:], st))
                elif x[0] in ("umem", "uref") and contains([".", ANY, "PeerManagerImpl::m_mempool"], x):
                    mpcalls.append((x[1], x, [], st))
    names = sorted({m[0] for m in mpcalls})
    ctx.ob("FindTxForGetData/mempool-lookups", "REGION", "FindTxForGetData consults the mempool only through CTxMemPool::info_for_relay (no get/info/exists lookup that ignores the relay sequence)",
           names == ["info_for_relay"], f.where, {"mempool_calls": names})
    n = 0
    for name, x, a, st in mpcalls:
        if name != "info_for_relay":
            continue
        n += 1
        seq = a[1] if len(a) > 1 else None
        # the sequence argument reads TxRelay::m_last_inv_sequence of the tx_relay parameter (possibly through WITH_LOCK)
        ok = is_expr(seq) and (contains([".", ANY, "Peer::TxRelay::m_last_inv_sequence"], seq) or lambda_returns(P, seq, "Peer::TxRelay::m_last_inv_sequence"))
        ctx.ob("FindTxForGetData/sequence@L%s" % st.get("l"), "PROVENANCE", "info_for_relay is asked with the peer's m_last_inv_sequence", bool(ok), "%s:%s" % (f.file, st.get("l")),
               {"argument": show(seq) if is_expr(seq) else None})
    ctx.floor("info_for_relay calls in FindTxForGetData", n, 1)
    subst = naming(f, P)
    for e in exits(f, P, subst):
        if e.kind != "ret" or not is_expr(e.value):
            continue
        v = peel(e.value)
        if v[0] == "call" and v[1] == "std::move":
            v = peel(v[2])
        kind = None
        if v[0] == "ctor" and len(v) == 2:
            kind = "nothing"
        elif match([".", ["local", ANY], "TxMempoolInfo::tx"], v):
            src = local_values(f, v[1][1])
            if len(src) == 1 and contains(["lambda", ANY], src[0][1]) and is_call_to("std::visit", peel(src[0][1])):
                kind = "info_for_relay"
        elif match([".", ["local", ANY], "std::pair::second"], v):
            src = local_values(f, v[1][1])
            if len(src) == 1 and match(["mcall", "std::map::find", [".", ["this"], "PeerManagerImpl::m_most_recent_block_txs"]], peel(src[0][1])):
                kind = "most-recent-block"
        ctx.ob("FindTxForGetData/returns@L%s" % e.line, "PROVENANCE", "FindTxForGetData returns only the relay-filtered mempool entry, an entry of m_most_recent_block_txs, or nothing",
               kind is not None, "%s:%s" % (f.file, e.line), {"value": show(e.value), "kind": kind})
    # the lambda returns the info_for_relay result
    is_ifr = lambda v: is_expr(v) and ((v[0] == "umcall" and v[1] == "info_for_relay") or is_call_to("CTxMemPool::info_for_relay", v))
    for l in lam:
        if any(is_ifr(x) for st, e in all_exprs(l.body) for x in subexprs(e)):
            for e in exits(l, P):
                if e.kind == "ret" and is_expr(e.value):
                    ctx.ob("FindTxForGetData/visitor@L%s" % e.line, "PROVENANCE", "the GenTxid visitor returns the info_for_relay result itself", is_ifr(peel(e.value)),
                           "%s:%s" % (l.file, e.line))
    callers = sorted({c[0] for c in cg.call_sites("CTxMemPool::info_for_relay")})
    # twin of info_for_relay
    ir = ctx.used(P.fn("CTxMemPool::info_for_relay"))
    rets = [e for e in exits(ir, P) if e.kind == "ret" and is_expr(e.value)]
    ok = False
    detail = None
    if len(rets) == 1 and rets[0].value[0] == "?:":
        c, a, b = rets[0].value[1:4]
        fb, mp_, un = F.bind_atoms(F.to_formula(c, naming(ir, P)), {"FOUND": re.compile(r"\w+(\.has_value\(\))?"), "OLDER": re.compile(r"\*?\w+(\.value\(\))?\.GetSequence\(\) < last_sequence")})
        ok = F.equivalent(fb, F.parse("FOUND && OLDER")) and is_call_to("CTxMemPool::GetInfo", peel(a)) and peel(b)[0] in ("init", "ctor") and not contains(["call", ANY], b)
        detail = {"condition": F.fshow(fb), "unbound": un}
    ctx.ob("info_for_relay/twin", "TWIN", "CTxMemPool::info_for_relay returns the entry's info exactly when the entry exists and its GetSequence() < last_sequence, else an empty TxMempoolInfo",
           bool(ok), ir.where, detail)


def lambda_returns(P, e, field):
    for x in subexprs(e):
        if x[0] == "lambda":
            l = P.fn(x[1])
            for ex in exits(l, P):
                if ex.kind == "ret" and is_expr(ex.value) and contains([".", ANY, field], ex.value):
                    return True
    return False


# ------------------------------------------------------------------------------------------------
def inv_sequence(ctx, P, cg):
    fld = "Peer::TxRelay::m_last_inv_sequence"
    ws = cg.writers(fld)
    wq = sorted({w[0] for w in ws})
    ok = bool(wq) and all(q == "PeerManagerImpl::SendMessages" or q.startswith("PeerManagerImpl::SendMessages::lambda") or q == "Peer::TxRelay::TxRelay" for q in wq)
    ctx.ob("who-writes/m_last_inv_sequence", "WHO-MAY-WRITE", "TxRelay::m_last_inv_sequence is written only inside PeerManagerImpl::SendMessages", ok, None, {"writers": wq})
    sm = ctx.used(P.fn("PeerManagerImpl::SendMessages"))
    subst = naming(sm, P)
    # the trickle flag: a bool local set true where the peer's next inv send time has passed
    flags = set()
    for st in stmts(sm.body):
        if st.get("k") == "decl" and "bool" in (st.get("ty") or ""):
            ts = sites(sm, lambda e: match(["b", "=", ["local", st["n"]], ["bool", True]], e), P)
            if ts and all(any("m_next_inv_send_time <" in k for k in F.atoms(t.formula(subst))) for t in ts):
                flags.add(st["n"])
    ss = sites(sm, lambda e: match(["b", "=", [".", ANY, fld]], e), P)
    ctx.floor("m_last_inv_sequence writes in SendMessages", len(ss), 2)
    for s in ss:
        v = s.expr[3]
        okv = contains(["mcall", "CTxMemPool::GetSequence"], v) or lambda_calls(P, v, "CTxMemPool::GetSequence")
        ctx.ob("SendMessages/last-inv-sequence-value@L%s" % s.line, "PROVENANCE", "m_last_inv_sequence is set to the mempool's current sequence number", bool(okv), s.where, {"value": show(v)})
        fb, mp, un = F.bind_atoms(s.formula(subst), {"TRICKLE": lambda k: k in flags})
        cex = F.counterexample(fb, F.parse("TRICKLE"))
        ctx.ob("SendMessages/last-inv-sequence-guard@L%s" % s.line, "MPT", "m_last_inv_sequence advances only when transaction announcements are being sent to the peer (trickle time reached)",
               cex is None and bool(flags), s.where, None if cex is None else {"counterexample": cex})
        # ... and only when something is actually announced: the peer asked for the mempool (BIP35), or the to-send queue is non-empty
        fb2, _, _ = F.bind_atoms(s.formula(subst), {"BIP35": re.compile(r".*m_send_mempool"), "NOTHING": re.compile(r"(invs|.*m_tx_inventory_to_send)\.empty\(\)")})
        cex2 = F.counterexample(fb2, F.parse("BIP35 || !NOTHING"))
        ctx.ob("SendMessages/last-inv-sequence-announces@L%s" % s.line, "MPT", "m_last_inv_sequence advances only when announcements are really sent: in answer to a BIP35 mempool "
               "request or with a non-empty to-send queue (a timer tick with nothing to announce must not make newer transactions requestable)", cex2 is None, s.where,
               None if cex2 is None else {"counterexample": cex2})


def lambda_calls(P, e, q):
    for x in subexprs(e):
        if x[0] == "lambda":
            l = P.fn(x[1])
            if any(True for _ in sites(l, call_to(q), P)):
                return True
    return False


# ------------------------------------------------------------------------------------------------
def private_submit(ctx, P, cg):
    bt = ctx.used(P.fn("node::BroadcastTransaction"))
    subst = naming(bt, P)
    mp = [p["n"] for p in bt.params if "TxBroadcast" in p["ty"]]
    if len(mp) != 1:
        raise AnalysisBroken("BroadcastTransaction: broadcast method parameter not found")
    priv = "%s == node::TxBroadcast::NO_MEMPOOL_PRIVATE_BROADCAST" % mp[0]

    def not_private(s):
        f0 = s.formula(subst)
        prem = F.mk_and([f0] + exclusive_enums(f0, [priv]))
        fb, m_, un = F.bind_atoms(prem, {"PRIVATE": priv})
        return F.counterexample(fb, F.parse("!PRIVATE"))

    ps = sites(bt, lambda e: callee(e) == "ChainstateManager::ProcessTransaction", P)
    ctx.floor("BroadcastTransaction ProcessTransaction sites", len(ps), 2)
    for s in ps:
        a = call_args(s.expr)
        test = len(a) > 1 and match(["bool", True], undefarg(a[1]))
        cex = None if test else not_private(s)
        ctx.ob("BroadcastTransaction/ProcessTransaction@L%s" % s.line, "MPT", "a transaction submitted for private broadcast reaches ProcessTransaction only with test_accept=true "
               "(it is never added to the mempool)", cex is None, s.where, None if cex is None else {"counterexample": cex})
    for q, what in [("CTxMemPool::AddUnbroadcastTx", "added to the unbroadcast set"), ("PeerManager::InitiateTxBroadcastToAll", "announced to all peers")]:
        ss = sites(bt, lambda e: callee(e) == q, P)
        ctx.floor("BroadcastTransaction %s sites" % q, len(ss), 1)
        for s in ss:
            cex = not_private(s)
            ctx.ob("BroadcastTransaction/%s@L%s" % (q.rsplit("::", 1)[-1], s.line), "MPT", "a transaction submitted for private broadcast is never %s" % what, cex is None, s.where,
                   None if cex is None else {"counterexample": cex})
    ss = sites(bt, lambda e: callee(e) == "PeerManager::InitiateTxBroadcastPrivate", P)
    ctx.floor("BroadcastTransaction InitiateTxBroadcastPrivate sites", len(ss), 1)
    for s in ss:
        fb, m_, un = F.bind_atoms(s.formula(subst), {"PRIVATE": priv})
        ok = F.implies(fb, F.parse("PRIVATE")) and s.stmt.get("k") == "ret"
        ctx.ob("BroadcastTransaction/ends-private@L%s" % s.line, "MPT", "the private method ends by returning InitiateTxBroadcastPrivate(tx) (and only it does)", ok, s.where)
    # under PRIVATE and not yet in the mempool a test accept always happens: the test-accept guard mentions PRIVATE
    tests = [s for s in ps if match(["bool", True], undefarg(call_args(s.expr)[1]))]
    okt = False
    for s in tests:
        own = F.mk_and([g.formula(subst) for g in s.guards if g.kind not in ("post",)])
        fb, m_, un = F.bind_atoms(own, {"PRIVATE": priv})
        okt = okt or any(k == "PRIVATE" for k in F.atoms(fb))
    ctx.ob("BroadcastTransaction/test-accept-for-private", "MPT", "the test-accept call is taken for the private method (its guard tests NO_MEMPOOL_PRIVATE_BROADCAST)", okt, bt.where)

    ip = ctx.used(P.fn("PeerManagerImpl::InitiateTxBroadcastPrivate"))
    seen = cg.reach({ip.q})
    bad = [t for t in ("PeerManagerImpl::InitiateTxBroadcastToAll", "CTxMemPool::AddUnbroadcastTx", "ChainstateManager::ProcessTransaction", "PeerManagerImpl::RelayTransaction",
                       "CTxMemPool::addNewTransaction", MAPM, "CConnman::PushMessage") if t in seen]
    ctx.ob("InitiateTxBroadcastPrivate/no-public-path", "CALLGRAPH", "no call path from InitiateTxBroadcastPrivate reaches the mempool, the public announcement queue or a message send",
           not bad, ip.where, {"reaches": [(t, cg.path(seen, t)) for t in bad]})
    adds = sites(ip, lambda e: callee(e) == "PrivateBroadcast::Add", P)
    ok = len(adds) >= 1 and all(match(["param", ip.params[0]["n"]], peel(call_args(s.expr)[0])) for s in adds)
    ctx.ob("InitiateTxBroadcastPrivate/queues", "EFFECT", "InitiateTxBroadcastPrivate queues the submitted transaction in m_tx_for_private_broadcast", ok, ip.where)

    # who may call the private-broadcast senders
    pm = ctx.used(P.fn("PeerManagerImpl::ProcessMessage"))
    psub = naming(pm, P)
    for q, allowed in [("PeerManagerImpl::PushPrivateBroadcastTx", {"PeerManagerImpl::ProcessMessage"}), ("PrivateBroadcast::PickTxForSend", {"PeerManagerImpl::PushPrivateBroadcastTx"}),
                       ("PrivateBroadcast::GetTxForNode", {"PeerManagerImpl::ProcessMessage"}), ("PrivateBroadcast::Add", {"PeerManagerImpl::InitiateTxBroadcastPrivate"})]:
        cs = sorted({c[0] for c in cg.call_sites(q)})
        ctx.ob("who-calls/%s" % q.rsplit("::", 1)[-1], "WHO-MAY-CALL", "%s is called only from %s" % (q, sorted(allowed)), bool(cs) and set(cs) <= allowed, None, {"callers": cs})
    for q in ("PeerManagerImpl::PushPrivateBroadcastTx", "PrivateBroadcast::GetTxForNode"):
        ss = sites(pm, lambda e: callee(e) == q, P)
        ctx.floor("ProcessMessage -> %s" % q, len(ss), 1)
        for s in ss:
            fb, m_, un = F.bind_atoms(s.formula(psub), {"PRIVCONN": re.compile(r"\w+\.IsPrivateBroadcastConn\(\)")})
            ok = F.implies(fb, F.parse("PRIVCONN"))
            ctx.ob("ProcessMessage/%s@L%s" % (q.rsplit("::", 1)[-1], s.line), "MPT", "%s is used only on a private-broadcast connection" % q, ok, s.where)
    pp = ctx.used(P.fn("PeerManagerImpl::PushPrivateBroadcastTx"))
    invs = sites(pp, lambda e: callee(e) == MAPM, P)
    ok = len(invs) == 1 and peel(call_args(invs[0].expr)[1]) == ["global", "NetMsgType::INV"]
    picks = sites(pp, lambda e: callee(e) == "PrivateBroadcast::PickTxForSend", P)
    ctx.ob("PushPrivateBroadcastTx/one-inv", "EFFECT", "PushPrivateBroadcastTx picks one transaction and sends a single INV message (outside any loop)",
           ok and len(picks) == 1 and not invs[0].loops and not picks[0].loops, pp.where)
    # the TX handler removes a transaction received back from the network
    reg = handler_region(pm, "TX")
    rem = [x for st, e in all_exprs(reg["t"]) for x in subexprs(e) if callee(x) == "PrivateBroadcast::Remove"]
    ctx.ob("TXmsg/received-back-removes", "EFFECT", "the TX handler removes a received transaction from the private-broadcast queue", len(rem) >= 1, "%s:%s" % (pm.file, reg["l"]))


# ------------------------------------------------------------------------------------------------
def private_queue(ctx, P, cg):
    PB = "PrivateBroadcast::"
    add = ctx.used(P.fn(PB + "Add"))
    ins = ("try_emplace", "emplace", "insert", "operator[]", "insert_or_assign", "emplace_hint", "merge")
    who = sorted({c[0] for m in ins for c in cg.field_calls(PB + "m_transactions", m)})
    ctx.ob("who-inserts/m_transactions", "WHO-MAY-WRITE", "transactions are inserted into the private-broadcast queue only in PrivateBroadcast::Add", who == [add.q], None, {"functions": who})
    is_ins = lambda e: e[0] in ("mcall", "vcall") and e[1].rsplit("::", 1)[-1] in ins and match([".", ["this"], PB + "m_transactions"], e[2])
    check_guard(ctx, add, P, is_ins, "BELOW", {"BELOW": "m_transactions.size() < m_max_transactions"}, "PrivateBroadcast::Add/insert",
                "a new transaction enters the queue only while it holds fewer than m_max_transactions entries")
    pb = ctx.used(P.fn(PB + "PrivateBroadcast"))
    inits = {i.get("f"): i.get("i") for i in pb.d.get("inits", []) or []}
    defs = {p["n"]: p.get("def") for p in pb.params}
    for fld, par, const, val in [("m_max_transactions", "max_transactions", "MAX_TRANSACTIONS", 10000), ("m_max_send_attempts", "max_send_attempts", "MAX_SEND_ATTEMPTS", 1000)]:
        ok = match(["param", par], peel(inits.get(PB + fld))) and match(["int", val, PB + const], defs.get(par)) and P.const(PB + const) == val
        ctx.ob("PrivateBroadcast/%s" % fld, "CONST", "%s is the constructor argument defaulting to %s == %d" % (fld, const, val), bool(ok), pb.where,
               {"init": show(inits.get(PB + fld)) if is_expr(inits.get(PB + fld)) else None, "default": defs.get(par)})
    ws = sorted({w[0] for f_ in ("m_max_transactions", "m_max_send_attempts") for w in cg.writers(PB + f_)})
    ctx.ob("who-writes/private-broadcast-limits", "WHO-MAY-WRITE", "the two limits are written only by the constructor", set(ws) <= {pb.q}, None, {"writers": ws})
    pmc = P.fn("PeerManagerImpl::PeerManagerImpl")
    ii = [i for i in pmc.d.get("inits", []) or [] if i.get("f") == "PeerManagerImpl::m_tx_for_private_broadcast"]
    ok = len(ii) == 1 and match(["ctor", "PrivateBroadcast", ["defarg", ["int", 10000]], ["defarg", ["int", 1000]]], ii[0].get("i"))
    ctx.ob("PeerManagerImpl/private-broadcast-defaults", "CONST", "PeerManagerImpl constructs its private-broadcast queue with the default limits (10'000 transactions, 1'000 attempts)", bool(ok),
           pmc.where, {"init": [show(i.get("i")) for i in ii]})

    ip = ctx.used(P.fn(PB + "IsPending"))
    rets = [e for e in exits(ip, P) if e.kind == "ret" and is_expr(e.value)]
    ok = len(rets) == 1 and match(["b", "<", ["mcall", "std::vector::size", [".", ["param", ANY], PB + "TxSendStatus::send_statuses"]], [".", ["this"], PB + "m_max_send_attempts"]], rets[0].value)
    ctx.ob("IsPending/twin", "TWIN", "IsPending(status) is exactly status.send_statuses.size() < m_max_send_attempts", ok, ip.where, {"value": [show(r.value) for r in rets]})
    pk = ctx.used(P.fn(PB + "PickTxForSend"))
    who = sorted({c[0] for m in ("emplace_back", "push_back", "insert", "emplace", "resize") for c in cg.field_calls(PB + "TxSendStatus::send_statuses", m)})
    ctx.ob("who-appends/send_statuses", "WHO-MAY-WRITE", "send attempts are recorded only in PickTxForSend", who == [pk.q], None, {"functions": who})
    subst = naming(pk, P)
    ss = sites(pk, lambda e: e[0] in ("mcall", "vcall") and e[1].rsplit("::", 1)[-1] in ("emplace_back", "push_back") and contains(["umem", "send_statuses"], e[2]) or
               (e[0] in ("mcall", "vcall") and e[1].rsplit("::", 1)[-1] in ("emplace_back", "push_back") and contains([".", ANY, PB + "TxSendStatus::send_statuses"], e[2])), P)
    ctx.floor("PickTxForSend send-attempt records", len(ss), 1)
    for s in ss:
        # object: <state>.send_statuses with state bound from *it, it = max_element(<view>), view = filter(m_transactions, IsPending)
        root = [x for x in subexprs(s.expr[2]) if x[0] == "local"]
        chain_ok, why = pending_chain(P, pk, subst, root[0][1] if root else None)
        ctx.ob("PickTxForSend/pending-only@L%s" % s.line, "PROVENANCE", "a send attempt is recorded only for an entry selected from the IsPending-filtered view of the queue "
               "(at most m_max_send_attempts attempts per transaction)", chain_ok, s.where, {"why": why})
        f0 = s.formula(subst)
        ends = [k for k in F.atoms(f0) if re.search(r"\.end\(\) == ", k) or re.search(r" == \w+\.end\(\)", k)]
        ok = bool(ends) and F.implies(f0, F.mk_not(F.atom(ends[0])))
        ctx.ob("PickTxForSend/found@L%s" % s.line, "MPT", "the attempt is recorded only if a pending entry was found (iterator != end of the filtered view)", ok, s.where)


def pending_chain(P, pk, subst, name):
    if name is None or name not in subst:
        return False, "send_statuses object is not a bound local"
    b = subst[name]
    if not (is_expr(b) and (b[0].startswith("bind") or (b[0] == "." and len(b) == 3 and b[2] in ("std::pair::first", "std::pair::second")))):
        return False, "object is not a structured binding / pair member of the selected entry"
    it = [x for x in subexprs(b) if x[0] == "local"]
    if len(it) != 1 or it[0][1] not in subst:
        return False, "binding source is not a single-definition iterator"
    sel = peel(subst[it[0][1]])
    if is_expr(sel) and sel[0] == "opcall" and is_expr(sel[3]) and sel[3][0] == "global" and sel[3][1] in ("std::ranges::max_element", "std::ranges::min_element", "std::ranges::find_if"):
        rng = sel[4]
    elif is_expr(sel) and sel[0] == "call" and sel[1].rsplit("::", 1)[-1] in ("max_element", "min_element"):
        rng = sel[2]
    else:
        return False, "iterator is not the result of a selection over a view: %s" % show(sel)[:80]
    view = peel(rng)
    if view[0] != "local":
        return False, "max_element range is not a local view"
    vals = local_values(pk, view[1])
    if len(vals) != 1:
        return False, "view has %d definitions" % len(vals)
    v = peel(vals[0][1])
    if not (is_expr(v) and v[0] == "call" and "filter" in v[1] and match([".", ["this"], "PrivateBroadcast::m_transactions"], v[2])):
        return False, "view is not a filter over m_transactions: %s" % show(v)[:80]
    lam = [x for x in subexprs(v) if x[0] == "lambda"]
    if len(lam) != 1:
        return False, "no filter predicate"
    l = P.fn(lam[0][1])
    rets = [e for e in exits(l, P) if e.kind == "ret" and is_expr(e.value)]
    ok = len(rets) == 1 and is_call_to("PrivateBroadcast::IsPending", rets[0].value) and F.implies(F.T, rets[0].formula)
    return bool(ok), "filter predicate is %s" % (show(rets[0].value) if rets else "?")


# ------------------------------------------------------------------------------------------------
def private_reattempt(ctx, P):
    """A stale private-broadcast transaction is only TEST-accepted before it is re-queued: the periodic task must not put it into
    the mempool (from where it would be announced to every peer, linking it to this node)."""
    f = ctx.used(P.fn("PeerManagerImpl::ReattemptPrivateBroadcast"))
    ps = sites(f, lambda e: callee(e) == "ChainstateManager::ProcessTransaction", P, "all")
    ctx.floor("ReattemptPrivateBroadcast ProcessTransaction calls", len(ps), 1)
    for s in ps:
        a = call_args(s.expr)
        ok = len(a) >= 2 and match(["bool", True], peel(a[1])) and a[1][0] != "defarg"
        ctx.ob("ReattemptPrivateBroadcast/test-accept-only@L%s" % s.line, "PROVENANCE", "the periodic private-broadcast task calls ProcessTransaction with test_accept = true "
               "(the stale transaction is validated, never submitted to the mempool)", ok, s.where, {"args": [show(x)[:60] for x in a]})
    subs = [q for q in ("CTxMemPool::addNewTransaction", "node::BroadcastTransaction") if sites(f, lambda e, q=q: callee(e) == q, P, "all")]
    ctx.ob("ReattemptPrivateBroadcast/no-submission", "WHO-MAY-CALL", "the task itself calls no mempool submission entry point", not subs, f.where, {"calls": subs} if subs else None)
