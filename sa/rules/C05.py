"""C05 Timelocks and coinbase maturity are enforced exactly (DESIGN §3 C05)."""
import re

from sa.engine.api import *
from sa.rules._helpers_A import *

UNITS = ["consensus/tx_verify.cpp", "validation.cpp"]
EXPLANATION = ("Twin/ladder conformance by truth tables over canonical atoms: IsFinalTx (nLockTime == 0, nLockTime < (nLockTime < 500000000 ? height : time), "
               "complete scan for nSequence == 0xffffffff, rejects only then); CalculateSequenceLocks (BIP68 gate version >= 2 && flag, disable bit 31, type bit 22, "
               "mask 0xffff, << 9, MTP of GetAncestor(max(h-1,0)), the -1, max accumulation from -1, pair order); EvaluateSequenceLocks (first < nHeight && second < "
               "pprev MTP); SequenceLocks composition; CheckTxInputs maturity rung (IsCoinBase && nSpendHeight - nHeight < 100 -> TX_PREMATURE_SPEND, and only then). "
               "ContextualCheckBlock: every transaction passes IsFinalTx(tx, pprev height + 1, CSV-active-after-prev ? pprev MTP : block time). ConnectBlock: "
               "CheckTxInputs gets pindex->nHeight; prevheights[j] = AccessCoin(vin[j].prevout).nHeight for all j before SequenceLocks(tx, flags, prevheights, *pindex); "
               "flags carries LOCKTIME_VERIFY_SEQUENCE iff DeploymentActiveAt(CSV); a failed check records bad-txns-nonfinal (BLOCK_CONSENSUS) and ConnectBlock returns "
               "true only with a valid state. All named constants pinned.")
ASSUMPTIONS = ["CBlockIndex::GetMedianTimePast / GetAncestor are correct (property C54)", "std::max / std::make_pair library semantics",
               "ValidationState::IsValid() is false after Invalid() and is never reset"]
CLAIM = dict(
    technique="static analysis: twin conformance of small pure functions (truth tables over canonical atoms + canonical arithmetic terms), reject ladders, "
              "argument provenance, constants",
    text="Decides, for all inputs, the decision structure and the exact boundary operators/constants of IsFinalTx, CalculateSequenceLocks, EvaluateSequenceLocks and the "
         "coinbase-maturity rung, and that ContextualCheckBlock / ConnectBlock apply them to every transaction with the specified height, time cutoff, flag and "
         "previous-output heights. Unit tests check a few fixed heights; this fixes every comparison operator and offset.",
    note="Not decided: GetMedianTimePast/GetAncestor correctness (C54), reorg histories (dynamic), integer-width casts (treated as transparent).",
    ref="DESIGN.md §3 C05")


def check(ctx):
    P = ctx.program(UNITS)
    consts(ctx, P)
    is_final_tx(ctx, P)
    calculate_sequence_locks(ctx, P)
    evaluate_sequence_locks(ctx, P)
    maturity(ctx, P)
    contextual(ctx, P)
    connect_block(ctx, P)


def consts(ctx, P):
    for name, want, txt in [("COINBASE_MATURITY", 100, "100"), ("LOCKTIME_THRESHOLD", 500000000, "500,000,000"),
                            ("CTxIn::SEQUENCE_FINAL", 0xffffffff, "0xffffffff"), ("CTxIn::SEQUENCE_LOCKTIME_DISABLE_FLAG", 1 << 31, "1 << 31"),
                            ("CTxIn::SEQUENCE_LOCKTIME_TYPE_FLAG", 1 << 22, "1 << 22"), ("CTxIn::SEQUENCE_LOCKTIME_MASK", 0xffff, "0x0000ffff"),
                            ("CTxIn::SEQUENCE_LOCKTIME_GRANULARITY", 9, "9 (512-second units)"), ("LOCKTIME_VERIFY_SEQUENCE", 1, "1 << 0")]:
        v = P.const(name)
        ctx.ob("const/%s" % name, "CONST", "%s == %s" % (name, txt), v == want, None, {"value": v})


# ---------------------------------------------------------------------------------------------- IsFinalTx
def is_final_tx(ctx, P):
    f = ctx.used(P.fn("IsFinalTx"))
    subst = naming(f, P)
    atoms = {"NL": "tx.nLockTime",
             "LT": re.compile(r"tx\.nLockTime < \(tx\.nLockTime < 500000000\) \? nBlockHeight : nBlockTime"),
             "SEQFINAL": "each(tx.vin).nSequence == 4294967295"}
    ex = exits(f, P, subst)
    acc = [e for e in ex if is_true_ret(e)]
    rej = [e for e in ex if is_false_ret(e)]
    ctx.ob("IsFinalTx/exits", "TWIN", "IsFinalTx exits only by `return true` / `return false`", len(acc) + len(rej) == len(ex) and bool(acc) and bool(rej), f.where)
    check_loop_rung(ctx, f, P, "non-final-input", "!SEQFINAL", atoms, r"each\(tx\.vin\)", acc, rej, when="NL && !LT", subst=subst)
    for e in rej:
        f_, mapping, un = bound(nf(f, subst, e.formula), atoms)
        cex = F.counterexample(f_, F.parse("NL && !LT && !SEQFINAL"))
        ok = cex is None
        ctx.ob("IsFinalTx/reject-only-if@L%s" % e.line, "TWIN", "IsFinalTx returns false only if nLockTime != 0, the lock is not yet reached (strict <) and some input "
               "has nSequence != SEQUENCE_FINAL", ok, "%s:%s" % (f.file, e.line), None if ok else {"path_condition": F.fshow(e.formula), "unbound_code_atoms": un, "counterexample": cex})
    # the accepting early exits are exactly the two spec shortcuts
    for e in acc:
        if e.loops:
            continue
        f_, mapping, un = bound(nf(f, subst, e.formula), atoms)
        ok = not un
        ctx.ob("IsFinalTx/accept-atoms@L%s" % e.line, "TWIN", "the accepting exit at line %s depends only on nLockTime == 0 and nLockTime < (nLockTime < LOCKTIME_THRESHOLD ? "
               "nBlockHeight : nBlockTime)" % e.line, ok, "%s:%s" % (f.file, e.line), None if ok else {"unbound_code_atoms": un})


# ---------------------------------------------------------------------------------------------- BIP68
def calculate_sequence_locks(ctx, P):
    f = ctx.used(P.fn("CalculateSequenceLocks"))
    subst = naming(f, P)
    ex = exits(f, P, subst)
    pairs = [e for e in ex if is_call_to("std::make_pair", e.value)]
    ok = len(pairs) == len(ex) == 2 and all(len(call_args(e.value)) == 2 and all(a[0] == "local" for a in call_args(e.value)) for e in pairs) \
        and len({show(e.value) for e in pairs}) == 1
    ctx.ob("CalculateSequenceLocks/exits", "TWIN", "CalculateSequenceLocks has two exits, both returning make_pair(<min height local>, <min time local>)", ok, f.where,
           {"returns": [(e.line, show(e.value)) for e in ex]})
    if not ok:
        return
    H, T = [a[1] for a in call_args(pairs[0].value)]
    dH, dT = decl_of(f, H), decl_of(f, T)
    ctx.ob("CalculateSequenceLocks/init", "TWIN", "both minima start at -1 (no constraint)", dH is not None and dT is not None and match(["int", -1], dH.get("i"))
           and match(["int", -1], dT.get("i")), f.where)
    lps = [lp for lp in loops_in(f) if lp.get("k") in ("for", "foreach")]
    if len(lps) != 1:
        raise AnalysisBroken("CalculateSequenceLocks: expected exactly one loop over the inputs")
    lp = lps[0]
    info = loop_info(f, lp, subst)
    if info["kind"] != "index":
        raise AnalysisBroken("CalculateSequenceLocks: the input loop is not a counting loop (prevHeights needs the index)")
    i = info["var"]
    okl = info["start"] == "0" and "tx.vin" in info["ranges"] and info["complete"]
    ctx.ob("CalculateSequenceLocks/loop", "TWIN", "the input loop visits every index 0 .. vin.size()-1 without break", okl, "%s:%s" % (f.file, lp.get("l")),
           {"loop": [i, info["start"], info["cond"]], "complete": info["complete"]})
    seq = elem_rx(info) + r"\.nSequence"
    ph = r"prevHeights\[%s\]" % re.escape(i)
    atoms = {"SIZES": "prevHeights.size() == tx.vin.size()", "V2": ("tx.version < 2", False), "FLAG": "1 & flags",
             "DISABLE": re.compile(r"2147483648 & " + seq), "TIME": re.compile(r"4194304 & " + seq)}
    norm = lambda fm: drop_loop_conds(fm, [info])
    early = [e for e in pairs if not F.implies(e.formula, F.atom("done(loop@%s)" % lp.get("l")))]
    late = [e for e in pairs if e not in early]
    okx = len(early) == 1 and len(late) == 1
    ctx.ob("CalculateSequenceLocks/exit-order", "TWIN", "one exit precedes the input loop (BIP68 not enforced) and one follows it", okx, f.where)
    if okx:
        check_equiv(ctx, early[0].formula, "SIZES && !(V2 && FLAG)", atoms, "CalculateSequenceLocks/gate", "TWIN",
                    "(-1,-1) is returned before the loop exactly when !(tx.version >= 2 && (flags & LOCKTIME_VERIFY_SEQUENCE))", "%s:%s" % (f.file, early[0].line))
        check_equiv(ctx, norm(late[0].formula), "SIZES && V2 && FLAG", atoms, "CalculateSequenceLocks/final-exit", "TWIN",
                    "the computed minima are returned after the complete loop", "%s:%s" % (f.file, late[0].line))
    # writes to the two minima
    anc = r"(?:ASSERT\()?block\.GetAncestor\(std::max\(" + ph + r" - 1, 0\)\)\)?\.GetMedianTimePast\(\)"
    want = {
        T: (re.compile(re.escape("%s = std::max(%s, (" % (T, T)) + r"(?:\(int64_t\))?" + re.escape("((65535 & ") + seq + re.escape(") << 9) + ") + anc + re.escape(") - 1)")), "SIZES && V2 && FLAG && !DISABLE && TIME",
            "min time = max(min time, MTP(ancestor at max(coin height - 1, 0)) + ((nSequence & 0xffff) << 9) - 1), exactly for enabled time-based inputs"),
        H: (re.compile(re.escape("%s = std::max(%s, (" % (H, H)) + r"(\(int\))?" + re.escape("(65535 & ") + seq + re.escape(") + ") + ph + re.escape(") - 1)")), "SIZES && V2 && FLAG && !DISABLE && !TIME",
            "min height = max(min height, coin height + (nSequence & 0xffff) - 1), exactly for enabled height-based inputs"),
    }
    for name, (rx, spec, text) in want.items():
        ws = sites(f, lambda e, n=name: e[0] == "b" and e[1] in ASSIGN_OPS and match(["local", n], e[2]), P)
        okw = len(ws) == 1 and ws[0].loops == [lp]
        k = F.key(F.expand(ws[0].expr, subst)) if ws else None
        okw = okw and rx.fullmatch(k) is not None
        ctx.ob("CalculateSequenceLocks/update:%s" % name, "TWIN", text + " [single assignment inside the input loop, canonical term]", okw, ws[0].where if ws else f.where, {"term": k})
        if ws:
            check_equiv(ctx, norm(ws[0].formula(subst)), spec, atoms, "CalculateSequenceLocks/update-cond:%s" % name, "TWIN", text + " [condition]", ws[0].where)
    for name in (H, T):
        extra = [w for w in writes_to_local(f, name) if w[1] != "="]
        ctx.ob("CalculateSequenceLocks/no-other-write:%s" % name, "TWIN", "%s is modified only by the max() update" % name, not extra, f.where)
    # SequenceLocks composition
    g = ctx.used(P.fn("SequenceLocks"))
    rv = [show(e.value) for e in exits(g, P)]
    ctx.ob("SequenceLocks/composition", "TWIN", "SequenceLocks(tx, flags, prevHeights, block) == EvaluateSequenceLocks(block, CalculateSequenceLocks(tx, flags, prevHeights, block))",
           rv == ["EvaluateSequenceLocks(block, CalculateSequenceLocks(tx, flags, prevHeights, block))"], g.where, {"returns": rv})


def evaluate_sequence_locks(ctx, P):
    f = ctx.used(P.fn("EvaluateSequenceLocks"))
    atoms = {"PREV": "block.pprev", "HLT": "lockPair.first < block.nHeight", "TLT": "lockPair.second < block.pprev.GetMedianTimePast()"}
    check_returns(ctx, f, P, "PREV && HLT && TLT", atoms)
    ex = exits(f, P)
    ctx.ob("EvaluateSequenceLocks/exits", "TWIN", "EvaluateSequenceLocks exits only by returning a boolean constant", all(is_true_ret(e) or is_false_ret(e) for e in ex), f.where)


# ---------------------------------------------------------------------------------------------- maturity
def maturity(ctx, P):
    f = ctx.used(P.fn("Consensus::CheckTxInputs"))
    subst = naming(f, P)
    ex = exits(f, P, subst)
    acc = [e for e in ex if is_true_ret(e)]
    rej = [e for e in ex if not is_true_ret(e)]
    prem = [e for e in rej if (invalid_call(e.value) or (0, 0))[1] == "bad-txns-premature-spend-of-coinbase"]
    if len(prem) != 1 or not prem[0].loops:
        ctx.ob("Consensus::CheckTxInputs/rung:bad-txns-premature-spend-of-coinbase", "LADDER", "CheckTxInputs has exactly one premature-spend rejection, inside the input loop",
               False, f.where, {"found": len(prem)})
        return
    info = loop_info(f, prem[0].loops[0], subst)
    coin = r"inputs\.AccessCoin\(" + elem_rx(info) + r"\.prevout\)"
    atoms = {"CB": re.compile(coin + r"\.IsCoinBase\(\)"), "IMMATURE": re.compile(r"nSpendHeight - " + coin + r"\.nHeight < 100"),
             "UNSPENT": (re.compile(coin + r"\.IsSpent\(\)"), False), "HAVE": "inputs.HaveInputs(tx)"}
    # UNSPENT is a hard assert in the loop (HaveInputs was checked): the process aborts otherwise
    lp = check_loop_rung(ctx, f, P, "bad-txns-premature-spend-of-coinbase", "UNSPENT && CB && IMMATURE", atoms, loop_key_rx(info), acc, prem, subst=subst)
    ok = info["start"] == "0" and "tx.vin" in info["ranges"] and info["complete"]
    ctx.ob("Consensus::CheckTxInputs/loop", "LADDER", "the input loop of CheckTxInputs visits every input of tx (range-for over tx.vin, or index 0 .. vin.size()-1 stepping by one)", ok,
           "%s:%s" % (f.file, info["loop"].get("l")), {"kind": info["kind"], "range": info["ranges"], "start": info["start"], "complete": info["complete"]})
    for e in prem:
        ic = invalid_call(e.value)
        f_, mapping, un = bound(drop_done(e.formula), atoms)
        cex = F.counterexample(f_, F.parse("CB && IMMATURE"))
        ok = cex is None and ic[0] == "TxValidationResult::TX_PREMATURE_SPEND"
        ctx.ob("Consensus::CheckTxInputs/premature-only-if@L%s" % e.line, "LADDER", "the premature-spend rejection (TX_PREMATURE_SPEND) fires only for a coinbase coin with "
               "nSpendHeight - coin.nHeight < COINBASE_MATURITY", ok, "%s:%s" % (f.file, e.line), None if ok else {"result": ic[0], "counterexample": cex})


# ---------------------------------------------------------------------------------------------- callers
def contextual(ctx, P):
    f = ctx.used(P.fn("ContextualCheckBlock"))
    subst = naming(f, P)
    calls = sites(f, call_to("IsFinalTx"), P)
    if len(calls) != 1:
        raise AnalysisBroken("ContextualCheckBlock: expected one IsFinalTx call")
    a = call_args(calls[0].expr)
    k = [F.key(F.expand(x, subst)) for x in a]
    flag = None
    m = re.fullmatch(r"(\w+) \? pindexPrev\.GetMedianTimePast\(\) : block\.GetBlockTime\(\)", k[2]) if len(k) == 3 else None
    flag = m.group(1) if m else None
    okh = len(k) == 3 and re.fullmatch(r"\(?!\(?pindexPrev\)? \? 0 : \(?pindexPrev\.nHeight \+ 1\)?|\(?pindexPrev == nullptr\)? \? 0 : \(?1 \+ pindexPrev\.nHeight\)?"
                                       r"|\(?pindexPrev == nullptr\)? \? 0 : \(?pindexPrev\.nHeight \+ 1\)?|\(?nullptr == pindexPrev\)? \? 0 : \(?1 \+ pindexPrev\.nHeight\)?", k[1]) is not None
    ctx.ob("ContextualCheckBlock/IsFinalTx-args", "PROVENANCE", "every transaction is tested with IsFinalTx(*tx, pindexPrev ? pindexPrev->nHeight + 1 : 0, "
           "<BIP113 flag> ? pindexPrev->GetMedianTimePast() : block.GetBlockTime())", okh and flag is not None and k[0] in ("*each(block.vtx)", "each(block.vtx)"),
           calls[0].where, {"args": k})
    if flag is None:
        return
    # the BIP113 flag: false unless CSV is active after pindexPrev
    csv = "DeploymentActiveAfter(pindexPrev, chainman, Consensus::DEPLOYMENT_CSV)"
    d = decl_of(f, flag)
    vals = sites(f, lambda e: e[0] == "b" and e[1] in ASSIGN_OPS and match(["local", flag], e[2]), P)
    okf = d is not None and match(["bool", False], F.expand(d.get("i"), {})) or (d is not None and show(d.get("i")) in ("false", "bool{false}"))
    okf = bool(okf) and len(vals) == 1 and match(["bool", True], vals[0].expr[3]) and vals[0].line < calls[0].line and not vals[0].loops
    ctx.ob("ContextualCheckBlock/bip113-flag", "PROVENANCE", "the median-time-past flag starts false and is only ever set to true, before the transaction loop", okf, f.where,
           {"init": show(d.get("i")) if d else None, "assignments": [(s.line, show(s.expr)) for s in vals]})
    if vals:
        check_equiv(ctx, own_formula(vals[0], subst), "CSV", {"CSV": csv}, "ContextualCheckBlock/bip113-cond", "PROVENANCE",
                    "median-time-past is used as the locktime cutoff exactly when CSV (BIP113) is active after pindexPrev", vals[0].where)
    ex = exits(f, P, subst)
    acc = [e for e in ex if is_true_ret(e)]
    rej = [e for e in ex if (invalid_call(e.value) or (0, 0))[1] == "bad-txns-nonfinal"]
    fin = re.compile(r"IsFinalTx\(\*?each\(block\.vtx\), .*\)")
    check_loop_rung(ctx, f, P, "bad-txns-nonfinal", "!FINAL", {"FINAL": fin}, r"each\(block\.vtx\)", acc, rej, subst=subst)
    check_results(ctx, f, P, {"bad-txns-nonfinal": "BlockValidationResult::BLOCK_CONSENSUS"}, closed=False, ex=ex)
    for e in rej:
        f_, mapping, un = bound(nf(f, subst, in_loop_formula(e.site, e.loops[0], subst)) if e.loops else F.T, {"FINAL": fin})
        ok = F.equivalent(f_, F.parse("!FINAL")) and not un
        ctx.ob("ContextualCheckBlock/nonfinal-only-if@L%s" % e.line, "LADDER", "bad-txns-nonfinal is raised for a transaction exactly when IsFinalTx is false for it", ok,
               "%s:%s" % (f.file, e.line), None if ok else {"unbound_code_atoms": un})


def connect_block(ctx, P):
    f = ctx.used(P.fn("Chainstate::ConnectBlock"))
    sl = sites(f, call_to("SequenceLocks"), P)
    if len(sl) != 1 or not sl[0].loops:
        raise AnalysisBroken("ConnectBlock: expected exactly one SequenceLocks call inside the transaction loop")
    subst = loop_subst(f, P, sl[0].loops[0])
    txloop = sl[0].loops[0]
    txinfo = loop_info(f, txloop, subst)
    TX = r"\(?\*?\(?" + elem_rx(txinfo) + r"\)?\)?"
    okt = txinfo["start"] == "0" and "block.vtx" in txinfo["ranges"] and txinfo["counted"]
    ctx.ob("ConnectBlock/tx-loop", "PROVENANCE", "the transaction loop of ConnectBlock visits block.vtx from the first element, one by one", okt, "%s:%s" % (f.file, txloop.get("l")),
           {"kind": txinfo["kind"], "range": txinfo["ranges"], "start": txinfo["start"]})
    # CheckTxInputs gets the height of the block being connected
    cti = sites(f, call_to("Consensus::CheckTxInputs"), P)
    ctx.floor("ConnectBlock -> CheckTxInputs", len(cti), 1)
    for s in cti:
        a = [F.key(F.expand(x, subst)) for x in call_args(s.expr)]
        ok = len(a) == 5 and a[3] == "pindex.nHeight" and a[2] == "view" and re.fullmatch(TX, a[0]) is not None and s.loops and s.loops[0] is txloop
        ctx.ob("ConnectBlock/CheckTxInputs-args@L%s" % s.line, "PROVENANCE", "ConnectBlock calls CheckTxInputs(<current transaction>, .., view, pindex->nHeight, ..): maturity is measured at the "
               "height of the block being connected", ok, s.where, {"args": a})
    s = sl[0]
    a = call_args(s.expr)
    ak = [F.key(F.expand(x, subst)) for x in a]
    okargs = len(a) == 4 and re.fullmatch(TX, ak[0]) is not None and a[1][0] == "local" and a[2][0] == "local" and ak[3] == "*pindex"
    ctx.ob("ConnectBlock/SequenceLocks-args", "PROVENANCE", "ConnectBlock calls SequenceLocks(<current transaction>, <flags local>, <heights local>, *pindex)", okargs, s.where, {"args": ak})
    if not okargs:
        return
    flags, heights = a[1][1], a[2][1]
    # flags: 0, plus LOCKTIME_VERIFY_SEQUENCE iff CSV active at pindex
    d = decl_of(f, flags)
    ws = sites(f, lambda e: e[0] == "b" and e[1] in ASSIGN_OPS and match(["local", flags], e[2]), P)
    okf = d is not None and match(["int", 0], d.get("i")) and len(ws) == 1 and ws[0].expr[1] in ("|=", "=") and match(["int", 1], ws[0].expr[3]) and not ws[0].loops \
        and ws[0].line < txloop.get("l") and not [w for w in writes_to_local(f, flags) if w[1] not in ("|=", "=")]
    ctx.ob("ConnectBlock/locktime-flags", "PROVENANCE", "the BIP68 flags start at 0 and receive exactly LOCKTIME_VERIFY_SEQUENCE, once, before the transaction loop", okf, f.where,
           {"init": show(d.get("i")) if d else None, "writes": [(w.line, show(w.expr)) for w in ws]})
    if ws:
        check_equiv(ctx, own_formula(ws[0], subst), "CSV", {"CSV": "DeploymentActiveAt(*pindex, m_chainman, Consensus::DEPLOYMENT_CSV)"}, "ConnectBlock/locktime-flags-cond",
                    "PROVENANCE", "LOCKTIME_VERIFY_SEQUENCE is set exactly when DeploymentActiveAt(*pindex, CSV)", ws[0].where)
    # heights: resized to vin.size() and filled for every input from the UTXO view, before the call, in the same iteration
    hw = sites(f, lambda e: e[0] == "b" and e[1] in ASSIGN_OPS and is_expr(e[2]) and e[2][0] == "idx" and match(["local", heights], e[2][1]), P)
    okh, detail = False, {}
    VIN = TX + r"\.vin"
    if len(hw) == 1 and len(hw[0].loops) == 2 and hw[0].loops[0] is txloop:
        inner = hw[0].loops[1]
        ii = loop_info(f, inner, subst)
        term = F.key(F.expand(hw[0].expr, subst))
        detail = {"loop": [ii["kind"], ii["var"], ii["start"], ii["ranges"]], "term": term}
        if ii["kind"] == "index":
            want = re.escape("%s[%s] = view.AccessCoin(" % (heights, ii["var"])) + elem_rx(ii) + re.escape(".prevout).nHeight")
            uncond = F.equivalent(drop_loop_conds(drop_done(in_loop_formula(hw[0], inner, subst)), [ii]), F.T)
            okh = (ii["start"] == "0" and ii["complete"] and any(re.fullmatch(VIN, r) for r in ii["ranges"]) and re.fullmatch(want, term) is not None and uncond
                   and hw[0].expr[1] == "=" and F.implies(s.formula(subst), F.atom("done(loop@%s)" % inner.get("l"))))
    ctx.ob("ConnectBlock/prevheights", "PROVENANCE", "before SequenceLocks, prevheights[j] = view.AccessCoin(tx.vin[j].prevout).nHeight is stored unconditionally for every "
           "j = 0 .. vin.size()-1 of the same transaction", okh, hw[0].where if hw else f.where, detail)
    rs = sites(f, lambda e: e[0] == "mcall" and e[1] == "std::vector::resize" and match(["local", heights], e[2]), P)
    okr = len(rs) == 1 and rs[0].loops and rs[0].loops[0] is txloop and rs[0].line < s.line and \
        re.fullmatch(VIN + r"\.size\(\)", F.key(F.expand(call_args(rs[0].expr)[0], subst))) is not None
    ctx.ob("ConnectBlock/prevheights-size", "PROVENANCE", "prevheights is resized to tx.vin.size() in the same iteration before SequenceLocks", bool(okr),
           rs[0].where if rs else f.where)
    # the rung
    slk = F.key(F.expand(s.expr, subst))
    atoms = {"VALID": "state.IsValid()", "COINBASE": re.compile(TX + r"\.IsCoinBase\(\)"),
             "CTI": re.compile(r"Consensus::CheckTxInputs\(.*pindex\.nHeight, .*\)"), "FEESOK": re.compile(r"MoneyRange\(\w+\)"), "SEQLOCKS": slk}
    check_deferred_rung(ctx, f, P, "bad-txns-nonfinal", "BlockValidationResult::BLOCK_CONSENSUS", "VALID && !COINBASE && CTI && FEESOK && !SEQLOCKS", atoms, subst)
    # verdict after the loop
    gen = re.compile(r".*hashGenesisBlock.*")
    check_deferred_accepts(ctx, f, P, "VALID || GENESIS", {"VALID": "state.IsValid()", "GENESIS": gen}, subst)
