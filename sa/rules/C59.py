"""C59 Inbound eviction never picks a protected peer (DESIGN §3 C59)."""
from sa.engine.api import *

UNITS = ["node/eviction.cpp"]
EXPLANATION = ("TABLE/ORDER rule on SelectNodeToEvict: a must-happen dataflow shows that on every path every protection stage "
               "(ProtectNoBanConnections, ProtectOutboundConnections, EraseLastKElements by keyed net group (>=4), lowest min ping (>=8), latest "
               "transaction (>=4), block-relay-only latest block (>=8, predicate allowed), latest block (>=4), ProtectEvictionCandidatesByRatio) has "
               "been applied to the candidate vector before any candidate is read for selection and before any node id is returned; the four stages "
               "named by the property erase unconditionally (default always-true predicate); the returned id is read from the candidate vector, "
               "which after the stages only shrinks (erase) or is replaced by a group built from its own elements. EraseLastKElements sorts the "
               "whole vector with the given comparator and then erase-removes inside the last min(k,size) elements; the two Protect* erasers "
               "erase-remove exactly m_noban / m_conn_type != INBOUND over the whole vector; each comparator orders by its primary key in the "
               "direction that puts the peers to protect last (truth table under trichotomy).")
ASSUMPTIONS = ["std::sort / std::remove_if / vector::erase library semantics", "std::function default predicate is the `return true` lambda of the declaration"]
CLAIM = dict(
    technique="static analysis: must-precede dataflow over the protection pipeline, stage table with NECESSARY counts, eraser/comparator twins by truth table, "
              "provenance of the returned id",
    text="For every path of SelectNodeToEvict the selected id comes from a vector from which noban peers, non-inbound peers and the last 4/8/4/4 peers "
         "under the netgroup/ping/tx-time/block-time comparators have been erased, with comparators whose primary key and direction are those of the "
         "property, so no such peer can be returned. Tests sample candidate sets; this covers all paths and all stages.",
    note="Not decided: robustness under every ordering of ties (std::sort on equal keys: the secondary keys of the comparators are not compared with the "
         "property's 'under every ordering of ties' wording); the internals of ProtectEvictionCandidatesByRatio (only its position in the pipeline). The "
         "block-relay-only and by-ratio stages are protections of the implementation beyond the property text (DESIGN lists them); the relative order of "
         "stages is not enforced because the property does not depend on it.",
    ref="DESIGN.md §3 C59")

SEL = "SelectNodeToEvict"
NEC = "NodeEvictionCandidate::"
# (comparator, minimum k, predicate allowed)
K_STAGES = [("CompareNetGroupKeyed", 4, False), ("ReverseCompareNodeMinPingTime", 8, False), ("CompareNodeTXTime", 4, False),
            ("CompareNodeBlockRelayOnlyTime", 8, True), ("CompareNodeBlockTime", 4, False)]
CALL_STAGES = ["ProtectNoBanConnections", "ProtectOutboundConnections", "ProtectEvictionCandidatesByRatio"]
# comparator -> (primary key field, "asc": larger key sorts last (protected) | "desc": smaller key sorts last)
PRIMARY = {"CompareNetGroupKeyed": ("nKeyedNetGroup", "asc"), "ReverseCompareNodeMinPingTime": ("m_min_ping_time", "desc"),
           "CompareNodeTXTime": ("m_last_tx_time", "asc"), "CompareNodeBlockTime": ("m_last_block_time", "asc")}


def _strip(e):
    while is_expr(e) and ((e[0] == "ctor" and len(e) == 3) or e[0] == "defarg" or (e[0] == "cast" and len(e) == 3)):
        e = e[2] if e[0] != "defarg" else e[1]
    return e


def _returns_true(P, lam):
    fs = P.fns(lam)
    if len(fs) != 1 or fs[0].body is None:
        return False
    ex = exits(fs[0], P)
    return bool(ex) and all(is_true_ret(e) for e in ex)


def check(ctx):
    P = ctx.program(UNITS)
    f = ctx.used(P.fn(SEL))
    if len(f.params) != 1:
        raise AnalysisBroken("%s: unexpected signature" % SEL)
    vec = ["param", f.params[0]["n"]]
    pipeline(ctx, P, f, vec)
    erase_last_k(ctx, P)
    erasers(ctx, P)
    comparators(ctx, P)


# ------------------------------------------------------------------------------------------------
def pipeline(ctx, P, f, vec):
    stage_of = {}

    def k_stage(e):
        if is_call_to("EraseLastKElements", e):
            a = call_args(e)
            if len(a) >= 3 and match(vec, a[0]) and match(["fn", ANY], a[1]):
                return a[1][1], a
        return None, None

    marks = []
    for comp, kmin, pred_ok in K_STAGES:
        def pred(e, comp=comp, kmin=kmin, pred_ok=pred_ok):
            c, a = k_stage(e)
            if c != comp:
                return False
            if not (is_expr(a[2]) and a[2][0] == "int" and int(a[2][1]) >= kmin):
                return False
            if not pred_ok:
                p = _strip(a[3]) if len(a) > 3 else None
                if p is not None and not (match(["lambda", ANY], p) and _returns_true(P, p[1])):
                    return False
            return True
        marks.append((comp, pred))
    for q in CALL_STAGES:
        marks.append((q, lambda e, q=q: is_call_to(q, e) and len(call_args(e)) == 1 and match(vec, call_args(e)[0])))
    labels = [m[0] for m in marks]

    # stage table (what is there, for the evidence and for precise messages)
    for comp, kmin, pred_ok in K_STAGES:
        ss = [s for s in sites(f, lambda e: k_stage(e)[0] == comp, P)]
        ks = [show(call_args(s.expr)[2]) for s in ss]
        preds = [show(_strip(call_args(s.expr)[3])) if len(call_args(s.expr)) > 3 else None for s in ss]
        good = [s for s in ss if marks[labels.index(comp)][1](s.expr)]
        ctx.ob("%s/stage/%s" % (SEL, comp), "TABLE", "SelectNodeToEvict protects the last >= %d candidates under %s%s" % (
            kmin, comp, "" if pred_ok else " unconditionally (no restricting predicate)"), bool(good), ss[0].where if ss else f.where,
            {"k": ks, "predicate": preds})

    is_push = lambda e: e[0] == "mcall" and e[1].rsplit("::", 1)[-1] in ("push_back", "emplace_back", "insert", "emplace")
    mf = MustFlow(f, P, marks=marks)
    mf.watch = lambda e: is_push(e) or (e[0] == "mcall" and e[1] in ("std::vector::front", "std::vector::back", "std::vector::at") and match(vec, e[2])) \
        or (e[0] == "idx" and match(vec, e[1])) or match(vec, e)
    mf.run()
    # foreach over the vector: the range expression is evaluated as an event on the loop statement
    missing_at = {}
    mf.events = [(e, state, st) for e, state, st in mf.events if not match(vec, e) or st.get("k") == "foreach"]
    for e, state, st in mf.events:
        miss = [l for l in labels if l not in state]
        if miss:
            missing_at.setdefault(st.get("l"), set()).update(miss)
    n_ret = 0
    subst0 = {k: v for k, v in naming(f, P).items() if k != "@idx"}
    for state, st in mf.exits:
        v = _strip(st.get("v")) if st.get("k") == "ret" else None
        if is_expr(v):
            v = _strip(F.expand(v, subst0))       # a returned single-definition local stands for its initialiser
        if v is None or match(["global", "std::nullopt"], v) or match(["init", ANY], v) and len(v) == 2:
            continue
        n_ret += 1
        miss = [l for l in labels if l not in state]
        ok = not miss
        ctx.ob("%s/all-stages-before-return@L%s" % (SEL, st.get("l")), "ORDER", "a node id is returned only after every protection stage has run on the candidate "
               "vector on every path (noban, outbound, netgroup 4, ping 8, tx 4, block-relay 8, block 4, by-ratio)", ok,
               "%s:%s" % (f.file, st.get("l")), None if ok else {"stages_not_guaranteed": miss})
        ok = match([".", ["mcall", lambda q: q in ("std::vector::front", "std::vector::back", "std::vector::at"), vec], NEC + "id"], v) or \
            match([".", ["idx", vec], NEC + "id"], v)
        ctx.ob("%s/returned-id-from-filtered@L%s" % (SEL, st.get("l")), "PROVENANCE", "the returned id is the id field of an element of the (filtered) candidate vector",
               bool(ok), "%s:%s" % (f.file, st.get("l")), {"value": show(v)})
    ctx.floor("SelectNodeToEvict id returns", n_ret, 1)
    ctx.ob("%s/all-stages-before-selection" % SEL, "ORDER", "candidates are read or copied for selection only after every protection stage has run", not missing_at, f.where,
           {"line -> stages not guaranteed": {str(k): sorted(v) for k, v in missing_at.items()}} if missing_at else None)
    ctx.floor("SelectNodeToEvict selection reads", len(mf.events), 2)

    # after the stages the vector only shrinks or is replaced by a group built from its own elements
    subst = naming(f, P)
    assigns = sites(f, lambda e: match(["b", "=", vec, ANY], e), P)
    maps = set()
    ok = True
    for s in assigns:
        r = _strip(s.expr[3])
        if match(["idx", ["local", ANY]], r):
            maps.add(r[1][1])
        else:
            ok = False
    aliases = {st["n"] for st in stmts(f.body) if st.get("k") == "decl" and st.get("ty", "").endswith("&") and match(["idx", ["local", lambda n: n in maps]], st.get("i"))}
    loopvars = {st["var"]["n"] for st in stmts(f.body) if st.get("k") == "foreach" and match(vec, st.get("range")) and st["var"].get("n")}
    pushes = sites(f, is_push, P)
    bad = []
    for s in pushes:
        obj, a = call_obj(s.expr), call_args(s.expr)
        if not (match(["local", lambda n: n in aliases], obj) and len(a) == 1 and match(["local", lambda n: n in loopvars], a[0])):
            bad.append((s.line, show(s.expr)))
    ctx.ob("%s/vector-closed" % SEL, "PROVENANCE", "the candidate vector is only ever assigned a per-netgroup bucket, and buckets are filled only with elements of the "
           "candidate vector itself (range-for over it), so no erased (protected) peer can re-enter", ok and not bad and (not assigns or bool(pushes)), f.where,
           {"assignments": [show(s.expr) for s in assigns], "foreign_insertions": bad})


# ------------------------------------------------------------------------------------------------
def erase_last_k(ctx, P):
    f = ctx.used(P.fn("EraseLastKElements"))
    pn = [p["n"] for p in f.params]
    if len(pn) != 4:
        raise AnalysisBroken("EraseLastKElements: unexpected signature")
    el, comp, k, pred = [["param", n] for n in pn]
    subst = naming(f, P)
    begin, end = ["mcall", "std::vector::begin", el], ["mcall", "std::vector::end", el]
    is_sort = lambda e: e[0] == "call" and e[1] in ("std::sort", "std::stable_sort") and match([ANY, ANY, begin, end, comp], e)
    is_erase = lambda e: e[0] == "mcall" and e[1] == "std::vector::erase" and match(el, e[2])
    mf = MustFlow(f, P, marks=[("sorted", is_sort)])
    mf.watch = is_erase
    mf.run()
    ctx.floor("EraseLastKElements erase calls", len(mf.events), 1)
    for e, state, st in mf.events:
        where = "%s:%s" % (f.file, st.get("l"))
        ctx.ob("EraseLastKElements/sorted-first@L%s" % st.get("l"), "ORDER", "EraseLastKElements sorts the whole vector [begin,end) with the given comparator before erasing",
               "sorted" in state, where)
        a = [F.canon(_expand(x, subst)) for x in call_args(e)]
        ok = False
        detail = {"erase_args": [show(x) for x in a]}
        if len(a) == 2 and is_call_to("std::remove_if", a[0]) and show(a[1]) == show(F.canon(end)):
            r = call_args(a[0])
            size = ["mcall", "std::vector::size", el]
            firsts = {show(F.canon(["b", "-", end, ["call", "std::min", k, size]])), show(F.canon(["b", "-", end, ["call", "std::min", size, k]]))}
            ok = len(r) == 3 and show(r[0]) in firsts and show(r[1]) == show(F.canon(end)) and match(pred, r[2])
        ctx.ob("EraseLastKElements/erases-tail@L%s" % st.get("l"), "TWIN", "EraseLastKElements erases exactly the elements matching the predicate among the last "
               "min(k, size) elements: erase(remove_if(end - min(k,size), end, predicate), end)", ok, where, None if ok else detail)
    others = [s.line for s in sites(f, lambda e: e[0] == "mcall" and match(el, e[2]) and e[1].rsplit("::", 1)[-1] in (
        "push_back", "insert", "emplace_back", "clear", "resize", "pop_back", "assign", "swap"), P)]
    ctx.ob("EraseLastKElements/no-other-mutation", "TWIN", "EraseLastKElements mutates the vector only by sort and the tail erase", not others, f.where)
    # default predicate
    sel = P.fn(SEL)
    defs = {_strip(call_args(s.expr)[3])[1] for s in sites(sel, call_to("EraseLastKElements"), P)
            if len(call_args(s.expr)) > 3 and call_args(s.expr)[3][0] == "defarg" and match(["lambda", ANY], _strip(call_args(s.expr)[3]))}
    ctx.ob("EraseLastKElements/default-predicate", "TWIN", "the default predicate of EraseLastKElements accepts every element (`return true`)",
           bool(defs) and all(_returns_true(P, q) for q in defs), f.where, {"lambdas": sorted(defs)})


def _expand(e, subst):
    return F.expand(e, subst)


# ------------------------------------------------------------------------------------------------
def erasers(ctx, P):
    specs = [("ProtectNoBanConnections", "NOBAN", {"NOBAN": "n.m_noban"}, "its m_noban flag is set"),
             ("ProtectOutboundConnections", "!INBOUND", {"INBOUND": "n.m_conn_type == ConnectionType::INBOUND"}, "its connection type is not INBOUND")]
    for q, spec, atoms, what in specs:
        f = ctx.used(P.fn(q))
        if len(f.params) != 1:
            raise AnalysisBroken("%s: unexpected signature" % q)
        el = ["param", f.params[0]["n"]]
        begin, end = ["mcall", "std::vector::begin", el], ["mcall", "std::vector::end", el]
        er = sites(f, lambda e: e[0] == "mcall" and e[1] == "std::vector::erase" and match(el, e[2]), P)
        ctx.floor("%s erase" % q, len(er), 1)
        lam = None
        for s in er:
            a = [F.canon(x) for x in call_args(s.expr)]
            ok = len(a) == 2 and is_call_to("std::remove_if", a[0]) and show(a[1]) == show(F.canon(end))
            if ok:
                r = call_args(a[0])
                ok = len(r) == 3 and show(r[0]) == show(F.canon(begin)) and show(r[1]) == show(F.canon(end)) and match(["lambda", ANY], r[2])
                lam = r[2][1] if ok else None
            uncond = not [g for g in s.guards if g.kind != "post"] and not s.loops
            ctx.ob("%s/erase-remove@L%s" % (q, s.line), "TWIN", "%s unconditionally erase-removes over the whole candidate vector: erase(remove_if(begin, end, pred), end)" % q,
                   bool(ok and uncond), s.where)
        if lam is None:
            continue
        lf = P.fn(lam)
        ln = lf.params[0]["n"]
        atoms2 = {k: v.replace("n.", ln + ".") for k, v in atoms.items()}
        check_return_formula(ctx, lf, P, spec, atoms2, oid="%s/predicate" % q)
        exits_ = [e for e in exits(f, P)]
        # the eraser has no early exit before the erase
        early = [e.line for e in exits_ if e.kind in ("ret", "throw")]
        ctx.ob("%s/no-early-exit" % q, "TWIN", "%s has no early return: every candidate for which %s is erased" % (q, what), not early, f.where)


# ------------------------------------------------------------------------------------------------
def comparators(ctx, P):
    for q, (field, direction) in PRIMARY.items():
        f = ctx.used(P.fn(q))
        if len(f.params) != 2:
            raise AnalysisBroken("%s: unexpected signature" % q)
        a, b = f.params[0]["n"], f.params[1]["n"]
        ka, kb = "%s.%s" % (a, field), "%s.%s" % (b, field)
        subst = naming(f, P)
        parts = []
        for e in exits(f, P, subst):
            if e.kind != "ret" or not is_expr(e.value):
                raise AnalysisBroken("%s: unexpected exit" % q)
            parts.append(F.mk_and([e.formula, F.to_formula(e.value, subst)]))
        code = F.mk_or(parts)
        eqk = "%s == %s" % tuple(sorted([ka, kb]))
        table = {"EQ": [eqk, "%s == %s" % (ka, kb), "%s == %s" % (kb, ka)], "LT": "%s < %s" % (ka, kb), "GT": "%s < %s" % (kb, ka)}
        bf, mapping, un = F.bind_atoms(code, table)
        tri = F.parse("!EQ && (LT || GT) && !(LT && GT)")
        want = F.parse("LT" if direction == "asc" else "GT")
        c1 = F.counterexample(F.mk_and([tri, bf]), want)
        c2 = F.counterexample(F.mk_and([tri, want]), bf)
        ok = c1 is None and c2 is None
        ctx.ob("%s/primary-key" % q, "TWIN", "whenever the two candidates differ in %s, %s(a, b) is true exactly when %s, so the peers with the %s %s sort last "
               "(the protected end)" % (field, q, "a.%s < b.%s" % (field, field) if direction == "asc" else "a.%s > b.%s" % (field, field),
                                        "largest" if direction == "asc" else "smallest", field), ok, f.where,
               None if ok else {"code": F.fshow(code)[:500], "binding": mapping, "counterexample": c1 or c2})
