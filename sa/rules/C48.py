"""C48 Serialization round-trips and matches the reference format (DESIGN §3 C48) - structural part."""
import re

from sa.engine.api import *

UNITS = ["primitives/transaction.cpp", "primitives/block.cpp", "addrdb.cpp"]
CORE_UNITS = UNITS[:2]          # addrdb.cpp is loaded separately: it holds an instantiation of CAddress::SerializationOps
EXPLANATION = ("SYMMETRY / sequence-vs-table rule. SerializeTransaction and UnserializeTransaction (templates in primitives/transaction.h, all instances seen by "
               "the units) are extracted as ordered lists of (stream item, loop depth, guard) including the writes of the local `flags` and the throws; "
               "each list must equal the BIP144 table exactly (guards by truth table over canonical atoms): writer = version, [flags|=1 iff allow_witness && "
               "HasWitness], [empty vin dummy, flags byte iff flags], vin, vout, [witness stack per input iff flags&1], nLockTime; reader = version, vin, "
               "[flags iff vin empty && allow], [vin, vout iff flags != 0] else vout, [flags^=1, witness stack per input iff (flags&1) && allow, throw "
               "'superfluous witness' iff no witness was read], throw 'unknown optional data' iff flags != 0, nLockTime. The two functions are also "
               "compared with each other: under the extended-format and the basic-format assignments both produce the same item sequence; witness "
               "loops cover every input index; the dummy vin is an empty vector. SERIALIZE_METHODS classes (one body for both directions) are "
               "enumerated with their field order: COutPoint, CTxIn, CTxOut, CBlockHeader, CBlock. ReadCompactSize: per marker the width read and the "
               "non-canonical rung (< 253, < 0x10000, < 0x100000000) and the MAX_SIZE rung, cross-checked against WriteCompactSize's thresholds and "
               "markers. txid = hash of TX_NO_WITNESS serialisation, wtxid = hash of TX_WITH_WITNESS serialisation (txid if no witness). Formatter table of "
               "CAddress (BIP155): nTime through LossyChronoFormatter<uint32_t>; nServices, exactly in the V2 branch, as a compact size WITHOUT range check "
               "(CompactSizeFormatter<false>: it is a 64-bit bit field, not a length) via a local copied from / cast back to obj.nServices, and exactly in the V1 branch "
               "as CustomUintFormatter<8>; in all loaded units a range-checked compact size (CompactSizeFormatter<true> / COMPACTSIZE) is never applied to a value "
               "that is copied from or into an object field.")
ASSUMPTIONS = ["stream operator<< / operator>> of the same type are inverse for scalars, vectors and scripts (serialize.h formatters, not claimed here)",
               "HashWriter::GetHash is double SHA-256", "ser_readdataN / ser_writedataN move N bits little-endian"]
CLAIM = dict(
    technique="static analysis: writer/reader sequence extraction compared with the BIP144 table and with each other (truth tables over guard atoms), field-order tables "
              "for SERIALIZE_METHODS classes, reject-rung table for ReadCompactSize cross-checked with WriteCompactSize, provenance of txid/wtxid serialisation params",
    text="Decides for all paths that the transaction writer and reader implement the same BIP144 layout (marker/flag handling, witness per input, locktime, "
         "superfluous-witness and unknown-flag rejections), that the fixed-layout classes serialise their fields in protocol order with a single shared body, that "
         "non-canonical and oversized compact sizes are rejected exactly at the canonical boundaries which the writer uses, and that txid/wtxid hash the "
         "no-witness/with-witness serialisations.",
    note="Not decided: text encodings (hex, base58, base64, base32, money, integer strings: algorithmic, N/A part); P2P message payload classes other than tx/block/header; "
         "the scalar/vector/script formatters themselves; equality of round-tripped objects as a behavioural fact; of the P2P payload classes only CAddress's formatter choices are decided.",
    ref="DESIGN.md §3 C48")


# ------------------------------------------------------------------------------------------------ normalisation
def norm(e):
    """Uniform shape for instantiated and dependent templates: member access -> [".", base, name]; member call -> ["mcall", name, obj, args]."""
    if not is_expr(e):
        return e
    t = e[0]
    if t == "umem":
        return [".", norm(e[2]), e[1]]
    if t == "." and isinstance(e[2], str):
        return [".", norm(e[1]), e[2].rsplit("::", 1)[-1]]
    if t == "umcall":
        return ["mcall", e[1]] + [norm(x) for x in e[2:]]
    if t in ("mcall", "vcall"):
        return ["mcall", e[1].rsplit("::", 1)[-1]] + [norm(x) for x in e[2:]]
    if t == "idx":
        return ["idx", norm(e[1]), norm(e[2])]
    if t == "cast" and len(e) == 3:
        return norm(e[2])
    return [t] + [norm(x) if is_expr(x) else x for x in e[1:]]


def nform(e, subst):
    return F.to_formula(norm(F.expand(e, subst)), None)


TX_ATOMS = {
    "ALLOW": "params.allow_witness",
    "HASWIT": "tx.HasWitness()",
    "FLAGS": "flags",
    "BIT": ["1 & flags", "flags & 1"],
    "NONEMPTY": ["tx.vin.size()", ("tx.vin.empty()", False)],
}
SER_TABLE = [("version", 0, "true"), ("flags|=1", 0, "ALLOW && HASWIT"), ("dummy-vin", 0, "FLAGS"), ("flags", 0, "FLAGS"), ("vin", 0, "true"), ("vout", 0, "true"),
             ("stack", 1, "BIT"), ("nLockTime", 0, "true")]
UNSER_TABLE = [("version", 0, "true"), ("vin", 0, "true"), ("flags", 0, "!NONEMPTY && ALLOW"), ("vin", 0, "!NONEMPTY && ALLOW && FLAGS"),
               ("vout", 0, "!NONEMPTY && ALLOW && FLAGS"), ("vout", 0, "!(!NONEMPTY && ALLOW)"), ("flags^=1", 0, "BIT && ALLOW"), ("stack", 1, "BIT && ALLOW"),
               ("throw", 0, "BIT && ALLOW && !HASWIT"), ("throw", 0, "FLAGS"), ("nLockTime", 0, "true")]


def tx_items(fn, P, op):
    """Ordered (key, depth, guard formula, site) for stream ops on the stream parameter, writes of the flags local and throws."""
    subst = naming(fn, P)
    sname = fn.params[1]["n"]
    txn = fn.params[0]["n"]
    out = []

    def guard(s):
        gs = [g for g in s.guards if g.kind in ("if", "sc", "case")]
        fs = []
        for g in gs:
            f = nform(g.expr, subst)
            fs.append(f if g.pol else F.mk_not(f))
        return F.mk_and(fs)

    # range-for variables that stand for an element of a member of the transaction (for (auto& txin : tx.vin))
    elem_of = {}
    for st in stmts(fn.body):
        if st.get("k") == "foreach" and isinstance(st.get("var"), dict) and st["var"].get("n"):
            r = norm(st.get("range"))
            if match([".", ["param", txn], ANY], r):
                elem_of[st["var"]["n"]] = r[2]

    def root(x):
        while is_expr(x) and x[0] in (".", "idx"):
            x = x[1]
        return x

    for s in all_sites(fn, P):
        if s.expr is None:
            if s.stmt.get("k") == "throw":
                out.append(("throw", len(s.loops), guard(s), s))
            continue
        e = s.expr
        if e[0] == "b" and e[1] == op and match(["param", sname], e[2]):
            x = norm(e[3])
            if match([".", ["param", txn], ANY], x):
                key = x[2]
            elif x[0] == "." and isinstance(x[2], str) and (match(["param", txn], root(x)) or (match(["local", ANY], root(x)) and root(x)[1] in elem_of)):
                key = x[2]
            elif x[0] == "local":
                d = [st for st in stmts(fn.body) if st.get("k") == "decl" and st.get("n") == x[1]]
                ty = d[0].get("ty", "") if len(d) == 1 else "?"
                key = {"unsigned char": "flags", "uint8_t": "flags", "std::vector<CTxIn>": "dummy-vin"}.get(ty, "local:" + ty)
            else:
                key = "?" + show(x)
            out.append((key, len(s.loops), guard(s), s))
        elif e[0] == "b" and e[1] in ASSIGN_OPS and match(["local", ANY], e[2]):
            d = [st for st in stmts(fn.body) if st.get("k") == "decl" and st.get("n") == e[2][1]]
            if len(d) == 1 and d[0].get("ty") in ("unsigned char", "uint8_t"):
                out.append(("flags%s%s" % (e[1], show(e[3])), len(s.loops), guard(s), s))
    return out


def rename_tx(f, fn):
    """Make atoms independent of parameter names: first param -> tx, third -> params, the uchar local -> flags."""
    txn, pn = fn.params[0]["n"], fn.params[2]["n"]
    fl = [st["n"] for st in stmts(fn.body) if st.get("k") == "decl" and st.get("ty") in ("unsigned char", "uint8_t")]
    m = {}
    for a in F.atoms(f):
        b = re.sub(r"\b%s\b" % re.escape(txn), "tx", a)
        b = re.sub(r"\b%s\b" % re.escape(pn), "params", b)
        if len(fl) == 1:
            b = re.sub(r"\b%s\b" % re.escape(fl[0]), "flags", b)
        m[a] = (b, True)
    return F.rename(f, m)


def check(ctx):
    P = ctx.program(CORE_UNITS)
    transaction(ctx, P)
    fixed_layout(ctx, P)
    compact_size(ctx, P)
    tx_hashes(ctx, P)
    PA = ctx.program(["addrdb.cpp"])
    address_formatters(ctx, PA)
    range_checked_compact_sizes(ctx, [P, PA])


# ------------------------------------------------------------------------------------------------
def transaction(ctx, P):
    sers, unsers = P.fns("SerializeTransaction"), P.fns("UnserializeTransaction")
    ctx.floor("SerializeTransaction instances", len(sers), 1)
    ctx.floor("UnserializeTransaction instances", len(unsers), 1)
    seqs = {}
    for fn, table, op, tag in [(f, SER_TABLE, "<<", "SerializeTransaction") for f in sers] + [(f, UNSER_TABLE, ">>", "UnserializeTransaction") for f in unsers]:
        ctx.used(fn)
        if len(fn.params) != 3:
            raise AnalysisBroken("%s: unexpected signature" % tag)
        items = tx_items(fn, P, op)
        inst = "%s@%s" % (tag, "dep" if fn.d.get("dep") else "inst")
        keys = [(k, d) for k, d, _, _ in items]
        want = [(k, d) for k, d, _ in table]
        ok = keys == want
        first = next((i for i, (a, b) in enumerate(zip(keys, want)) if a != b), min(len(keys), len(want)))
        ctx.ob("%s/sequence" % inst, "SYMMETRY", "%s performs exactly the BIP144 item sequence %s (item, loop depth; in source order)" % (tag, [k for k, _ in want]), ok,
               items[first][3].where if first < len(items) else fn.where, None if ok else {"code": keys, "spec": want, "first_difference_index": first})
        bound = []
        if ok:
            for (k, d, g, s), (_, _, spec) in zip(items, table):
                g2 = rename_tx(g, fn)
                bf, mapping, un = F.bind_atoms(g2, TX_ATOMS)
                sf = F.parse(spec)
                c1, c2 = F.counterexample(bf, sf), F.counterexample(sf, bf)
                good = c1 is None and c2 is None
                ctx.ob("%s/%s@L%s" % (inst, k, s.line), "TABLE", "in %s the item `%s` at this position is processed exactly when (%s)" % (tag, k, spec), good, s.where,
                       None if good else {"code_guard": F.fshow(g2), "unbound_code_atoms": un, "counterexample": c1 or c2})
                bound.append((k, d, bf))
        seqs.setdefault(tag, []).append((fn, bound))
        # witness loop covers every input; element is tx.vin[i].scriptWitness.stack
        for k, d, g, s in items:
            if k == "stack":
                lp = s.loops[-1] if s.loops else None
                okl = False
                txn = fn.params[0]["n"]
                if lp is not None and lp.get("k") == "foreach":
                    # for (auto& txin : tx.vin) ... txin.scriptWitness.stack
                    v = lp["var"].get("n")
                    okl = match([".", ["param", txn], "vin"], norm(lp.get("range"))) and not has_break(lp.get("b")) and \
                        not [x for x in stmts(lp.get("b")) if x.get("k") in ("continue", "ret")] and \
                        match([".", [".", ["local", v], "scriptWitness"], "stack"], norm(s.expr[3]))
                elif lp is not None and lp.get("k") == "for" and isinstance(lp.get("init"), dict) and match(["int", 0], lp["init"].get("i")):
                    iv = lp["init"].get("n")
                    c = norm(lp.get("c"))
                    txn = fn.params[0]["n"]
                    okl = match(["b", "<", ["local", iv], ["mcall", "size", [".", ["param", txn], "vin"]]], c) and match(["u", lambda o: o in ("post++", "++"), ["local", iv]], lp.get("inc")) \
                        and not has_break(lp.get("b")) and not [x for x in stmts(lp.get("b")) if x.get("k") in ("continue", "ret")] \
                        and match([".", [".", ["idx", [".", ["param", txn], "vin"], ["local", iv]], "scriptWitness"], "stack"], norm(s.expr[3]))
                ctx.ob("%s/witness-loop@L%s" % (inst, s.line), "LOOP", "the witness stack of every input is transferred by a complete loop over tx.vin (index loop 0..vin.size()-1 "
                       "or range-for): tx.vin[i].scriptWitness.stack", bool(okl), s.where)
            if k == "dummy-vin":
                nm = s.expr[3][1]
                uses = [x for _, e in all_exprs(fn.body) for x in subexprs(e) if match(["local", nm], x)]
                d_ = [st for st in stmts(fn.body) if st.get("k") == "decl" and st.get("n") == nm]
                okd = len(uses) == 1 and len(d_) == 1 and (d_[0].get("i") is None or (match(["ctor", "std::vector"], d_[0]["i"]) and len(d_[0]["i"]) == 2))
                ctx.ob("%s/dummy-empty@L%s" % (inst, s.line), "PROVENANCE", "the marker written in extended format is a default-constructed (empty) std::vector<CTxIn> used for nothing else", okd, s.where)
        # flags starts at 0
        fl = [st for st in stmts(fn.body) if st.get("k") == "decl" and st.get("ty") in ("unsigned char", "uint8_t")]
        ctx.ob("%s/flags-init" % inst, "PROVENANCE", "the local flags byte starts at 0", len(fl) == 1 and match(["int", 0], fl[0].get("i")), fn.where)

    # writer vs reader under the two formats
    def run(bound, env):
        out = []
        for k, d, bf in bound:
            if k.startswith("flags") and k != "flags" or k == "throw":
                continue
            e2 = dict(env)
            for a in F.atoms(bf):
                e2.setdefault(a, False)
            if F.ev(bf, e2):
                out.append(("vin" if k == "dummy-vin" else k, d))
        return out

    EXT_W = {"ALLOW": True, "HASWIT": True, "FLAGS": True, "BIT": True}
    EXT_R = {"ALLOW": True, "HASWIT": True, "FLAGS": True, "BIT": True, "NONEMPTY": False}
    BAS_W = {"ALLOW": True, "HASWIT": False, "FLAGS": False, "BIT": False}
    BAS_R = {"ALLOW": True, "HASWIT": False, "FLAGS": False, "BIT": False, "NONEMPTY": True}
    NOW_W = {"ALLOW": False, "HASWIT": True, "FLAGS": False, "BIT": False}
    NOW_R = {"ALLOW": False, "HASWIT": False, "FLAGS": False, "BIT": False, "NONEMPTY": True}
    for fw, bw in seqs.get("SerializeTransaction", []):
        for fr, br in seqs.get("UnserializeTransaction", []):
            if not bw or not br:
                continue
            for name, ew, er in (("extended (witness)", EXT_W, EXT_R), ("basic (no witness)", BAS_W, BAS_R), ("witness not allowed", NOW_W, NOW_R)):
                a, b = run(bw, ew), run(br, er)
                ctx.ob("symmetry/%s/%s-%s" % (name.split("(")[0].strip().replace(" ", "-"), "dep" if fw.d.get("dep") else "inst", "dep" if fr.d.get("dep") else "inst"), "SYMMETRY",
                       "in the %s format the writer emits and the reader consumes the same item sequence" % name, a == b and len(a) >= 4, fw.where, {"writer": a, "reader": b})


# ------------------------------------------------------------------------------------------------
LAYOUTS = {
    "COutPoint": ["hash", "n"],
    "CTxIn": ["prevout", "scriptSig", "nSequence"],
    "CTxOut": ["nValue", "scriptPubKey"],
    "CBlockHeader": ["nVersion", "hashPrevBlock", "hashMerkleRoot", "nTime", "nBits", "nNonce"],
    "CBlock": ["<base CBlockHeader>", "vtx"],
}


def fixed_layout(ctx, P):
    for rec, want in LAYOUTS.items():
        fs = P.fns(rec + "::SerializationOps")
        if not fs:
            raise AnalysisBroken("%s no longer uses SERIALIZE_METHODS (SerializationOps not found): symmetric-by-construction argument does not apply" % rec)
        for fn in fs:
            ctx.used(fn)
            st_ = [s for s in stmts(fn.body) if s.get("k") == "expr"]
            other = [s for s in stmts(fn.body) if s.get("k") not in ("expr", "seq")]
            got = []
            for s in st_:
                e = s.get("e")
                if not (is_expr(e) and (callee(e) or "").endswith("SerReadWriteMany") or (is_expr(e) and e[0] == "umcall" and e[1] == "SerReadWriteMany")):
                    got.append("?" + show(e)[:60])
                    continue
                args = [norm(x) for x in (e[2:] if e[0] == "call" else e[3:])]
                obj = fn.params[0]["n"]
                for a in args[1:]:
                    if match([".", ["param", obj], ANY], a):
                        got.append(a[2])
                    elif is_expr(a) and a[0] in ("ucall", "call") and a[1].endswith("AsBase"):
                        got.append("<base CBlockHeader>")
                    else:
                        got.append("?" + show(a)[:60])
            ok = got == want and not other
            ctx.ob("layout/%s@%s" % (rec, "dep" if fn.d.get("dep") else "inst"), "TABLE", "%s has one SERIALIZE_METHODS body (shared by both directions, symmetric by construction) that "
                   "transfers exactly %s in protocol order, unconditionally" % (rec, want), ok, fn.where, None if ok else {"code": got, "control_flow": [s.get("k") for s in other]})
    # the field types that fix the wire widths
    widths = {("COutPoint", "n"): "uint32_t", ("CTxIn", "nSequence"): "uint32_t", ("CTxOut", "nValue"): "CAmount", ("CBlockHeader", "nVersion"): "int32_t",
              ("CBlockHeader", "nTime"): "uint32_t", ("CBlockHeader", "nBits"): "uint32_t", ("CBlockHeader", "nNonce"): "uint32_t"}
    for (rec, fld), ty in widths.items():
        got = P.field(rec, fld).get("ty")
        ctx.ob("width/%s::%s" % (rec, fld), "CONST", "%s::%s is declared %s (fixed wire width)" % (rec, fld, ty), got == ty, "%s:%s" % (P.record(rec)["file"], P.field(rec, fld).get("l")), {"type": got})


# ------------------------------------------------------------------------------------------------
def compact_size(ctx, P):
    ms = P.const("MAX_SIZE")
    ctx.ob("const/MAX_SIZE", "CONST", "MAX_SIZE == 0x02000000", ms == 0x02000000, None, {"value": ms})
    rs = P.fns("ReadCompactSize")
    ctx.floor("ReadCompactSize instances", len(rs), 1)
    LOWER = {16: 253, 32: 0x10000, 64: 0x100000000}
    MARK = {16: 253, 32: 254, 64: 255}
    for fn in rs:
        ctx.used(fn)
        subst = {}
        first = [st for st in stmts(fn.body) if st.get("k") == "decl" and is_expr(st.get("i")) and st["i"][0] in ("ucall", "call") and st["i"][1] == "ser_readdata8"]
        if len(first) != 1:
            raise AnalysisBroken("ReadCompactSize: marker byte read not found")
        ch = first[0]["n"]
        reads = sites(fn, lambda e: match(["b", "=", ["local", ANY], lambda x: is_expr(x) and x[0] in ("ucall", "call") and re.fullmatch(r"ser_readdata(16|32|64)", x[1])], e), P)
        sz = {s.expr[2][1] for s in reads}
        if len(sz) != 1:
            raise AnalysisBroken("ReadCompactSize: size variable not identified")
        sz = sz.pop()
        atoms = {"LT253": "%s < 253" % ch, "EQ253": "%s == 253" % ch, "EQ254": "%s == 254" % ch, "EQ255": "%s == 255" % ch,
                 "S253": "%s < 253" % sz, "S64K": "%s < 65536" % sz, "S4G": "%s < 4294967296" % sz, "RANGE": fn.params[1]["n"], "FIT": "%s < %d" % (sz, ms + 1)}
        dom = F.parse("(LT253 || EQ253 || EQ254 || EQ255) && !(LT253 && EQ253) && !(LT253 && EQ254) && !(LT253 && EQ255) && !(EQ253 && EQ254) && !(EQ253 && EQ255) && !(EQ254 && EQ255)")
        spec_read = {16: "EQ253", 32: "EQ254", 64: "EQ255"}

        subst = {k: v for k, v in naming(fn, P).items() if k not in (ch, sz, "@idx")}

        def g_if(s):
            return F.mk_and([g.formula(subst) for g in s.guards if g.kind in ("if", "sc")])

        got = {}
        for s in reads:
            w = int(re.search(r"(\d+)$", s.expr[3][1]).group(1))
            bf, _, un = F.bind_atoms(g_if(s), atoms)
            sf = F.parse(spec_read[w])
            ok = F.counterexample(F.mk_and([dom, bf]), sf) is None and F.counterexample(F.mk_and([dom, sf]), bf) is None
            got[w] = bf
            ctx.ob("ReadCompactSize/width%d" % w, "TABLE", "marker byte %d (and only it) selects a %d-bit size" % (MARK[w], w), ok, s.where, None if ok else {"guard": F.fshow(g_if(s)), "unbound": un})
        ctx.ob("ReadCompactSize/widths", "TABLE", "ReadCompactSize handles 16-, 32- and 64-bit sizes", set(got) == {16, 32, 64}, fn.where)
        # direct value for markers < 253
        direct = sites(fn, lambda e: match(["b", "=", ["local", sz], ["local", ch]], e), P)
        okd = False
        for s in direct:
            bf, _, _ = F.bind_atoms(g_if(s), atoms)
            okd = F.equivalent(bf, F.parse("LT253"))
        ctx.ob("ReadCompactSize/direct", "TABLE", "a marker byte below 253 is the size itself", okd, fn.where)
        throws = [s for s in all_sites(fn, P) if s.expr is None and s.stmt.get("k") == "throw"]
        tf = []
        for s in throws:
            bf, _, un = F.bind_atoms(g_if(s), atoms)
            tf.append((s, bf, un))
        for w, (low, satom) in {16: (253, "S253"), 32: (0x10000, "S64K"), 64: (0x100000000, "S4G")}.items():
            sf = F.parse("%s && %s" % (spec_read[w], satom))
            hit = [s for s, bf, un in tf if F.counterexample(F.mk_and([dom, bf]), sf) is None and F.counterexample(F.mk_and([dom, sf]), bf) is None]
            ctx.ob("ReadCompactSize/non-canonical%d" % w, "LADDER", "a %d-bit encoded size below %d (encodable in fewer bytes) is rejected with an exception, exactly then" % (w, low),
                   len(hit) == 1, hit[0].where if hit else fn.where, None if hit else {"throw_guards": [F.fshow(bf) for _, bf, _ in tf]})
        sf = F.parse("RANGE && !FIT")
        hit = [s for s, bf, un in tf if F.equivalent(bf, sf)]
        ctx.ob("ReadCompactSize/max-size", "LADDER", "with range_check a size above MAX_SIZE is rejected with an exception, exactly then", len(hit) == 1, hit[0].where if hit else fn.where,
               None if hit else {"throw_guards": [F.fshow(bf) for _, bf, _ in tf]})
        ctx.ob("ReadCompactSize/no-other-throws", "LADDER", "ReadCompactSize has exactly the three non-canonical rungs and the MAX_SIZE rung", len(throws) == 4, fn.where, {"throws": len(throws)})
        rets = [e for e in exits(fn, P) if e.kind == "ret"]
        ctx.ob("ReadCompactSize/returns-size", "PROVENANCE", "ReadCompactSize returns the decoded size variable", bool(rets) and all(match(["local", sz], e.value) for e in rets), fn.where)
    # writer thresholds
    # (the SizeComputer overload only counts bytes: it writes nothing and is not a writer)
    ws = [f for f in P.fns("WriteCompactSize") if any(is_expr(x) and x[0] in ("call", "ucall") and str(x[1]).startswith("ser_writedata") for _, e in all_exprs(f.body) for x in subexprs(e))]
    ctx.floor("WriteCompactSize instances", len(ws), 1)
    for fn in ws:
        ctx.used(fn)
        n = fn.params[1]["n"]
        atoms = {"A": "%s < 253" % n, "B": "%s < 65536" % n, "C": "%s < 4294967296" % n}
        dom = F.parse("(!A || B) && (!B || C)")
        spec = {8: "A", 16: "!A && B", 32: "!B && C", 64: "!C"}
        seen = {}
        for s in sites(fn, lambda e: is_expr(e) and e[0] in ("call", "ucall") and re.fullmatch(r"ser_writedata(8|16|32|64)", e[1]) is not None, P):
            w = int(re.search(r"(\d+)$", s.expr[1]).group(1))
            a = call_args(s.expr)
            g = F.mk_and([x.formula({}) for x in s.guards if x.kind in ("if", "sc")])
            bf, _, un = F.bind_atoms(g, atoms)
            if w == 8 and is_expr(a[1]) and a[1][0] == "int":
                seen.setdefault("marker", {})[int(a[1][1])] = bf
            else:
                if not match(["param", n], a[1]):
                    ctx.ob("WriteCompactSize/value%d@L%s" % (w, s.line), "PROVENANCE", "the %d-bit field written is the size itself" % w, False, s.where)
                seen[w] = bf
        inst = "inst%s" % fn.line
        for w, sp in spec.items():
            bf = seen.get(w)
            ok = bf is not None and F.counterexample(F.mk_and([dom, bf]), F.parse(sp)) is None and F.counterexample(F.mk_and([dom, F.parse(sp)]), bf) is None
            ctx.ob("WriteCompactSize/%s/width%d" % (inst, w), "SYMMETRY", "the writer uses the %d-bit form exactly for sizes in the range whose lower bound is the reader's "
                   "non-canonical threshold (%s)" % (w, sp), ok, fn.where, None if ok else {"guard": F.fshow(bf) if bf is not None else None})
        for w, mk in MARK.items():
            bf = seen.get("marker", {}).get(mk)
            ok = bf is not None and seen.get(w) is not None and F.equivalent(bf, seen[w])
            ctx.ob("WriteCompactSize/%s/marker%d" % (inst, mk), "SYMMETRY", "the writer announces the %d-bit form with marker byte %d, the value the reader dispatches on" % (w, mk), ok, fn.where)


# ------------------------------------------------------------------------------------------------
def tx_hashes(ctx, P):
    a, b = P.const("TX_NO_WITNESS"), P.const("TX_WITH_WITNESS")
    ctx.ob("const/TX_PARAMS", "CONST", "TX_NO_WITNESS.allow_witness == false and TX_WITH_WITNESS.allow_witness == true", (a, b) == (0, 1), None, {"values": [a, b]})

    def hashed_params(v, fn=None):
        # named writer: HashWriter h; h << PARAMS(*this); return ...h.GetHash()
        if fn is not None:
            ws = [st["n"] for st in stmts(fn.body) if st.get("k") == "decl" and re.sub(r"\bconst\b|\s", "", st.get("ty", "")) == "HashWriter"]
            for w in ws:
                feeds = [x for _, e in all_exprs(fn.body) for x in subexprs(e) if x[0] == "b" and x[1] == "<<" and match(["local", w], x[2])]
                chained = [x for _, e in all_exprs(fn.body) for x in subexprs(e) if x[0] == "b" and x[1] == "<<" and is_expr(x[2]) and x[2][0] == "b" and x[2][1] == "<<"]
                got = any(x[0] == "mcall" and x[1] == "HashWriter::GetHash" and match(["local", w], x[2]) for x in subexprs(v))
                if got and len(feeds) == 1 and not chained and is_expr(feeds[0][3]) and feeds[0][3][0] == "opcall" and feeds[0][3][2] == "TransactionSerParams::operator()" \
                        and match(["u", "*", ["this"]], feeds[0][3][4]) and match(["global", ANY], feeds[0][3][3]):
                    return feeds[0][3][3][1]
        # FromUint256(HashWriter{} << PARAMS(*this)).GetHash())
        hits = [x for x in subexprs(v) if x[0] == "b" and x[1] == "<<" and match(["ctor", "HashWriter"], x[2]) and is_expr(x[3]) and x[3][0] == "opcall"
                and x[3][2] == "TransactionSerParams::operator()"]
        if len(hits) != 1:
            return None
        wr = hits[0]
        if not any(x[0] == "mcall" and x[1] == "HashWriter::GetHash" and x[2] is wr for x in subexprs(v)):
            return None
        if not match(["u", "*", ["this"]], wr[3][4]):
            return None
        return wr[3][3][1] if match(["global", ANY], wr[3][3]) else None

    f = ctx.used(P.fn("CTransaction::ComputeHash"))
    ex = [e for e in exits(f, P)]
    ok = len(ex) == 1 and ex[0].kind == "ret" and hashed_params(ex[0].value, f) == "TX_NO_WITNESS"
    ctx.ob("txid/no-witness-serialisation", "PROVENANCE", "the txid is HashWriter{} << TX_NO_WITNESS(*this) -> GetHash() on every path", ok, f.where)
    mg = ctx.used(P.fn("CMutableTransaction::GetHash"))
    ex = [e for e in exits(mg, P)]
    ok = len(ex) == 1 and ex[0].kind == "ret" and hashed_params(ex[0].value, mg) == "TX_NO_WITNESS"
    ctx.ob("txid/mutable-no-witness-serialisation", "PROVENANCE", "CMutableTransaction::GetHash is HashWriter{} << TX_NO_WITNESS(*this) -> GetHash() too", ok, mg.where)
    g = ctx.used(P.fn("CTransaction::ComputeWitnessHash"))
    okw = True
    n = 0
    for e in exits(g, P):
        if e.kind != "ret":
            okw = False
            continue
        hp = hashed_params(e.value, g)
        bf, _, _ = F.bind_atoms(e.formula, {"HASWIT": re.compile(r"(this\.)?CTransaction::HasWitness\(\)")})
        if hp == "TX_WITH_WITNESS":
            n += 1
            okw = okw and F.implies(bf, F.parse("HASWIT"))
        else:
            # the shortcut: the txid itself, only for transactions without witness
            okw = okw and contains([".", ["this"], "CTransaction::hash"], e.value) and F.implies(bf, F.parse("!HASWIT"))
    ctx.ob("wtxid/with-witness-serialisation", "PROVENANCE", "the wtxid is HashWriter{} << TX_WITH_WITNESS(*this) -> GetHash(); the txid is reused only when the transaction has no witness",
           okw and n == 1, g.where)


# ------------------------------------------------------------------------------------------------
def _usings(fn):
    """(stmt, Using-call, formatter text) for every `Using<Formatter>(x)` with explicitly written template arguments."""
    out = []
    for st, e in all_exprs(fn.body):
        for x in subexprs(e):
            if x[0] == "call" and x[1] == "Using" and call_targs(x):
                out.append((st, x, re.sub(r"\s+", "", call_targs(x))))
    return out


def address_formatters(ctx, P):
    fs = [f for f in P.fns("CAddress::SerializationOps") if not f.d.get("dep")]
    if not fs:
        raise AnalysisBroken("no instantiation of CAddress::SerializationOps in addrdb.cpp (SERIALIZE_METHODS(CAddress) vanished?)")
    for f in fs:
        ctx.used(f)
        subst = naming(f, P)
        obj = f.params[0]["n"]
        NS = [".", ["param", obj], "CAddress::nServices"]
        us = sites(f, lambda e: e[0] == "call" and e[1] == "Using" and bool(call_targs(e)), P)
        fmt = lambda s_: re.sub(r"\s+", "", call_targs(s_.expr))
        guard = lambda s_: F.mk_and([g.formula(subst) for g in s_.guards if g.kind in ("if", "sc", "case")])
        v2vals = local_values(f, "use_v2")
        # the flag selecting the encoding
        flags = {k for s_ in us for k in F.atoms(guard(s_))}
        if len(flags) != 1:
            raise AnalysisBroken("CAddress::SerializationOps: the V1/V2 selector is not a single flag (%s)" % sorted(flags))
        V2 = F.atom(flags.pop())
        compact = [s_ for s_ in us if fmt(s_).startswith("CompactSizeFormatter<")]
        ok = len(compact) == 1 and fmt(compact[0]) == "CompactSizeFormatter<false>" and F.equivalent(guard(compact[0]), V2)
        ctx.ob("CAddress/services-v2-formatter", "TABLE", "in the V2 (BIP155) encoding, and only there, the service bits are a compact size WITHOUT range check "
               "(Using<CompactSizeFormatter<false>>): they are a 64-bit bit field, not a length, so values above MAX_SIZE must deserialize", ok,
               compact[0].where if compact else f.where, {"formatters": [(s_.line, fmt(s_), F.fshow(guard(s_))) for s_ in compact]})
        tied = False
        if len(compact) == 1 and match(["local", ANY], call_args(compact[0].expr)[0]):
            tmp = call_args(compact[0].expr)[0]
            lam_of = {}
            for st in stmts(f.body):
                if st.get("m") in ("SER_WRITE", "SER_READ") and st.get("k") == "expr" and is_expr(st.get("e")):
                    lams = [x[1] for x in subexprs(st["e"]) if x[0] == "lambda"]
                    if len(lams) == 1:
                        lam_of.setdefault(st["m"], []).append((st.get("l"), P.fn(lams[0])))
            w = [(l, g) for l, g in lam_of.get("SER_WRITE", []) if any(match(["b", "=", tmp, [".", ["param", ANY], "CAddress::nServices"]], x) for _, e in all_exprs(g.body) for x in subexprs(e))]
            r = [(l, g) for l, g in lam_of.get("SER_READ", []) if any(x[0] == "b" and x[1] == "=" and match([".", ["param", ANY], "CAddress::nServices"], x[2]) and contains(tmp, x[3])
                                                                       for _, e in all_exprs(g.body) for x in subexprs(e))]
            tied = len(w) == 1 and len(r) == 1 and w[0][0] <= compact[0].line <= r[0][0]
        ctx.ob("CAddress/services-v2-value", "PROVENANCE", "the value put through that formatter is a local copied from obj.nServices before writing (SER_WRITE) and cast back into "
               "obj.nServices after reading (SER_READ)", tied, compact[0].where if compact else f.where)
        fixed = [s_ for s_ in us if match(NS, call_args(s_.expr)[0])]
        ok = len(fixed) == 1 and fmt(fixed[0]) == "CustomUintFormatter<8>" and F.equivalent(guard(fixed[0]), F.mk_not(V2))
        ctx.ob("CAddress/services-v1-formatter", "TABLE", "in the V1 encoding, and only there, the service bits are the fixed 8-byte little-endian field (Using<CustomUintFormatter<8>>(obj.nServices))",
               ok, fixed[0].where if fixed else f.where, {"formatters": [(s_.line, fmt(s_), F.fshow(guard(s_))) for s_ in fixed]})
        tm = [s_ for s_ in us if match([".", ["param", obj], "CAddress::nTime"], call_args(s_.expr)[0])]
        ok = len(tm) == 1 and fmt(tm[0]) == "LossyChronoFormatter<uint32_t>" and F.equivalent(guard(tm[0]), F.T)
        ctx.ob("CAddress/time-formatter", "TABLE", "nTime is always transferred as a 32-bit count (Using<LossyChronoFormatter<uint32_t>>)", ok, tm[0].where if tm else f.where)
        bad = [(l, show(v)) for l, v in v2vals if not (is_expr(v) and (v[0] == "bool" or (v[0] == "b" and v[1] == "==" and contains(["enum", "CNetAddr::Encoding::V2"], v))))]
        ctx.ob("CAddress/encoding-selector", "PROVENANCE", "the V1/V2 selector is only ever a constant (disk format: decided by the stored version word) or `params.enc == Encoding::V2`",
               bool(v2vals) and not bad, f.where, {"other_values": bad} if bad else None)


def range_checked_compact_sizes(ctx, programs):
    """COMPACTSIZE(x) == Using<CompactSizeFormatter<true>>(x) rejects values above MAX_SIZE on reading: legitimate for lengths and counts only.  A value that is
    copied from or into an object field (in the function or the SER_READ/SER_WRITE lambdas it creates) is data, not a container length."""
    n = 0
    seen = set()
    for P in programs:
        for q, fl in P.funcs.items():
            for f in fl:
                if f.body is None or "::lambda@" in q:
                    continue
                for st, x, fm in _usings(f):
                    if not fm.startswith("CompactSizeFormatter<") or (f.file, st.get("l")) in seen:
                        continue
                    seen.add((f.file, st.get("l")))
                    n += 1
                    a = call_args(x)[0]
                    field_tied = False
                    if match(["local", ANY], a):
                        bodies = [f.body] + [g.body for q2, gl in P.funcs.items() if q2.startswith(q + "::lambda@") for g in gl if g.body is not None]
                        for b in bodies:
                            for _, e in all_exprs(b):
                                for y in subexprs(e):
                                    if y[0] == "b" and y[1] == "=" and ((match(a, y[2]) and is_expr(y[3]) and y[3][0] in (".", "umem")) or
                                                                         (is_expr(y[2]) and y[2][0] in (".", "umem") and contains(a, y[3]))):
                                        field_tied = True
                    elif is_expr(a) and a[0] in (".", "umem"):
                        field_tied = True
                    ok = fm == "CompactSizeFormatter<false>" or not field_tied
                    ctx.ob("compact-size-range-check/%s@L%s" % (q, st.get("l")), "TABLE", "a compact size that carries an object field's value (not a container length or count) is "
                           "read without the MAX_SIZE range check (CompactSizeFormatter<false>, not COMPACTSIZE)", ok, "%s:%s" % (f.file, st.get("l")),
                           {"formatter": fm, "operand": show(a), "carries_field_value": field_tied})
    ctx.floor("CompactSizeFormatter uses in the loaded units", n, 3)
