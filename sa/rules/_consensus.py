"""Shared helpers for the ConnectBlock / CheckBlock / CheckTxInputs obligations (C01, C02, ...)."""
import re

from sa.engine.api import *
from sa.engine import callgraph

CONSENSUS_UNITS = ["validation.cpp", "consensus/tx_check.cpp", "consensus/tx_verify.cpp", "coins.cpp"]


def tx_loop(f):
    """The per-transaction loop of ConnectBlock (the one that calls UpdateCoins)."""
    loops = [st for st in stmts(f.body) if st.get("k") in ("for", "foreach") and
             any(is_call_to("UpdateCoins", x) for _, e in all_exprs(st["b"]) for x in subexprs(e))]
    if len(loops) != 1:
        raise AnalysisBroken("ConnectBlock: expected one transaction loop containing UpdateCoins, found %d" % len(loops))
    return loops[0]


def checkblock_accept_sites(ctx, P):
    """CheckBlock's accepting points: the final `return true` and the `block.fChecked = true` cache write
    (the early return under fChecked is justified by who-may-write fChecked)."""
    cb = ctx.used(P.fn("CheckBlock"))
    subst = naming(cb, P)
    ex = exits(cb, P, subst)
    acc = [e for e in ex if is_true_ret(e) and "block.fChecked" not in [a for a in F.atoms(F.mk_and([g.formula(subst) for g in e.guards if g.kind != "post"]))]]
    early = [e for e in ex if is_true_ret(e) and e not in acc]
    cg = callgraph.load_all()
    ws = [(q, fl, ls) for q, fl, ls in cg.writers("CBlock::fChecked")]
    true_writers = set()
    for q, fl, ls in ws:
        for fn in P.funcs.get(q, []):
            for s in sites(fn.simp(), lambda e: match(["b", "=", [".", ANY, "CBlock::fChecked"], ["bool", True]], e), P):
                true_writers.add(q)
    ctx.ob("CheckBlock/fChecked-writers", "WHO-MAY-WRITE", "CBlock::fChecked is set to true only by CheckBlock (all other writers reset it to false)",
           true_writers == {"CheckBlock"}, cb.where, {"writers": sorted({w[0] for w in ws}), "set_true_in": sorted(true_writers)})
    ctx.floor("CheckBlock early returns under fChecked", len(early), 1)
    ctx.floor("CheckBlock accepting exits", len(acc), 1)
    return cb, subst, acc
