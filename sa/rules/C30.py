"""C30 Feerate arithmetic is exact (DESIGN §3 C30) - PARTIAL structural claim.

Decided: the structural necessary conditions of the comparison / rounding clauses that are visible in the shape of the code
(cross-product pairing and operator agreement of the sibling comparison operators, the reversed-size tie-break, the rounding
correction table of the native Div by abstract evaluation over sign cases, argument provenance and the overflow guard of
EvaluateFee, the round-up evaluator in CFeeRate::GetFee).  NOT decided: exactness of the 128-bit product itself, the portable
fallback (MulFallback/DivFallback) against the native arithmetic, CompareChunks against its definition - these are numeric.
"""
import re
from sa.engine.api import *

UNITS = ["util/feefrac.cpp", "policy/feerate.cpp", "txgraph.cpp"]
LEVEL = "other"   # partial, structural claim: static obligations, not a proof
EXPLANATION = ("Partial, clause-level. (X) Every comparison operator of ByRatio<T> and the ordering of ByRatioNegSize<T> compares "
               "Mul(a.fee, b.size) with Mul(b.fee, a.size) - fee first (64-bit parameter), size second (32-bit parameter), the two sides taken from "
               "different operands - and applies exactly the comparison its own name says (sibling agreement over all operators found in feefrac.h; a "
               "mirrored spelling with the flipped operator is accepted). (T) ByRatioNegSize breaks ties of the cross products by size in reversed order "
               "and only ties. (D) FeeFrac::Div returns n/d plus a correction that is evaluated abstractly for the three signs of n%d and both rounding "
               "modes and must equal the floor/ceil table for C++ truncating division. (E) FeeFrac::EvaluateFee divides Mul(fee, at_size) by size with the "
               "rounding flag of its own instantiation, and takes the 64-bit fast path only for 0 <= fee < K with K*2^31 <= 2^64. (G) CFeeRate::GetFee "
               "returns the round-up evaluation of its own feerate at the requested size, CFeeRate comparisons compare the wrapped feerates of a and b in "
               "that order.")
ASSUMPTIONS = ["C++ semantics of / and % (truncation toward zero, sign of % follows the dividend)",
               "the product in FeeFrac::Mul is formed in 128 bits (the widening brace-init is transparent in the facts and is not decided)",
               "explicit template arguments of member calls are not in the facts: EvaluateFeeUp/EvaluateFeeDown -> EvaluateFee<false/true> is not decided"]
CLAIM = dict(
    category="other",
    technique="static analysis: sibling agreement of comparison operators (cross-product pairing and operator table), abstract evaluation of the rounding "
              "correction over sign cases, argument provenance, interval bound of the fast-path guard",
    text="PARTIAL: structural necessary conditions of exact feerate comparison and rounding - cross products pair fee of one operand with size of the other in "
         "every sibling operator, the operator applied is the operator named, ties are broken by reversed size, Div's rounding correction equals the floor/ceil "
         "table, EvaluateFee's operands/flag/overflow guard, GetFee rounds up.",
    note="Not decided (numeric, outside static reach): exactness of the 128-bit product and of MulFallback/DivFallback versus the native path, CompareChunks "
         "versus the diagram definition, EvaluateFee<true/false> selection inside EvaluateFeeUp/Down (template arguments of member calls are not extracted).",
    ref="DESIGN.md §3 C30")

CMP = {"<", ">", "<=", ">=", "==", "<=>", "!="}
FLIP = {"<": ">", ">": "<", "<=": ">=", ">=": "<=", "==": "==", "!=": "!="}


def _strip(e):
    while is_expr(e) and e[0] == "cast":
        e = e[2]
    return e


def leaf(e, roles):
    """(role, 'fee'|'size') for a.m_feefrac.fee / a.fee in either the dependent or the instantiated spelling."""
    e = _strip(e)
    if not is_expr(e):
        return None
    if e[0] == "umem" and e[1] in ("fee", "size"):
        fld, base = e[1], e[2]
    elif e[0] == "." and e[2] in ("FeeFrac::fee", "FeeFrac::size"):
        fld, base = e[2].split("::")[1], e[1]
    else:
        return None
    base = _strip(base)
    if is_expr(base) and ((base[0] == "umem" and base[1] == "m_feefrac") or (base[0] == "." and base[2].endswith("::m_feefrac"))):
        base = _strip(base[2] if base[0] == "umem" else base[1])
    if is_expr(base) and base[0] == "param" and base[1] in roles:
        return (roles[base[1]], fld)
    return None


def mul(e, roles):
    e = _strip(e)
    if not is_expr(e):
        return None
    if e[0] == "icall" and match(["uref", "Mul"], e[1]) and len(e) == 4:
        a = e[2:4]
    elif e[0] == "call" and e[1] in ("FeeFrac::Mul", "FeeFrac::MulFallback") and len(call_args(e)) == 2:
        a = call_args(e)
    else:
        return None
    l0, l1 = leaf(a[0], roles), leaf(a[1], roles)
    if l0 is None or l1 is None:
        return None
    return (l0, l1)


A_CROSS = (("a", "fee"), ("b", "size"))
B_CROSS = (("b", "fee"), ("a", "size"))


def cross_compare(e, roles):
    """Return ('ok', op) with op the effective comparison `cross_a op cross_b`, ('bad', why) for a decided wrong pairing, or None (unknown shape)."""
    e = _strip(e)
    if not (is_expr(e) and e[0] == "b" and e[1] in CMP):
        return None
    l, r = mul(e[2], roles), mul(e[3], roles)
    if l is None or r is None:
        return None
    if (l, r) == (A_CROSS, B_CROSS):
        return ("ok", e[1])
    if (l, r) == (B_CROSS, A_CROSS):
        if e[1] in FLIP:
            return ("ok", FLIP[e[1]])
        return ("bad", "three-way comparison of the cross products with the operands reversed")
    return ("bad", "cross products are %s and %s, expected Mul(a.fee, b.size) against Mul(b.fee, a.size)" % (l, r))


def const_bool(e):
    """value of a folded boolean template parameter, also under `!` (None if not constant)"""
    e = _strip(e)
    if is_expr(e) and e[0] == "bool":
        return bool(e[1])
    if is_expr(e) and e[0] == "int":
        return bool(int(e[1]))
    if is_expr(e) and e[0] == "u" and e[1] == "!":
        v = const_bool(e[2])
        return None if v is None else (not v)
    return None


def all_defs(f, P):
    """single-definition locals of these small pure functions, whatever their type (__int128, strong_ordering, auto)"""
    return local_defs(f, P, extra_ok=tuple(st["n"] for st in stmts(f.body) if st.get("k") == "decl" and st.get("n")))


def ratio_ops(P):
    out = []
    for q, fs in P.funcs.items():
        if not q.startswith("operator"):
            continue
        for f in fs:
            if "/util/feefrac.h" not in f.where or len(f.params) != 2:
                continue
            tys = [p["ty"] for p in f.params]
            kind = "ByRatioNegSize" if all("ByRatioNegSize<" in t for t in tys) else "ByRatio" if all("ByRatio<" in t for t in tys) else None
            if kind:
                out.append((kind, q[len("operator"):], f))
    return out


def eval_corr(e, env):
    """Abstractly evaluate an integer/boolean expression over env = {mod_sign in (-1,0,1), round_down in (0,1)}; returns (quot_coeff, const)."""
    e = _strip(e)
    if not is_expr(e):
        raise AnalysisBroken("C30: unexpected term in FeeFrac::Div: %r" % (e,))
    t = e[0]
    if t == "int":
        return (0, int(e[1]))
    if t == "bool":
        return (0, 1 if e[1] else 0)
    if t == "local" and e[1] == env["quot"]:
        return (1, 0)
    if t == "local" and e[1] == env["mod"]:
        return (0, env["mod_sign"])          # only its sign is ever used: callers below compare with 0 or test truth
    if t == "param" and e[1] == env["flag"]:
        return (0, env["round_down"])
    if t == "u" and e[1] == "!":
        return (0, 0 if truth(e[2], env) else 1)
    if t == "u" and e[1] == "-":
        c, k = eval_corr(e[2], env)
        return (-c, -k)
    if t == "?:":
        return eval_corr(e[2] if truth(e[1], env) else e[3], env)
    if t == "b" and e[1] in ("&&", "||"):
        l, r = truth(e[2], env), truth(e[3], env)
        return (0, 1 if ((l and r) if e[1] == "&&" else (l or r)) else 0)
    if t == "b" and e[1] in ("<", ">", "<=", ">=", "==", "!="):
        l, r = _strip(e[2]), _strip(e[3])
        # comparisons of mod with the constant 0 only (sign abstraction is exact for those)
        if is_expr(l) and l[0] == "local" and l[1] == env["mod"] and match(["int", 0], r):
            s = env["mod_sign"]
        elif is_expr(r) and r[0] == "local" and r[1] == env["mod"] and match(["int", 0], l):
            s = -env["mod_sign"]
        else:
            (lc, lk), (rc, rk) = eval_corr(l, env), eval_corr(r, env)
            if lc or rc:
                raise AnalysisBroken("C30: comparison involving the quotient in FeeFrac::Div")
            if (is_expr(l) and l[0] == "local" and l[1] == env["mod"]) or (is_expr(r) and r[0] == "local" and r[1] == env["mod"]):
                raise AnalysisBroken("C30: n%d compared with a non-zero value in FeeFrac::Div (sign abstraction not exact)")
            s = (lk > rk) - (lk < rk)
        return (0, 1 if {"<": s < 0, ">": s > 0, "<=": s <= 0, ">=": s >= 0, "==": s == 0, "!=": s != 0}[e[1]] else 0)
    if t == "b" and e[1] in ("+", "-"):
        (lc, lk), (rc, rk) = eval_corr(e[2], env), eval_corr(e[3], env)
        for x in (e[2], e[3]):
            x = _strip(x)
            if is_expr(x) and x[0] == "local" and x[1] == env["mod"]:
                raise AnalysisBroken("C30: n%d used arithmetically in FeeFrac::Div (sign abstraction not exact)")
        return (lc + rc, lk + rk) if e[1] == "+" else (lc - rc, lk - rk)
    raise AnalysisBroken("C30: unexpected term in FeeFrac::Div: %s" % show(e))


def truth(e, env):
    c, k = eval_corr(e, env)
    if c:
        raise AnalysisBroken("C30: quotient used as a truth value in FeeFrac::Div")
    return k != 0


def check(ctx):
    P = ctx.program(UNITS)
    # ---- (X) sibling agreement of the ratio comparison operators
    ops = ratio_ops(P)
    seen = {}
    for kind, op, f in ops:
        ctx.used(f)
        roles = {f.params[0]["n"]: "a", f.params[1]["n"]: "b"}
        defs = all_defs(f, P)
        ex = [e for e in exits(f, P) if e.kind == "ret"]
        if kind == "ByRatio":
            if len(ex) != 1:
                raise AnalysisBroken("C30: ByRatio operator%s has %d return exits" % (op, len(ex)))
            v = F.expand(ex[0].value, defs)
            r = cross_compare(v, roles)
            if r is None:
                raise AnalysisBroken("C30: ByRatio operator%s does not return a comparison of two Mul() cross products: %s" % (op, show(v)))
            ctx.ob("ByRatio/operator%s/cross-products" % op, "SIBLING", "ByRatio operator%s compares Mul(a.fee, b.size) with Mul(b.fee, a.size) (fee of one operand "
                   "times size of the other, fee as the 64-bit first argument)" % op, r[0] == "ok", f.where, {"returned": show(v), "verdict": r})
            if r[0] == "ok":
                ctx.ob("ByRatio/operator%s/operator" % op, "SIBLING", "ByRatio operator%s applies the comparison `%s` to (cross_a, cross_b)" % (op, op), r[1] == op, f.where,
                       {"returned": show(v), "effective_operator": r[1]})
            seen[("ByRatio", op)] = f.where
        elif op == "<=>":
            if len(ex) != 2:
                raise AnalysisBroken("C30: ByRatioNegSize operator<=> has %d return exits (expected: by ratio, then by size)" % len(ex))
            first, last = ex
            v1 = F.expand(first.value, defs)
            r = cross_compare(v1, roles)
            if r is None:
                raise AnalysisBroken("C30: ByRatioNegSize operator<=>: first return is not a comparison of cross products: %s" % show(v1))
            ctx.ob("ByRatioNegSize/<=>/cross-products", "SIBLING", "ByRatioNegSize operator<=> orders by Mul(a.fee, b.size) <=> Mul(b.fee, a.size) first",
                   r == ("ok", "<=>"), f.where, {"returned": show(v1), "verdict": r})
            # the first return is taken exactly when that comparison is not 'equal'
            key = F.key(v1)
            tie_ok = F.equivalent(first.formula, F.atom(key)) and F.equivalent(last.formula, F.mk_not(F.atom(key)))
            ctx.ob("ByRatioNegSize/<=>/tie-only", "LADDER", "the ratio verdict is returned exactly when it is not 'equal'; only ties reach the size comparison",
                   tie_ok, f.where, {"first": F.fshow(first.formula), "last": F.fshow(last.formula)})
            v2 = _strip(F.expand(last.value, defs))
            if not (is_expr(v2) and v2[0] == "b" and v2[1] in CMP and leaf(v2[2], roles) and leaf(v2[3], roles)):
                raise AnalysisBroken("C30: ByRatioNegSize operator<=>: tie-break is not a comparison of two operand fields: %s" % show(v2))
            l, r2 = leaf(v2[2], roles), leaf(v2[3], roles)
            ctx.ob("ByRatioNegSize/<=>/reversed-size", "VALUE", "ties are ordered by size reversed: b.size <=> a.size (larger size sorts first)",
                   v2[1] == "<=>" and (l, r2) == (("b", "size"), ("a", "size")), f.where, {"returned": show(v2)})
            seen[("ByRatioNegSize", op)] = f.where
        elif op == "==":
            v = _strip(F.expand(ex[0].value, defs)) if len(ex) == 1 else None
            okeq = False
            if v is not None and is_expr(v) and v[0] == "b" and v[1] == "==":
                sides = []
                for x in (v[2], v[3]):
                    x = _strip(x)
                    if is_expr(x) and ((x[0] == "umem" and x[1] == "m_feefrac") or (x[0] == "." and x[2].endswith("::m_feefrac"))):
                        b = _strip(x[2] if x[0] == "umem" else x[1])
                        sides.append(roles.get(b[1]) if is_expr(b) and b[0] == "param" else None)
                okeq = sorted(s or "?" for s in sides) == ["a", "b"]
            if v is None or not okeq and not (is_expr(v) and v[0] == "b"):
                raise AnalysisBroken("C30: ByRatioNegSize operator== has an unknown shape")
            ctx.ob("ByRatioNegSize/==/both-fields", "VALUE", "ByRatioNegSize equality is equality of the wrapped FeeFracs of a and b (fee and size), consistent with the "
                   "total order", okeq, f.where, {"returned": show(v)})
            seen[("ByRatioNegSize", op)] = f.where
    ctx.floor("ByRatio comparison operators analysed", len([k for k in seen if k[0] == "ByRatio"]), 6)
    ctx.floor("ByRatioNegSize operators analysed", len([k for k in seen if k[0] == "ByRatioNegSize"]), 2)

    # FeeFrac equality compares both fields of both operands
    eqs = [f for f in P.funcs.get("operator==", []) if "/util/feefrac.h" in f.where and [p["ty"] for p in f.params] == ["const FeeFrac &", "const FeeFrac &"]]
    if len(eqs) != 1:
        raise AnalysisBroken("C30: FeeFrac operator== not found")
    f = ctx.used(eqs[0])
    roles = {f.params[0]["n"]: "a", f.params[1]["n"]: "b"}
    ex = [e for e in exits(f, P) if e.kind == "ret"]
    pairs = set()
    for x in subexprs(ex[0].value) if len(ex) == 1 else []:
        if is_expr(x) and x[0] == "b" and x[1] == "==" and leaf(x[2], roles) and leaf(x[3], roles):
            pairs.add(frozenset([leaf(x[2], roles), leaf(x[3], roles)]))
    top = _strip(ex[0].value) if len(ex) == 1 else None
    conj = top is not None and is_expr(top) and top[0] == "b" and top[1] == "&&"
    if not pairs:
        raise AnalysisBroken("C30: FeeFrac operator== has an unknown shape")
    ctx.ob("FeeFrac/==/both-fields", "VALUE", "FeeFrac equality is a.fee == b.fee && a.size == b.size", conj and pairs == {frozenset([("a", "fee"), ("b", "fee")]),
           frozenset([("a", "size"), ("b", "size")])}, f.where, {"returned": show(ex[0].value)})

    # ---- (D) rounding correction of the native Div
    f = ctx.used(P.fn("FeeFrac::Div"))
    pn = [p["n"] for p in f.params]
    if len(pn) != 3:
        raise AnalysisBroken("C30: FeeFrac::Div does not take (n, d, round_down)")
    defs = all_defs(f, P)
    quot = [k for k, v in defs.items() if match(["b", "/", ["param", pn[0]], ["param", pn[1]]], _strip(v))]
    mod = [k for k, v in defs.items() if match(["b", "%", ["param", pn[0]], ["param", pn[1]]], _strip(v))]
    ex = [e for e in exits(f, P) if e.kind == "ret"]
    if len(quot) != 1 or len(mod) != 1 or len(ex) != 1:
        raise AnalysisBroken("C30: FeeFrac::Div is not of the shape quot = n/d; mod = n%d; return f(quot, mod, round_down)")
    narrow = [st for st in stmts(f.body) if st.get("k") == "decl" and st.get("n") == quot[0] and st.get("ty") not in ("int64_t", "const int64_t", "long", "auto", "__int128", "const auto")]
    ctx.ob("Div/quotient-width", "VALUE", "the quotient n/d is held in a 64-bit (or wider) variable", not narrow, f.where, {"decl": [(s.get("n"), s.get("ty")) for s in narrow]})
    table = {}
    for s in (-1, 0, 1):
        for rd in (0, 1):
            env = {"quot": quot[0], "mod": mod[0], "flag": pn[2], "mod_sign": s, "round_down": rd}
            table[(s, rd)] = eval_corr(ex[0].value, env)
    want = {(1, 1): (1, 0), (1, 0): (1, 1), (0, 1): (1, 0), (0, 0): (1, 0), (-1, 1): (1, -1), (-1, 0): (1, 0)}
    ctx.ob("Div/rounding-table", "ABSTRACT-EVAL", "FeeFrac::Div returns n/d + c with c = 0/+1 for a positive remainder (down/up), 0 for no remainder, -1/0 for a negative "
           "remainder (down/up): floor and ceiling of the exact quotient under C++ truncating division", table == want, f.where,
           {"returned": show(ex[0].value), "evaluated (sign of n%d, round_down) -> (coeff of n/d, correction)": {str(k): v for k, v in table.items()},
            "expected": {str(k): v for k, v in want.items()}})

    # ---- (E) EvaluateFee
    f = ctx.used(P.fn("FeeFrac::EvaluateFee"))
    at = f.params[0]["n"]
    ex = [e for e in exits(f, P) if e.kind == "ret"]
    slow = [e for e in ex if is_expr(_strip(e.value)) and _strip(e.value)[0] == "call" and _strip(e.value)[1] in ("FeeFrac::Div", "FeeFrac::DivFallback")]
    fast = [e for e in ex if e not in slow]
    if len(slow) != 1 or len(fast) != 1:
        raise AnalysisBroken("C30: FeeFrac::EvaluateFee does not have one Div(Mul(..)) exit and one fast-path exit")
    dv = call_args(_strip(slow[0].value))
    m = _strip(dv[0]) if dv else None
    ok_args = (len(dv) == 3 and is_expr(m) and m[0] == "call" and m[1] in ("FeeFrac::Mul", "FeeFrac::MulFallback") and
               match([".", ["this"], "FeeFrac::fee"], _strip(call_args(m)[0])) and match(["param", at], _strip(call_args(m)[1])) and
               match([".", ["this"], "FeeFrac::size"], _strip(dv[1])))
    ctx.ob("EvaluateFee/operands", "PROVENANCE", "the general path returns Div(Mul(fee, at_size), size, <rounding flag>): own fee times the requested size, divided by own size",
           bool(ok_args), f.where, {"returned": show(slow[0].value)})
    # rounding flag of this instantiation = the `if constexpr (RoundDown)` selector of the fast path
    sel = [st for st in stmts(f.body) if st.get("k") == "if" and st.get("constexpr") and is_expr(st.get("c")) and st["c"][0] == "bool"]
    if len(sel) != 1 or not (len(dv) == 3 and const_bool(dv[2]) is not None):
        raise AnalysisBroken("C30: FeeFrac::EvaluateFee: rounding selector (if constexpr) or the flag passed to Div is not a folded template parameter")
    rd = bool(sel[0]["c"][1])
    ctx.ob("EvaluateFee/flag-agrees", "SIBLING", "the rounding flag passed to Div equals the rounding mode that selects the fast-path division in the same instantiation",
           const_bool(dv[2]) == rd, f.where, {"if constexpr": rd, "flag passed to Div": show(dv[2])})
    fv = _strip(fast[0].value)
    prod = None
    if rd and is_expr(fv) and fv[0] == "b" and fv[1] == "/":
        prod, den, shape = fv[2], fv[3], "floor"
    elif (not rd) and is_expr(fv) and fv[0] == "call" and fv[1] == "CeilDiv" and len(call_args(fv)) == 2:
        prod, den, shape = call_args(fv)[0], call_args(fv)[1], "ceil"
    elif is_expr(fv) and ((fv[0] == "b" and fv[1] == "/") or (fv[0] == "call" and fv[1] == "CeilDiv")):
        ctx.ob("EvaluateFee/fast-rounding", "VALUE", "the fast path uses plain (floor) division when rounding down and CeilDiv when rounding up", False, f.where,
               {"round_down": rd, "returned": show(fv)})
    else:
        raise AnalysisBroken("C30: FeeFrac::EvaluateFee fast path has an unknown shape: %s" % show(fv))
    if prod is not None:
        ctx.ob("EvaluateFee/fast-rounding", "VALUE", "the fast path uses plain (floor) division when rounding down and CeilDiv when rounding up", True, f.where,
               {"round_down": rd, "shape": shape})
        p = prod
        # uint64_t(fee) * at_size : the cast on the fee operand decides the 64-bit width (not transparent under *)
        ok_prod = (is_expr(p) and p[0] == "b" and p[1] == "*" and is_expr(p[2]) and p[2][0] == "cast" and p[2][1] in ("uint64_t", "unsigned long") and
                   match([".", ["this"], "FeeFrac::fee"], _strip(p[2])) and match(["param", at], _strip(p[3])))
        ok_den = match([".", ["this"], "FeeFrac::size"], _strip(den))
        ctx.ob("EvaluateFee/fast-operands", "PROVENANCE", "the fast path divides uint64_t(fee) * at_size by size", bool(ok_prod and ok_den), f.where, {"returned": show(fv)})
        # guard: 0 <= fee < K with K * 2^31 <= 2^64
        bound = None
        nonneg = False
        for a in F.atoms(fast[0].formula):
            mm = re.match(r"^(?:this->)?fee < (-?\d+)$", a)
            if mm:
                k = int(mm.group(1))
                if k == 0:
                    nonneg = F.implies(fast[0].formula, F.mk_not(F.atom(a)))
                elif F.implies(fast[0].formula, F.atom(a)):
                    bound = k if bound is None else min(bound, k)
        ctx.ob("EvaluateFee/fast-guard", "INTERVAL", "the 64-bit fast path is taken only when 0 <= fee < K with K * 2^31 <= 2^64 (at_size is a non-negative int32), so "
               "uint64_t(fee) * at_size cannot wrap", bool(nonneg and bound is not None and bound * (1 << 31) <= (1 << 64)), f.where,
               {"guard": F.fshow(fast[0].formula), "K": bound})
    for q in ("FeeFrac::EvaluateFeeUp", "FeeFrac::EvaluateFeeDown"):
        g = ctx.used(P.fn(q))
        ex = [e for e in exits(g, P) if e.kind == "ret"]
        v = _strip(ex[0].value) if len(ex) == 1 else None
        ctx.ob(q.split("::")[1] + "/forwards", "PROVENANCE", "%s evaluates the same FeeFrac at the requested size" % q,
               bool(v is not None and is_expr(v) and v[0] == "mcall" and v[1] == "FeeFrac::EvaluateFee" and match(["this"], v[2]) and
                    match(["param", g.params[0]["n"]], _strip(v[3]))), g.where, {"returned": show(v) if v is not None else None})

    # ---- (G) CFeeRate
    f = ctx.used(P.fn("CFeeRate::GetFee"))
    vb = f.params[0]["n"]
    defs = all_defs(f, P)
    ex = [e for e in exits(f, P) if e.kind == "ret"]
    main = [e for e in ex if not (is_expr(e.value) and e.value[0] == "int")]
    if len(main) != 1:
        raise AnalysisBroken("C30: CFeeRate::GetFee does not have exactly one non-constant return")
    v = _strip(F.expand(main[0].value, defs))
    if not (is_expr(v) and v[0] == "mcall"):
        raise AnalysisBroken("C30: CFeeRate::GetFee does not return an evaluator call: %s" % show(v))
    ctx.ob("GetFee/rounds-up", "PROVENANCE", "CFeeRate::GetFee returns m_feerate.EvaluateFeeUp(virtual_bytes): the fee for a size is rounded up to the next satoshi",
           v[1] == "FeeFrac::EvaluateFeeUp" and match([".", ["this"], "CFeeRate::m_feerate"], _strip(v[2])) and match(["param", vb], _strip(v[3])), f.where,
           {"returned": show(v)})
    consts = [e for e in ex if e not in main]
    zero = [e for e in consts if match(["int", 0], e.value)]
    emp = "m_feerate.IsEmpty()"
    ok_zero = len(zero) == 1 and any(a.endswith(emp) for a in F.atoms(zero[0].formula)) and \
        F.equivalent(zero[0].formula, F.atom([a for a in F.atoms(zero[0].formula) if a.endswith(emp)][0]))
    ctx.ob("GetFee/empty-is-zero", "LADDER", "a constant 0 is returned exactly for the empty feerate (no division by a zero size)", bool(ok_zero), f.where,
           {"exits": [(e.line, show(e.value), F.fshow(e.formula)) for e in ex]})
    neg = [e for e in consts if e not in zero]
    ok_neg = all(any(re.search(r"m_feerate\.fee < 0$", a) and F.implies(e.formula, F.atom(a)) for a in F.atoms(e.formula)) for e in neg)
    ctx.ob("GetFee/other-constants-negative-only", "LADDER", "any other constant result is returned only for a negative fee (non-negative feerates get the rounded-up value)",
           ok_neg, f.where, {"exits": [(e.line, show(e.value), F.fshow(e.formula)) for e in neg]})
    n = 0
    for op in ("<=>", "=="):
        for g in P.funcs.get("operator" + op, []):
            if "/policy/feerate.h" not in g.where or [p["ty"] for p in g.params] != ["const CFeeRate &", "const CFeeRate &"]:
                continue
            ctx.used(g)
            roles = {g.params[0]["n"]: "a", g.params[1]["n"]: "b"}
            ex = [e for e in exits(g, P) if e.kind == "ret"]
            v = _strip(ex[0].value) if len(ex) == 1 else None
            if not (v is not None and is_expr(v) and v[0] == "b" and v[1] in CMP):
                raise AnalysisBroken("C30: CFeeRate operator%s has an unknown shape" % op)
            sides = []
            for x in (v[2], v[3]):
                x = _strip(x)
                w = call_args(x)[0] if is_expr(x) and x[0] == "ctor" and x[1] in ("ByRatio", "ByRatioNegSize") and call_args(x) else None
                w = _strip(w) if w is not None else None
                sides.append((x[1], roles.get(w[1][1])) if w is not None and match([".", ["param", ANY], "CFeeRate::m_feerate"], w) else None)
            ctx.ob("CFeeRate/operator%s" % op, "SIBLING", "CFeeRate operator%s is `ByRatio{a.m_feerate} %s ByRatio{b.m_feerate}` (same operator, operands in order, "
                   "ratio ordering)" % (op, op), v[1] == op and sides == [("ByRatio", "a"), ("ByRatio", "b")], g.where, {"returned": show(v)})
            n += 1
    ctx.floor("CFeeRate comparison operators analysed", n, 2)
    ctx.extra["operators"] = {"%s operator%s" % k: w for k, w in sorted(seen.items())}
