"""C02 An output can be spent at most once and only if it exists (DESIGN §3 C02)."""
import re

from sa.engine.api import *
from sa.engine import callgraph
from sa.rules import C03
from sa.rules._consensus import *

UNITS = CONSENSUS_UNITS
EXPLANATION = ("Structure that makes spends unique and existing, on all paths: the duplicate-input rung of CheckTransaction covers the whole input "
               "vector; CheckTxInputs accepts only past inputs.HaveInputs(tx); HaveInputs/HaveCoin equal their definitions (every input's coin is "
               "present and unspent); in ConnectBlock one loop both checks and applies each transaction in order against the same view "
               "(UpdateCoins only past CheckTxInputs true), so in-block double spends and spends of later-created outputs are rejected; UpdateCoins "
               "spends every input through SpendCoin with an asserted result and adds the outputs unconditionally; AddCoin refuses to overwrite an "
               "unspent coin and never stores unspendable outputs; BIP30: an existing unspent output with the same outpoint rejects the block "
               "under the enforcement condition; rejected blocks leave the UTXO set and tip unchanged: ConnectBlock's callers pass an overlay view "
               "and ConnectTip flushes it / moves the tip only on ConnectBlock's true edge.")
ASSUMPTIONS = ["SpendCoin / FetchCoin cache semantics across flushes are C15's obligations", "std::set / unordered_map semantics"]
CLAIM = dict(
    technique="static analysis: LADDER rungs and predicate twins (truth tables), guard implication on the apply effect, loop-coverage, who-may-call, must-flow on ConnectTip",
    text="Every accepting path of transaction/block connection has established existence and single use of each spent outpoint; the apply step "
         "(UpdateCoins) is dominated by the check step on the same view and the cache mutators refuse resurrection/overwrite; a rejected block "
         "cannot reach the flush or the tip update.",
    note="Not decided: SpendCoin/cache behaviour across flush layers (C15), reorg histories, hash collision arguments.",
    ref="DESIGN.md §3 C02")


def check(ctx):
    P = ctx.program(UNITS)
    # 1. duplicate inputs (CVE-2018-17144 shape)
    ct = ctx.used(P.fn("CheckTransaction"))
    check_ladder(ctx, ct, P, [r for r in C03.RUNGS if r.label == "bad-txns-inputs-duplicate"], is_accept=is_true_ret, mode="NECESSARY")
    # 2. CheckTxInputs requires existing inputs
    ci = ctx.used(P.fn("Consensus::CheckTxInputs"))
    check_ladder(ctx, ci, P, [Rung("bad-txns-inputs-missingorspent", "!HAVE", {"HAVE": "inputs.HaveInputs(tx)"})], is_accept=is_true_ret, mode="NECESSARY")
    # 3. HaveInputs / HaveCoin twins
    hi = ctx.used(P.fn("CCoinsViewCache::HaveInputs"))
    atoms = {"COINBASE": "tx.IsCoinBase()", "HAVECOIN": re.compile(r"CCoinsViewCache::HaveCoin\((tx\.vin\[i\]|each\(tx\.vin\))\.prevout\)")}
    check_ladder(ctx, hi, P, [Rung("missing-input", "!HAVECOIN", atoms, loop=r"(for\(0; i < tx\.vin\.size\(\)\)|each\(tx\.vin\))", when="!COINBASE")],
                 is_accept=is_true_ret, is_reject=is_false_ret, mode="NECESSARY")
    hc = ctx.used(P.fn("CCoinsViewCache::HaveCoin"))
    FC = r"CCoinsViewCache::FetchCoin\(outpoint\)"
    check_return_formula(ctx, hc, P, "!END && !SPENT", {"END": re.compile(r"(%s == cacheCoins\.end\(\)|cacheCoins\.end\(\) == %s)" % (FC, FC)),
                                                         "SPENT": re.compile(FC + r"\.second\.coin\.IsSpent\(\)")})
    # 4. ConnectBlock: check and apply in one loop, same view, check dominates apply
    cb = ctx.used(P.fn("Chainstate::ConnectBlock"))
    loop = tx_loop(cb)
    body = sub_function(cb, loop["b"], "txloop")
    TX = r"(tx|\*block\.vtx\[i\])"
    latoms = {"COINBASE": re.compile(TX + r"\.IsCoinBase\(\)"), "CTI": re.compile(r"Consensus::CheckTxInputs\(" + TX + r", tx_state, view, pindex\.nHeight, txfee\)")}
    ss = check_guard(ctx, body, P, call_to("UpdateCoins"), "COINBASE || CTI", latoms, "ConnectBlock/txloop/UpdateCoins",
                     "a transaction's inputs are spent only if it is the coinbase or CheckTxInputs accepted it against the same view")
    for s in ss:
        a = call_args(s.expr)
        ok = len(a) >= 2 and match(["param", "view"], a[1]) and show(F.expand(a[0], naming(body, P))) in ("tx", "*block.vtx[i]")
        ctx.ob("ConnectBlock/txloop/UpdateCoins-args@L%s" % s.line, "PROVENANCE", "UpdateCoins applies the loop's transaction to the `view` parameter that CheckTxInputs consulted",
               ok, s.where, [show(x) for x in a[:2]])
    cti = sites(body, call_to("Consensus::CheckTxInputs"), P)
    ctx.floor("CheckTxInputs in the transaction loop", len(cti), 1)
    rng = loop_range_key(loop, naming(cb, P))
    ctx.ob("ConnectBlock/txloop/range", "LOOP", "the check-and-apply loop runs over every transaction of the block in order (index 0 .. vtx.size())",
           rng.replace(" ", "") in ("for(0;i<block.vtx.size())",) or rng == "each(block.vtx)", "%s:%s" % (cb.file, loop["l"]), {"loop": rng})
    # 5. UpdateCoins
    uc = ctx.used(P.fn("UpdateCoins"))
    sp = sites(uc, call_to("CCoinsViewCache::SpendCoin"), P)
    ctx.floor("SpendCoin sites in UpdateCoins", len(sp), 1)
    usub = naming(uc, P)
    for s in sp:
        a = call_args(s.expr)
        inloop = [loop_range_key(l, usub) for l in s.loops]
        ok = inloop == ["each(tx.vin)"] and show(F.expand(a[0], usub)) == "each(tx.vin).prevout" and match(["param", "inputs"], call_obj(s.expr))
        own = F.mk_and([g.formula(usub) for g in s.guards if g.kind in ("if", "sc")])
        ok = ok and F.implies(F.parse("NOTCB"), F.bind_atoms(own, {"NOTCB": ("tx.IsCoinBase()", False)})[0])
        ctx.ob("UpdateCoins/SpendCoin@L%s" % s.line, "LOOP", "every input of a non-coinbase transaction is spent through inputs.SpendCoin(txin.prevout, ...) "
               "(range-for over the whole vin, guarded only by !IsCoinBase)", ok, s.where, {"loops": inloop, "guard": F.fshow(own), "arg": show(a[0])})
    asserted = [st for st in stmts(uc.body) if st.get("k") == "expr" and st.get("m") in ("assert", "Assert") and is_expr(st.get("e")) and st["e"][0] == "asserted"
                and ("SpendCoin" in show(F.expand(st["e"][1], local_defs(uc, P))))]
    ctx.ob("UpdateCoins/SpendCoin-asserted", "MPT", "the result of SpendCoin is asserted (a missing coin aborts instead of being silently skipped)", len(asserted) >= 1, uc.where)
    for lp in [st for st in stmts(uc.body) if st.get("k") == "foreach"]:
        ctx.ob("UpdateCoins/loop-complete@L%s" % lp.get("l"), "LOOP", "the input loop of UpdateCoins has no break/continue that skips an input",
               not has_break(lp["b"]) and not any(x.get("k") == "continue" for x in stmts(lp["b"])), "%s:%s" % (uc.file, lp.get("l")))
    ac = sites(uc, call_to("AddCoins"), P)
    ok = len(ac) == 1 and not [g for g in ac[0].guards if g.kind in ("if", "sc", "loop", "case")]
    ctx.ob("UpdateCoins/AddCoins", "MPT", "UpdateCoins adds the transaction's outputs unconditionally (AddCoins(inputs, tx, nHeight))", ok, uc.where)
    # 6. AddCoin: never stores unspendable outputs, refuses to overwrite an unspent coin
    adc = ctx.used(P.fn("CCoinsViewCache::AddCoin"))
    asub = naming(adc, P)
    emp = sites(adc, lambda e: e[0] == "mcall" and e[1].endswith("try_emplace") or (e[0] == "mcall" and e[1].endswith("::emplace")), P)
    ctx.floor("AddCoin insertion site", len(emp), 1)
    for s in emp:
        f = s.formula(asub)
        fb, _, _ = F.bind_atoms(f, {"UNSPENDABLE": "coin.out.scriptPubKey.IsUnspendable()"})
        ctx.ob("AddCoin/unspendable@L%s" % s.line, "MPT", "a coin enters the cache only if its script is not provably unspendable", F.implies(fb, F.parse("!UNSPENDABLE")), s.where)
    thr = [e for e in exits(adc, P, asub) if e.kind == "throw"]
    ctx.floor("AddCoin overwrite rejection", len(thr), 1)
    # every path that assigns the new coin over an existing entry has passed the overwrite test
    assign = sites(adc, lambda e: e[0] == "b" and e[1] == "=" and show(e[2]).endswith(".second.coin"), P)
    ctx.floor("AddCoin coin assignment", len(assign), 1)
    for s in assign:
        f = s.formula(asub)
        fb, mp, un = F.bind_atoms(f, {"OVERWRITE": "possible_overwrite", "EXISTING_SPENT": re.compile(r"(it|.*try_emplace.*first|bind0\(.*\))\.second\.coin\.IsSpent\(\)")})
        cex = F.counterexample(fb, F.parse("OVERWRITE || EXISTING_SPENT"))
        ctx.ob("AddCoin/no-overwrite@L%s" % s.line, "MPT", "an existing cache entry is overwritten only if overwriting is allowed or the existing coin is spent "
               "(otherwise std::logic_error)", cex is None, s.where, None if cex is None else {"path": F.fshow(f)[:500], "unbound": un, "counterexample": cex})
    # 7. BIP30
    subst = naming(cb, P)
    b30 = [s for s in sites(cb, lambda e: e[0] == "mcall" and e[1] == "ValidationState::Invalid" and len(e) > 4 and match(["str", "bad-txns-BIP30"], e[4]), P)]
    ctx.floor("BIP30 rejection site", len(b30), 1)
    for s in b30:
        own = F.mk_and([g.formula(subst) for g in s.guards if g.kind in ("if", "sc")])
        fb, mp, un = F.bind_atoms(own, {"HAVE": re.compile(r"view\.HaveCoin\(COutPoint\{each\(block\.vtx\)\.GetHash\(\), o\}\)"),
                                        "ENFORCE": "fEnforceBIP30", "LOW": "pindex.nHeight < 1983702"})
        cex = F.counterexample(F.parse("HAVE && (ENFORCE || !LOW)"), fb)
        loops = [loop_range_key(l, subst) for l in s.loops]
        okl = len(loops) == 2 and loops[0] == "each(block.vtx)" and re.fullmatch(r"for\(0; o < each\(block\.vtx\)\.vout\.size\(\)\)|each\(each\(block\.vtx\)\.vout\)", loops[1]) is not None
        ctx.ob("ConnectBlock/BIP30@L%s" % s.line, "LADDER", "for every output of every transaction, an existing unspent coin at the same outpoint rejects the block "
               "(bad-txns-BIP30) when BIP30 is enforced or height >= 1,983,702", cex is None and okl, s.where,
               None if (cex is None and okl) else {"own_guard": F.fshow(own), "loops": loops, "unbound": un, "counterexample": cex})
    rep = ctx.used(P.fn("IsBIP30Repeat"))
    H = "block_index.GetBlockHash() == uint256{\"%s\"}"
    check_return_formula(ctx, rep, P, "(H1 && B1) || (H2 && B2)", {
        "H1": "block_index.nHeight == 91842", "H2": "block_index.nHeight == 91880",
        "B1": re.compile(r".*00000000000a4d0a398161ffc163c503763b1f4360639393e0e4c8e300e0caec.*"),
        "B2": re.compile(r".*00000000000743f190a18c5577a3c2d2a1f610ae9601ac046a38084ccb7cd721.*")})
    fe = local_values(cb, "fEnforceBIP30")
    ok = len(fe) >= 1 and show(fe[0][1]) == "!IsBIP30Repeat(*pindex)" and all(("fEnforceBIP30 &&" in show(v)) for _, v in fe[1:])
    ctx.ob("ConnectBlock/fEnforceBIP30", "PROVENANCE", "BIP30 enforcement starts as !IsBIP30Repeat(*pindex) and is only ever narrowed by conjunction", ok, cb.where, [show(v)[:120] for _, v in fe])
    # 8. rejected blocks leave UTXO set and tip unchanged
    cg = callgraph.load_all()
    callers = cg.callers("Chainstate::ConnectBlock")
    ctx.ob("who-calls/ConnectBlock", "WHO-MAY-CALL", "ConnectBlock is called only from ConnectTip, TestBlockValidity and VerifyDB",
           set(callers) <= {"Chainstate::ConnectTip", "TestBlockValidity", "CVerifyDB::VerifyDB"} and "Chainstate::ConnectTip" in callers, None, {"callers": callers})
    for q in callers:
        for fn in P.fns(q):
            for s in sites(fn, call_to("Chainstate::ConnectBlock"), P):
                a = call_args(s.expr)
                v = a[3] if len(a) > 3 else None
                txt = show(F.expand(v, local_defs(fn, P))) if v else ""
                ok = v is not None and "CoinsTip()" != txt and not txt.endswith("CoinsTip()") and v[0] in ("local", ".", "u")
                ctx.ob("%s/view-arg@L%s" % (q, s.line), "PROVENANCE", "ConnectBlock is given a scratch/overlay view (never CoinsTip() itself)", ok, s.where, {"arg": txt})
    tip = ctx.used(P.fn("Chainstate::ConnectTip"))
    mf = MustFlow(tip, P, branch_marks=[("connected", call_to("Chainstate::ConnectBlock"), True)])
    commit = {"CoinsViewOverlay::Flush", "CCoinsViewCache::Flush", "CChain::SetTip", "Chainstate::UpdateTip", "CTxMemPool::removeForBlock"}
    mf.watch = lambda e: callee(e) in commit
    mf.run()
    ctx.floor("ConnectTip commit effects", len(mf.events), 3)
    for e, st, stmt in mf.events:
        ctx.ob("ConnectTip/%s@L%s" % (callee(e).rsplit("::", 1)[-1], stmt.get("l")), "MPT", "%s in ConnectTip is reached only through the true edge of ConnectBlock" % callee(e),
               "connected" in st, "%s:%s" % (tip.file, stmt.get("l")))
    # the overlay is reset when ConnectBlock fails: the guard object is created before the call
    order = MustFlow(tip, P, marks=[("guard", call_to("CoinsViewOverlay::StartFetching"))])
    order.watch = call_to("Chainstate::ConnectBlock")
    order.run()
    for e, st, stmt in order.events:
        ctx.ob("ConnectTip/reset-guard@L%s" % stmt.get("l"), "ORDER", "the overlay's reset guard (StartFetching) is established before ConnectBlock runs, so a failed block's "
               "coin changes are discarded", "guard" in st, "%s:%s" % (tip.file, stmt.get("l")))
