"""Helpers shared by the wallet partial-claim rule modules C41 and C44.

Nothing in here decides a property; these are small adapters on top of sa.engine:

* safe_naming(fn, P): naming() without names that are declared more than once in the function (naming() would map such a
  name to its *last* range-for declaration), and with 2-name structured bindings over pair-like values rendered as
  `.first` / `.second` also when the declared type is a map's value_type / mapped_type (so `auto& [k, v] : m` and
  `auto& kv : m; kv.first` give the same atoms).
* own_guard(site, sub): the conjunction of the branch / short-circuit / loop conditions enclosing a site (no post-conditions).
* inline_preds(formula, fn, P, sub): an atom that is a call of a loop-free `bool` helper function or of a named local
  predicate lambda is replaced by the callee's return formula (arguments substituted), so that extracting part of a
  condition into a helper or lambda does not change the decision structure.
* origins(fn, e): backward slice of a value through locals (all values a local is ever given, through `*x`, std::move,
  util::Result / std::optional wrappers): the list of non-local leaf expressions it may come from.
  `line` selects the visible declaration (visible_decl) of a name that is declared more than once.
* counterexample / implies / equivalent: the engine's truth-table test enumerated atom by atom with early cut-off (same verdicts as
  F.counterexample, which enumerates all 2^n rows and is limited to 22 atoms; the AvailableCoins path conditions have ~30).
* switch_groups / site_formula_sw: exact entry condition of each group of a switch with fall-through (labels, or the previous
  group completing normally); the engine's `case` guard keeps only the labels.
* bound_by(table): keep-predicate for inline_preds so that helper calls which are the rule's own atoms stay opaque.
"""
import copy

from sa.engine.api import *
from sa.engine.ir import Function


def decl_counts(fn):
    c = {}
    for st in stmts(fn.body):
        if st.get("k") == "decl":
            for n in ([st["n"]] if st.get("n") else []) + list(st.get("binds") or []):
                c[n] = c.get(n, 0) + 1
        v = st.get("var")
        if isinstance(v, dict):
            for n in ([v["n"]] if v.get("n") else []) + list(v.get("binds") or []):
                c[n] = c.get(n, 0) + 1
    return c


def _pairish(ty):
    return isinstance(ty, str) and "pair<" in ty


def safe_naming(fn, P, allow_overwritten=False):
    sub = dict(naming(fn, P, allow_overwritten=allow_overwritten))
    cnt = decl_counts(fn)
    # east-const references / pointers (`T const &`) are as single-definition as `const T&`
    east = tuple(st["n"] for st in stmts(fn.body) if st.get("k") == "decl" and st.get("n") and isinstance(st.get("ty"), str) and
                 (st["ty"].endswith("const &") or st["ty"].endswith("const *") or st["ty"].endswith("const&")))
    if east:
        for k, v in local_defs(fn, P, extra_ok=east, allow_overwritten=allow_overwritten).items():
            sub.setdefault(k, v)
    # a name declared several times is kept only if every declaration is a range-for variable over the same range
    loopvar = {}
    for st in stmts(fn.body):
        v = st.get("var") if st.get("k") == "foreach" else None
        if isinstance(v, dict) and v.get("n"):
            loopvar.setdefault(v["n"], []).append(F.key(st.get("range")))
    for n, k in cnt.items():
        if k > 1 and n in sub:
            if len(loopvar.get(n, [])) == k and len(set(loopvar[n])) == 1:
                continue
            del sub[n]
    # pair-like structured bindings -> .first / .second
    for st in stmts(fn.body):
        v = st.get("var") if st.get("k") == "foreach" else None
        if isinstance(v, dict) and v.get("binds") and len(v["binds"]) == 2 and _pairish(v.get("ty")):
            for i, b in enumerate(v["binds"]):
                if b in sub and cnt.get(b, 0) == 1:
                    sub[b] = [".", ["each", st.get("range")], "std::pair::first" if i == 0 else "std::pair::second"]
        if st.get("k") == "decl" and st.get("binds") and len(st["binds"]) == 2 and is_expr(st.get("i")) and _pairish(st.get("ty")):
            for i, b in enumerate(st["binds"]):
                if b in sub and cnt.get(b, 0) == 1:
                    sub[b] = [".", st["i"], "std::pair::first" if i == 0 else "std::pair::second"]
    return sub


def own_guard(site, sub, kinds=("if", "sc", "loop", "case")):
    return F.mk_and([g.formula(sub) for g in site.guards if g.kind in kinds])


def replace_atom(f, k, repl):
    t = f[0]
    if t == "atom":
        return repl if f[1] == k else f
    if t == "not":
        return F.mk_not(replace_atom(f[1], k, repl))
    if t == "and":
        return F.mk_and([replace_atom(x, k, repl) for x in f[1]])
    if t == "or":
        return F.mk_or([replace_atom(x, k, repl) for x in f[1]])
    return f


def _subst_params(x, table):
    if isinstance(x, list):
        if len(x) == 2 and x[0] == "param" and x[1] in table:
            return copy.deepcopy(table[x[1]])
        return [_subst_params(y, table) for y in x]
    if isinstance(x, dict):
        return {k: _subst_params(v, table) for k, v in x.items()}
    return x


def _callee_formula(h, P, args, outer_sub=None):
    """Return formula of a loop-free bool helper / predicate lambda with `args` substituted for its parameters, or None."""
    if h.body is None or len(h.params) != len(args):
        return None
    if any(st.get("k") in ("for", "while", "do", "foreach", "try", "switch") for st in stmts(h.body)):
        return None
    d = copy.deepcopy(h.d)
    d["body"] = _subst_params(d["body"], {p["n"]: a for p, a in zip(h.params, args) if p.get("n")})
    h2 = Function(d, h.unit)
    h2.simp()
    sub = dict(outer_sub or {})
    sub.update(naming(h2, P))
    parts = []
    for e in exits(h2, P, sub):
        if e.kind != "ret" or not is_expr(e.value):
            return None
        parts.append(F.mk_and([e.formula, F.to_formula(e.value, sub)]))
    return F.mk_or(parts) if parts else None


def bound_by(table):
    """keep-predicate for inline_preds: atoms that the rule's atom table binds are the rule's vocabulary and stay opaque."""
    def keep(k):
        for m in table.values():
            for one in (m if isinstance(m, list) else [m]):
                mm = one[0] if isinstance(one, tuple) else one
                if F._match_one(mm, k):
                    return True
        return False
    return keep


def inline_preds(f, fn, P, sub, depth=2, keep=None):
    for _ in range(depth):
        have = set(F.atoms(f))
        changed = False
        for st, e in all_exprs(fn.body):
            for x in subexprs(e):
                h = None
                outer = None
                if x[0] == "call" and isinstance(x[1], str):
                    cands = [c for c in P.funcs.get(x[1], []) if c.body is not None and c.d.get("ret") == "bool"]
                    if len(cands) == 1:
                        h = cands[0]
                elif x[0] == "opcall" and x[1] == "()" and isinstance(x[2], str) and "::lambda@" in x[2] and len(x) > 3 and is_expr(x[3]) and x[3][0] == "local":
                    cands = [c for c in P.funcs.get(x[2], []) if c.body is not None]
                    if len(cands) == 1:
                        h, outer = cands[0], sub        # captured names are the enclosing function's locals / parameters
                if h is None:
                    continue
                k = F.key(F.expand(x, sub))
                if k not in have or (keep is not None and keep(k)):
                    continue
                args = [F.expand(a, sub) for a in (call_args(x) if x[0] == "call" else x[4:])]
                hf = _callee_formula(h, P, args, outer)
                if hf is None:
                    continue
                f = replace_atom(f, k, hf)
                have.discard(k)
                changed = True
        if not changed:
            break
    return f


def site_formula(site, fn, P, sub, keep=None):
    return inline_preds(site.formula(sub), fn, P, sub, keep=keep)


# ------------------------------------------------------------------------------------------------ provenance
def unwrap(e):
    """Strip value-preserving wrappers: *x, std::move(x), util::Result{x} / std::optional{x}, x.value(), casts."""
    while is_expr(e):
        t = e[0]
        if t == "u" and e[1] == "*" and len(e) > 2:
            e = e[2]
        elif t == "call" and e[1] in ("std::move", "std::forward") and call_args(e):
            e = call_args(e)[0]
        elif t == "ctor" and e[1] in ("util::Result", "std::optional") and len(call_args(e)) == 1:
            e = call_args(e)[0]
        elif t in ("mcall",) and isinstance(e[1], str) and e[1].rsplit("::", 1)[-1] in ("value", "operator*", "get") and len(e) == 3:
            e = e[2]
        elif t == "cast" and len(e) > 2 and is_expr(e[2]):
            e = e[2]
        elif t in ("paren", "defarg", "asserted") and len(e) > 1 and is_expr(e[1]):
            e = e[1]
        else:
            break
    return e


def _max_line(s):
    return max([x.get("l") or 0 for x in stmts(s)] or [0])


def visible_decl(fn, name, line):
    """The declaration of `name` visible at `line`: the latest one at or before that line whose enclosing block extends to it."""
    best = None

    def walk(s, lo, hi):
        nonlocal best
        if not isinstance(s, dict):
            return
        if s.get("k") == "decl" and s.get("n") == name and (s.get("l") or 0) <= line <= hi:
            if best is None or (s.get("l") or 0) >= (best.get("l") or 0):
                best = s
        if s.get("k") == "seq":
            h = _max_line(s)
            for x in s.get("s") or []:
                walk(x, s.get("l") or lo, h)
            return
        for k in ("t", "e", "b", "init"):
            if isinstance(s.get(k), dict):
                walk(s[k], lo, _max_line(s[k]))
        for k in ("s", "h"):
            for x in s.get(k) or []:
                walk(x, lo, hi)

    walk(fn.body, fn.line, fn.end)
    return best


def origins(fn, e, seen=(), line=None):
    """Leaves of the backward slice of e through locals.  A compound update / address-of of a local is reported as a
    ["compound", op, ..] leaf; a range-for variable as ["each", <range>]; a structured binding as ["bind", name].
    `line` (where e is used) selects the visible declaration of a name that is declared more than once."""
    e = unwrap(e)
    if not is_expr(e) or e[0] != "local":
        return [e]
    n = e[1]
    if n in seen:
        return []
    for st in stmts(fn.body):
        v = st.get("var") if st.get("k") == "foreach" else None
        if isinstance(v, dict) and (v.get("n") == n or n in (v.get("binds") or [])):
            return [["each", st.get("range")]]
        if st.get("k") == "decl" and n in (st.get("binds") or []):
            return [["bind", n]]
    vals = local_values(fn, n)
    decls = [st for st in stmts(fn.body) if st.get("k") == "decl" and st.get("n") == n]
    if len(decls) > 1 and line is not None:
        d = visible_decl(fn, n, line)
        other = {id(x.get("i")) for x in decls if x is not d and is_expr(x.get("i"))}
        vals = [(l, v) for l, v in vals if id(v) not in other]
    if not vals:
        return [e]
    out = []
    for l, v in vals:
        if is_expr(v) and v[0] == "compound":
            out.append(v)
        else:
            out.extend(origins(fn, v, seen + (n,), l))
    return out


def in_loop(site, loop):
    return any(l is loop for l in site.loops)


def assign_lhs(e):
    """LHS of a built-in or overloaded assignment expression, else None."""
    if is_expr(e) and e[0] == "b" and e[1] in ASSIGN_OPS and len(e) > 3:
        return e[2]
    if is_expr(e) and e[0] == "opcall" and e[1] in ASSIGN_OPS and len(e) > 4:
        return e[3]
    return None


def assign_rhs(e):
    if is_expr(e) and e[0] == "b" and e[1] in ASSIGN_OPS and len(e) > 3:
        return e[3]
    if is_expr(e) and e[0] == "opcall" and e[1] in ASSIGN_OPS and len(e) > 4:
        return e[4]
    return None


# ------------------------------------------------------------------------------------------------ truth table with early cut-off
def _pe(f, env):
    """Three-valued evaluation under a partial assignment: True / False / None (undetermined)."""
    t = f[0]
    if t == "T":
        return True
    if t == "F":
        return False
    if t == "atom":
        return env.get(f[1])
    if t == "not":
        v = _pe(f[1], env)
        return None if v is None else (not v)
    if t == "and":
        und = False
        for x in f[1]:
            v = _pe(x, env)
            if v is False:
                return False
            if v is None:
                und = True
        return None if und else True
    if t == "or":
        und = False
        for x in f[1]:
            v = _pe(x, env)
            if v is True:
                return True
            if v is None:
                und = True
        return None if und else False
    raise ValueError(f)


def counterexample(premise, conclusion):
    """Same verdict as F.counterexample (an assignment with premise true and conclusion false, or None), by the same finite
    enumeration of the truth table over the atoms (with the engine's arithmetic side facts), but rows are enumerated atom by
    atom and a partial row is abandoned as soon as `premise && !conclusion` is already false on it.  No atom limit."""
    premise = F._slice(premise, conclusion)
    goal = F.mk_and([premise, F.mk_not(conclusion)])
    names = []
    F.atoms(conclusion, names)
    F.atoms(premise, names)
    excl, mono = F._theory(names)

    def feasible(env):
        for a, b in excl:
            if env.get(a) and env.get(b):
                return False
        for a, b in mono:
            if env.get(a) and env.get(b) is False:
                return False
        return True

    def rec(i, env):
        if _pe(goal, env) is False or not feasible(env):
            return None
        if i == len(names):
            return dict(env) if _pe(goal, env) else None
        for v in (False, True):
            env[names[i]] = v
            r = rec(i + 1, env)
            if r is not None:
                return r
            del env[names[i]]
        return None

    return rec(0, {})


def implies(a, b):
    return counterexample(a, b) is None


def equivalent(a, b):
    return implies(a, b) and implies(b, a)


# ------------------------------------------------------------------------------------------------ switch with fall-through
def switch_groups(sw, sub):
    """[(statements of the group, entry condition)] for a switch statement: a group is entered through one of its labels
    or by falling through from the previous group when that one completed normally (a `break` does not complete).
    (The engine's `case` guard lists the labels of the groups that may fall into a group but drops the condition under
    which the earlier group falls through.)"""
    from sa.engine.paths import post_formula
    c = sw.get("c")
    groups, labels, items = [], [], []
    for it in sw.get("s", []):
        if not isinstance(it, dict):
            continue
        if it.get("k") in ("case", "default"):
            if items:
                groups.append((labels, items))
                labels, items = [], []
            labels.append("default" if it.get("k") == "default" else it.get("v"))
        else:
            items.append(it)
    if labels or items:
        groups.append((labels, items))
    allvals = [v for ls, _ in groups for v in ls if v != "default"]
    out = []
    fall = F.Fa
    for ls, its in groups:
        lab = []
        for v in ls:
            if v == "default":
                lab.append(F.mk_and([F.mk_not(F.to_formula(["b", "==", c, x], sub)) for x in allvals]))
            else:
                lab.append(F.to_formula(["b", "==", c, v], sub))
        entry = F.mk_or(lab + [fall])
        out.append((its, entry))
        fall = F.mk_and([entry, post_formula({"k": "seq", "l": sw.get("l"), "s": its}, sub)])
    return out


def site_formula_sw(site, fn, P, sub, keep=None):
    """site.formula(sub) with every enclosing switch's `case` guard replaced by the exact entry condition of the site's group."""
    parts = []
    for g in site.guards:
        if g.kind == "case":
            sws = [st for st in stmts(fn.body) if st.get("k") == "switch" and st.get("l") == g.line and st.get("c") == g.expr]
            entry = None
            for sw in sws:
                for its, ent in switch_groups(sw, sub):
                    if any(x is site.stmt for it in its for x in stmts(it)):
                        entry = ent
            if entry is None:
                raise AnalysisBroken("%s: cannot locate the switch group of the site at line %s" % (fn.q, site.line))
            parts.append(entry)
        else:
            parts.append(g.formula(sub))
    return inline_preds(F.mk_and(parts), fn, P, sub, keep=keep)
