"""C33 Headers from an unproven peer are stored only after their work is proven (DESIGN §3 C33)."""
import re

from sa.engine.api import *
from sa.engine import callgraph

UNITS = ["validation.cpp", "headerssync.cpp", "net_processing.cpp"]
EXPLANATION = ("Guard-implication (MPT/LADDER), who-may-write/call (CALLGRAPH) and PROVENANCE obligations along the whole storage path of a peer's "
               "header. (1) ChainstateManager::AcceptBlockHeader reaches BlockManager::AddToBlockIndex only if min_pow_checked; AddToBlockIndex has no "
               "other caller but LoadGenesisBlock; AcceptBlock/ProcessNewBlockHeaders/ProcessNewBlock/PeerManagerImpl::ProcessBlock forward the flag "
               "unchanged. (2) Every call of ProcessNewBlockHeaders/ProcessNewBlock reachable from the P2P entry points lies in net_processing.cpp, and "
               "there the flag is `true` only (a) in ProcessHeadersMessage past CheckHeadersPoW and (already_validated_work or a false "
               "TryLowWorkHeadersSync), where already_validated_work only comes from IsContinuationOfLowWorkHeadersSync / IsAncestorOfBestHeaderOrTip / "
               "the NoBan branch, (b) in the CMPCTBLOCK handler past the anti-DoS work comparison, (c) in the BLOCK handler under the same comparison, "
               "(d) for compact blocks reconstructed from a block in flight. TryLowWorkHeadersSync returns false only if claimed work >= "
               "GetAntiDoSWorkThreshold() and builds HeadersSyncState with that threshold; IsContinuationOfLowWorkHeadersSync answers true only after "
               "replacing the headers by pow_validated_headers. (3) HeadersSyncState: REDOWNLOAD is entered only in "
               "ValidateAndStoreHeadersCommitments past continuity, per-header validation and work >= minimum, restarting from the chain start; the "
               "pre-sync ladder (difficulty transition, commitment bound); the redownload buffer is appended only past continuity, difficulty "
               "transition and commitment equality unless the redownloaded work reached the minimum; headers are released only by "
               "PopHeadersReadyForAcceptance under its buffer-size condition, and pow_validated_headers is assigned only from it.")
ASSUMPTIONS = ["arith_uint256 comparison operators order by numeric value; GetBlockProof/CalculateClaimedHeadersWork compute claimed work",
               "callers outside net_processing.cpp (RPC submitblock/submitheader, mining, -loadblock/reindex) are local trusted sources, not peers",
               "compact blocks are reconstructed only for headers that already passed the CMPCTBLOCK header gate (blocks in flight have an index entry)"]
CLAIM = dict(
    technique="static analysis: guard implication by truth tables, reject ladders, who-may-write/who-may-call on the whole-program call graph, literal-argument provenance at every call site",
    text="For every path: a header reaches the block index only with min_pow_checked, and every P2P call site that passes `true` is dominated by a "
         "work proof (anti-DoS threshold comparison, completed low-work headers sync, or already-known ancestor). The headers-sync state machine "
         "changes to REDOWNLOAD only with sufficient accumulated work, buffers redownloaded headers only as one continuous, difficulty-permitted, "
         "commitment-matching chain from the sync start, and releases them only while more than a full buffer follows (or the redownloaded work "
         "itself reached the minimum). Tests run two fixed chains; this quantifies over all paths.",
    note="Not decided: the per-peer memory bound as a number, arithmetic of chain work, the randomised commitment offset, correctness of "
         "PermittedDifficultyTransition itself (C07), that ProcessNextHeaders reports failure faithfully (a failing header is never appended, so it "
         "is not needed for the storage claim). The compact-block reconstruction sites (ProcessBlock(.., true, true)) are whitelisted structurally "
         "(block in flight from this peer / past the CMPCTBLOCK header gate), not proven from first principles.",
    ref="DESIGN.md §3 C33")

H = "HeadersSyncState::"
ST = "m_download_state == HeadersSyncState::State::"
PNBH, PNB, PB = "ChainstateManager::ProcessNewBlockHeaders", "ChainstateManager::ProcessNewBlock", "PeerManagerImpl::ProcessBlock"
ABH, AB = "ChainstateManager::AcceptBlockHeader", "ChainstateManager::AcceptBlock"
P2P_ENTRY = {"PeerManagerImpl::ProcessMessages", "PeerManagerImpl::SendMessages", "PeerManagerImpl::ProcessMessage"}
LOWWORK = re.compile(r"GetBlockProof\((.+)\) \+ (\w+)\.nChainWork < PeerManagerImpl::GetAntiDoSWorkThreshold\(\)")


def peel(e):
    """Strip single-argument constructors (copies, std::span views) and casts."""
    while is_expr(e) and ((e[0] == "ctor" and len(e) == 3) or e[0] == "cast" or e[0] == "defarg"):
        e = e[2] if e[0] != "defarg" else e[1]
    return e


def pidx(fn, name="min_pow_checked"):
    for i, p in enumerate(fn.params):
        if p["n"] == name:
            return i
    raise AnalysisBroken("%s: parameter %s not found" % (fn.q, name))


def field_assign(field, value=ANY):
    return lambda e: match(["b", "=", [".", ANY, field], value], e)


def writers_ob(ctx, cg, field, allowed, oid, text):
    ws = sorted({w[0] for w in cg.writers(field)})
    if not ws:
        raise AnalysisBroken("no writer of %s found" % field)
    ctx.ob(oid, "WHO-MAY-WRITE", text, set(ws) <= set(allowed), None, {"writers": ws})


def check(ctx):
    P = ctx.program(UNITS)
    cg = callgraph.load_all()
    storage_gate(ctx, P, cg)
    p2p_call_sites(ctx, P, cg)
    low_work_sync_entry(ctx, P)
    headers_sync_state(ctx, P, cg)


# ---------------------------------------------------------------------------------------------- (1)
def storage_gate(ctx, P, cg):
    abh = ctx.used(P.fn(ABH))
    flag = abh.params[pidx(abh)]["n"]
    ss = check_guard(ctx, abh, P, call_to("node::BlockManager::AddToBlockIndex"), "CHECKED", {"CHECKED": flag}, "AcceptBlockHeader/AddToBlockIndex",
                     "a new header is added to the block index only if min_pow_checked is true")
    ctx.floor("AcceptBlockHeader AddToBlockIndex sites", len(ss), 1)
    for e in exits(abh, P):
        ic = invalid_call(e.value)
        if ic and ic[1] == "too-little-chainwork":
            ctx.ob("AcceptBlockHeader/low-work-result@L%s" % e.line, "LADDER", "the missing-work rejection reports BLOCK_HEADER_LOW_WORK (never punished, never marks the header)",
                   ic[0] == "BlockValidationResult::BLOCK_HEADER_LOW_WORK", "%s:%s" % (abh.file, e.line), {"result": ic[0]})
    callers = sorted({c[0] for c in cg.call_sites("node::BlockManager::AddToBlockIndex")})
    ctx.ob("who-calls/AddToBlockIndex", "WHO-MAY-CALL", "BlockManager::AddToBlockIndex is called only from AcceptBlockHeader (and LoadGenesisBlock)",
           ABH in callers and set(callers) <= {ABH, "ChainstateManager::LoadGenesisBlock"}, None, {"callers": callers})
    # the flag is forwarded unchanged down the chain
    chain = [(AB, ABH), (PNBH, ABH), (PNB, AB), (PB, PNB)]
    for outer, inner in chain:
        fo, fi = ctx.used(P.fn(outer)), P.fn(inner)
        want, at = fo.params[pidx(fo)]["n"], pidx(fi)
        cs = sites(fo, call_to(inner), P)
        ctx.floor("%s -> %s call sites" % (outer, inner), len(cs), 1)
        for s in cs:
            a = call_args(s.expr)
            ok = len(a) > at and match(["param", want], undefarg(a[at]))
            ctx.ob("%s/forwards-flag@L%s" % (outer.rsplit("::", 1)[-1], s.line), "PROVENANCE", "%s passes its own min_pow_checked parameter to %s" % (outer, inner),
                   bool(ok), s.where, {"argument": show(a[at]) if len(a) > at else None})
    callers = sorted({c[0] for c in cg.call_sites(ABH)})
    ctx.ob("who-calls/AcceptBlockHeader", "WHO-MAY-CALL", "AcceptBlockHeader is called only from AcceptBlock and ProcessNewBlockHeaders", set(callers) == {AB, PNBH}, None,
           {"callers": callers})


# ---------------------------------------------------------------------------------------------- (2)
def p2p_call_sites(ctx, P, cg):
    seen = cg.reach(P2P_ENTRY)
    for q in (PNBH, PNB, AB):
        for c, file, lines in cg.call_sites(q):
            if file.endswith("/net_processing.cpp") or file.endswith("/validation.cpp"):
                continue
            ok = c not in seen
            ctx.ob("p2p-unreachable/%s<-%s" % (q.rsplit("::", 1)[-1], c), "CALLGRAPH",
                   "the caller %s of %s outside net_processing.cpp (local submission path) is not reachable from the P2P message-processing entry points" % (c, q),
                   ok, "%s:%s" % (file, lines[0] if lines else "?"), None if ok else {"path": cg.path(seen, c)})
    lebf = "ChainstateManager::LoadExternalBlockFile"
    ctx.ob("p2p-unreachable/LoadExternalBlockFile", "CALLGRAPH", "LoadExternalBlockFile (reindex / -loadblock, passes min_pow_checked=true) is not reachable from the P2P entry points",
           lebf not in seen, None, None if lebf not in seen else {"path": cg.path(seen, lebf)})

    n = 0
    handled = {}
    for q, fl in P.funcs.items():
        for g in fl:
            if g.body is None or not g.file.endswith("net_processing.cpp"):
                continue
            g.simp()
            for s in sites(g, lambda e: callee(e) in (PNBH, PNB, PB), P):
                n += 1
                classify_site(ctx, P, g, s)
    ctx.floor("net_processing call sites of ProcessNewBlockHeaders/ProcessNewBlock/ProcessBlock", n, 6)


def classify_site(ctx, P, g, s):
    tgt = callee(s.expr)
    tf = P.fn(tgt)
    at = pidx(tf)
    a = call_args(s.expr)
    if len(a) <= at:
        raise AnalysisBroken("%s: call of %s at line %s has no min_pow_checked argument" % (g.q, tgt, s.line))
    arg = undefarg(a[at])
    subst = naming(g, P)
    oid = "%s/%s@L%s" % (g.q.rsplit("::", 1)[-1], tgt.rsplit("::", 1)[-1], s.line)
    if match(["bool", False], arg):
        ctx.ob(oid, "PROVENANCE", "min_pow_checked is the literal false", True, s.where)
        return
    if arg[0] == "param":
        ok = g.q == PB and arg[1] == g.params[pidx(g)]["n"]
        ctx.ob(oid, "PROVENANCE", "only PeerManagerImpl::ProcessBlock forwards a min_pow_checked parameter (its callers are checked individually)", ok, s.where, {"argument": show(arg)})
        return
    if arg[0] == "local":
        vals = local_values(g, arg[1])
        bad = [(l, show(v)) for l, v in vals if not match(["bool", ANY], v)]
        ctx.ob(oid + "/values", "PROVENANCE", "the min_pow_checked local passed to %s is only ever assigned boolean literals" % tgt, bool(vals) and not bad, s.where, {"other": bad})
        sets = sites(g, lambda e: match(["b", "=", ["local", arg[1]], ["bool", True]], e), P)
        inits = [l for l, v in vals if match(["bool", True], v)]
        ctx.ob(oid + "/init", "PROVENANCE", "the min_pow_checked local starts false and is set true only by guarded assignments", len(inits) == len(sets), s.where,
               {"true_values_at": inits})
        for t in sets:
            work_gate(ctx, g, t, subst, "%s/set-true@L%s" % (oid, t.line), None,
                      "min_pow_checked is set true for a received block only if its previous block is known and prev work + block proof >= the anti-DoS threshold")
        return
    if not match(["bool", True], arg):
        raise AnalysisBroken("%s: unrecognised min_pow_checked argument `%s` at line %s" % (g.q, show(arg), s.line))
    # ---- literal true: only at the known sites, each under its gate
    if g.q == "PeerManagerImpl::ProcessHeadersMessage" and tgt == PNBH:
        headers_message_gate(ctx, P, g, s, subst, oid)
    elif g.q == "PeerManagerImpl::ProcessMessage" and tgt == PNBH:
        hdrs = [x for x in subexprs(a[0]) if x[0] == "." and x[2].endswith("::header")]
        work_gate(ctx, g, s, subst, oid, show(hdrs[0]) if hdrs else "?",
                  "a compact block's header is handed to ProcessNewBlockHeaders(min_pow_checked=true) only if its previous block is known and prev work + header proof >= the anti-DoS threshold")
        reg = handler_region(g, "CMPCTBLOCK")
        ctx.ob(oid + "/handler", "REGION", "the call lies in the CMPCTBLOCK handler", reg["l"] <= s.line <= max(x.get("l") or 0 for x in stmts(reg["t"])), s.where)
    elif g.q == "PeerManagerImpl::ProcessMessage" and tgt == PB:
        work_gate(ctx, g, s, subst, oid, None,
                  "a block reconstructed in the CMPCTBLOCK handler is processed with min_pow_checked=true only past the header work gate of that handler")
    elif g.q == "PeerManagerImpl::ProcessCompactBlockTxns" and tgt == PB:
        flags = set()
        for st in stmts(g.body):
            if st.get("k") == "decl" and "bool" in (st.get("ty") or "") and match(["bool", False], st.get("i")):
                ts = sites(g, lambda e: match(["b", "=", ["local", st["n"]], ["bool", True]], e), P)
                if ts and all(any("partialBlock" in k for k in F.atoms(t.formula(subst))) for t in ts):
                    flags.add(st["n"])
        f0 = s.formula(subst)
        fb, mp, un = F.bind_atoms(f0, {"INFLIGHT": lambda k: k in flags})
        cex = F.counterexample(fb, F.parse("INFLIGHT"))
        ctx.ob(oid, "MPT", "a block completed by BLOCKTXN is processed with min_pow_checked=true only if it was in flight from this peer with a partial block "
               "(created past the CMPCTBLOCK header gate)", cex is None and bool(flags), s.where, None if cex is None else {"path_condition": F.fshow(f0)[:800], "counterexample": cex})
    else:
        ctx.ob(oid, "PROVENANCE", "the literal `true` for min_pow_checked appears only at the four audited P2P call sites "
               "(ProcessHeadersMessage, CMPCTBLOCK header, CMPCTBLOCK/BLOCKTXN reconstructed block)", False, s.where, {"function": g.q, "callee": tgt})


def work_gate(ctx, g, s, subst, oid, header_text, text):
    f0 = s.formula(subst)
    lows = [k for k in F.atoms(f0) if LOWWORK.fullmatch(k)]
    if header_text is not None:
        lows = [k for k in lows if LOWWORK.fullmatch(k).group(1) == header_text]
    prevs = {LOWWORK.fullmatch(k).group(2) for k in lows}
    fb, mp, un = F.bind_atoms(f0, {"PREV": lambda k: k in prevs, "LOW": lambda k: k in lows})
    cex = F.counterexample(fb, F.parse("PREV && !LOW")) if lows else {"no anti-DoS work comparison dominates": True}
    ctx.ob(oid, "MPT", text + " [path condition => prev_block && !(GetBlockProof(x) + prev_block->nChainWork < GetAntiDoSWorkThreshold())]", cex is None, s.where,
           None if cex is None else {"path_condition": F.fshow(f0)[-900:], "counterexample": cex})


def headers_message_gate(ctx, P, g, s, subst, oid):
    a = call_args(s.expr)
    hp = [x for x in subexprs(a[0]) if x[0] == "param"]
    if len(hp) != 1:
        raise AnalysisBroken("ProcessHeadersMessage: headers argument of ProcessNewBlockHeaders is not the headers parameter")
    hname = hp[0][1]
    # already_validated_work: bool locals whose every value is one of the allowed forms
    avw = set()
    for st in stmts(g.body):
        if st.get("k") != "decl" or "bool" not in (st.get("ty") or ""):
            continue
        name = st["n"]
        vals = local_values(g, name)
        kinds = [avw_kind(v, name, hname) for _, v in vals]
        if vals and all(kinds) and "continuation" in kinds:
            avw.add(name)
            # `= true` only for NoBan peers
            for t in sites(g, lambda e: match(["b", "=", ["local", name], ["bool", True]], e), P):
                ft = t.formula(subst)
                fb, mp, un = F.bind_atoms(ft, {"NOBAN": re.compile(r"\w+\.HasPermission\(NetPermissionFlags::NoBan\)")})
                ok = F.implies(fb, F.parse("NOBAN"))
                ctx.ob("ProcessHeadersMessage/already-validated=true@L%s" % t.line, "MPT", "already_validated_work is forced true only for peers with the NoBan permission",
                       ok, t.where)
    ctx.ob("ProcessHeadersMessage/already-validated-provenance", "PROVENANCE",
           "ProcessHeadersMessage has a flag whose only values are false, IsContinuationOfLowWorkHeadersSync(peer, pfrom, headers), "
           "flag || IsAncestorOfBestHeaderOrTip(..) and true (NoBan)", len(avw) == 1, g.where, {"flags": sorted(avw)})
    atoms = {"POW": re.compile(r"PeerManagerImpl::CheckHeadersPoW\(%s, \w+\)" % re.escape(hname)), "AVW": lambda k: k in avw,
             "TLW": re.compile(r"PeerManagerImpl::TryLowWorkHeadersSync\(.*, %s\)" % re.escape(hname))}
    f0 = s.formula(subst)
    fb, mp, un = F.bind_atoms(f0, atoms)
    cex = F.counterexample(fb, F.parse("POW && (AVW || !TLW)"))
    ctx.ob(oid, "MPT", "ProcessHeadersMessage stores headers (ProcessNewBlockHeaders with min_pow_checked=true) only past the CheckHeadersPoW true edge and with "
           "already_validated_work or a false TryLowWorkHeadersSync", cex is None, s.where, None if cex is None else {"path_condition": F.fshow(f0)[:1200], "counterexample": cex})


def avw_kind(v, name, hname):
    if match(["bool", False], v):
        return "false"
    if match(["bool", True], v):
        return "true"
    if is_call_to("PeerManagerImpl::IsContinuationOfLowWorkHeadersSync", v) and match(["param", hname], call_args(v)[2]):
        return "continuation"
    if v[0] == "b" and v[1] == "||" and match(["local", name], v[2]) and is_call_to("PeerManagerImpl::IsAncestorOfBestHeaderOrTip", v[3]):
        return "ancestor"
    return None


def low_work_sync_entry(ctx, P):
    tl = ctx.used(P.fn("PeerManagerImpl::TryLowWorkHeadersSync"))
    subst = naming(tl, P)
    hname = [p["n"] for p in tl.params if "CBlockHeader" in p["ty"]]
    start = [p["n"] for p in tl.params if "CBlockIndex" in p["ty"]]
    if len(hname) != 1 or len(start) != 1:
        raise AnalysisBroken("TryLowWorkHeadersSync: parameters changed")
    # the two sides of the comparison
    def is_total(e):
        e = peel(F.expand(e, subst))
        return (e[0] == "b" and e[1] == "+" and any(match([".", ["param", start[0]], "CBlockIndex::nChainWork"], peel(x)) for x in e[2:4])
                and any(is_call_to("CalculateClaimedHeadersWork", x) and match(["param", hname[0]], peel(call_args(x)[0])) for x in e[2:4]))

    def is_thresh(e):
        return is_call_to("PeerManagerImpl::GetAntiDoSWorkThreshold", peel(F.expand(e, subst)))

    def only(name, pred):
        vals = local_values(tl, name)
        return bool(vals) and all(is_expr(v) and pred(v) for _, v in vals)

    def low_atom(k):
        m = re.fullmatch(r"(.+) < (.+)", k)
        if not m:
            return False
        l, r = m.group(1), m.group(2)
        lt = (re.fullmatch(r"\w+", l) and only(l, is_total)) or "CalculateClaimedHeadersWork(%s)" % hname[0] in l and "%s.nChainWork" % start[0] in l and "<" not in l
        rt = (re.fullmatch(r"\w+", r) and only(r, is_thresh)) or r == "PeerManagerImpl::GetAntiDoSWorkThreshold()"
        return bool(lt and rt)

    nfalse = 0
    for e in exits(tl, P, subst):
        if is_false_ret(e):
            nfalse += 1
            fb, mp, un = F.bind_atoms(e.formula, {"LOW": low_atom})
            cex = F.counterexample(fb, F.parse("!LOW"))
            ctx.ob("TryLowWorkHeadersSync/false@L%s" % e.line, "LADDER",
                   "TryLowWorkHeadersSync answers false (headers may be stored) only if chain_start work + claimed work of the headers is not below GetAntiDoSWorkThreshold()",
                   cex is None, "%s:%s" % (tl.file, e.line), None if cex is None else {"path_condition": F.fshow(e.formula)[:600], "counterexample": cex})
        elif not is_true_ret(e):
            raise AnalysisBroken("TryLowWorkHeadersSync: non-literal return at line %s" % e.line)
    ctx.floor("TryLowWorkHeadersSync false exits", nfalse, 1)
    news = sites(tl, lambda e: e[0] == "new" and e[1] == "HeadersSyncState", P)
    ctx.floor("TryLowWorkHeadersSync HeadersSyncState constructions", len(news), 1)
    hs = P.fn("HeadersSyncState::HeadersSyncState")
    mi = pidx(hs, "minimum_required_work")
    for s in news:
        a = s.expr[2:]
        v = a[mi] if len(a) > mi else None
        ok = v is not None and (is_thresh(v) or (v[0] == "local" and only(v[1], is_thresh)))
        ctx.ob("TryLowWorkHeadersSync/min-work@L%s" % s.line, "PROVENANCE", "the HeadersSyncState of a low-work sync is created with minimum_required_work = GetAntiDoSWorkThreshold()",
               bool(ok), s.where, {"argument": show(v) if v else None})
    inits = hs.d.get("inits", []) or []
    for fld, want, text in [("m_minimum_required_work", ["param", "minimum_required_work"], "the constructor stores its minimum_required_work argument in m_minimum_required_work"),
                            ("m_current_chain_work", [".", ["param", ANY], "CBlockIndex::nChainWork"], "the pre-sync work counter starts at the chain start's work")]:
        mw = [i for i in inits if i.get("f") == H + fld]
        ok = len(mw) == 1 and match(want, peel(mw[0].get("i")))
        ctx.ob("HeadersSyncState/ctor/%s" % fld, "PROVENANCE", text, bool(ok), hs.where, {"init": [show(i.get("i")) for i in mw]})

    ic = ctx.used(P.fn("PeerManagerImpl::IsContinuationOfLowWorkHeadersSync"))
    isub = naming(ic, P)
    hn = [p["n"] for p in ic.params if "CBlockHeader" in p["ty"]]
    swaps = sites(ic, lambda e: e[0] in ("mcall", "vcall") and e[1].endswith("::swap") and match(["param", hn[0]], e[2])
                  and match([".", ["local", ANY], H + "ProcessingResult::pow_validated_headers"], e[3]), P)
    ctx.floor("IsContinuationOfLowWorkHeadersSync headers.swap(pow_validated_headers)", len(swaps), 1)
    for e in exits(ic, P, isub):
        if is_false_ret(e):
            continue
        v = e.value
        res = swaps[0].expr[3][1][1]
        okv = match([".", ["local", res], H + "ProcessingResult::success"], v)
        vals = local_values(ic, res)
        okp = len(vals) == 1 and is_expr(vals[0][1]) and contains(["mcall", H + "ProcessNextHeaders"], vals[0][1])
        prem = F.mk_and([e.formula, F.to_formula(v, isub)])
        sw = F.mk_or([s.formula(isub) for s in swaps if s.line < e.line and not s.loops])
        ok = okv and okp and F.implies(prem, sw)
        ctx.ob("IsContinuationOfLowWorkHeadersSync/true-implies-swap@L%s" % e.line, "MPT",
               "IsContinuationOfLowWorkHeadersSync returns ProcessNextHeaders(..).success, and whenever that is true the headers were replaced by the "
               "pow_validated_headers of the headers-sync state machine (never the raw pre-sync headers)", bool(ok), "%s:%s" % (ic.file, e.line),
               {"value": show(v), "result_local_values": [show(x) for _, x in vals]})
    # nobody else modifies the headers vector there
    other = [s for s in sites(ic, lambda e: (e[0] == "b" and e[1] in ASSIGN_OPS and match(["param", hn[0]], e[2])), P)]
    ctx.ob("IsContinuationOfLowWorkHeadersSync/no-other-write", "PROVENANCE", "IsContinuationOfLowWorkHeadersSync does not assign the headers vector otherwise", not other, ic.where)


# ---------------------------------------------------------------------------------------------- (3)
def headers_sync_state(ctx, P, cg):
    ctor = H + "HeadersSyncState"
    vc = ctx.used(P.fn(H + "ValidateAndStoreHeadersCommitments"))
    vs = ctx.used(P.fn(H + "ValidateAndProcessSingleHeader"))
    vr = ctx.used(P.fn(H + "ValidateAndStoreRedownloadedHeader"))
    pop = ctx.used(P.fn(H + "PopHeadersReadyForAcceptance"))
    pn = ctx.used(P.fn(H + "ProcessNextHeaders"))
    writers_ob(ctx, cg, H + "m_download_state", {ctor, H + "Finalize", vc.q}, "who-writes/m_download_state",
               "m_download_state is written only by the constructor, Finalize and ValidateAndStoreHeadersCommitments")
    writers_ob(ctx, cg, H + "m_current_chain_work", {ctor, vs.q}, "who-writes/m_current_chain_work", "the pre-sync work counter is written only by the constructor and ValidateAndProcessSingleHeader")
    writers_ob(ctx, cg, H + "m_redownload_chain_work", {ctor, vc.q, vr.q}, "who-writes/m_redownload_chain_work",
               "the redownload work counter is written only by the constructor, the REDOWNLOAD transition and ValidateAndStoreRedownloadedHeader")
    writers_ob(ctx, cg, H + "m_process_all_remaining_headers", {ctor, H + "Finalize", vr.q}, "who-writes/m_process_all_remaining_headers",
               "m_process_all_remaining_headers is written only by the constructor, Finalize and ValidateAndStoreRedownloadedHeader")
    writers_ob(ctx, cg, H + "m_minimum_required_work", {ctor}, "who-writes/m_minimum_required_work", "the work target is fixed at construction")
    writers_ob(ctx, cg, H + "m_redownload_buffer_last_hash", {ctor, vc.q, vr.q}, "who-writes/m_redownload_buffer_last_hash",
               "the continuity anchor of the redownload chain is written only at the REDOWNLOAD transition and after a header was buffered")
    writers_ob(ctx, cg, H + "ProcessingResult::pow_validated_headers", {pn.q}, "who-writes/pow_validated_headers", "pow_validated_headers is assigned only in ProcessNextHeaders")
    for fld, meth, allowed, what in [("m_redownloaded_headers", ("emplace_back", "push_back", "push_front", "emplace_front", "insert", "emplace"), {vr.q}, "appended to"),
                                     ("m_header_commitments", ("push_back", "push_front", "emplace_back", "insert"), {vs.q}, "appended to")]:
        cs = sorted({c[0] for m in meth for c in cg.field_calls(H + fld, m)})
        ctx.ob("who-appends/%s" % fld, "WHO-MAY-WRITE", "%s is %s only in %s" % (fld, what, sorted(allowed)), bool(cs) and set(cs) <= allowed, None, {"functions": cs})

    # ---- PRESYNC -> REDOWNLOAD transition
    hname = vc.params[0]["n"]
    EMPTY = (re.compile(r"%s\.empty\(\)" % hname), False)
    at_c = {"PRESYNC": ST + "PRESYNC", "CONNECTS": "%s[0].hashPrevBlock == m_last_header_received.GetHash()" % hname,
            "LOW": "m_current_chain_work < m_minimum_required_work", "DONE": re.compile(r"done\(loop@\d+\)"), "NONEMPTY": EMPTY}
    loops = [st for st in stmts(vc.body) if st.get("k") == "foreach" and loop_range_key(st, naming(vc, P)) == "each(%s)" % hname]
    if len(loops) != 1:
        raise AnalysisBroken("ValidateAndStoreHeadersCommitments: expected exactly one loop over the received headers")
    at_c["DONE"] = "done(loop@%s)" % loops[0]["l"]
    ss = check_guard(ctx, vc, P, field_assign(H + "m_download_state", ["enum", "HeadersSyncState::State::REDOWNLOAD"]), "PRESYNC && CONNECTS && DONE && !LOW", at_c,
                     "ValidateAndStoreHeadersCommitments/REDOWNLOAD", "the sync switches to REDOWNLOAD only in PRESYNC, for a batch connecting to the last header received, "
                     "after every header of the batch was processed, and with accumulated work >= the minimum required work")
    ctx.floor("REDOWNLOAD transitions", len(ss), 1)
    nonempty = lambda e: is_true_ret(e) and F.implies(e.formula, F.mk_not(F.atom("%s.empty()" % hname)))
    check_ladder(ctx, vc, P, [
        Rung("not-presync", "!PRESYNC", {"PRESYNC": ST + "PRESYNC"}),
        Rung("non-continuous", "!CONNECTS", {"CONNECTS": at_c["CONNECTS"]}),
        Rung("header-failed", "!VALID", {"VALID": "HeadersSyncState::ValidateAndProcessSingleHeader(each(%s))" % hname}, loop=r"each\(%s\)" % hname),
    ], is_accept=nonempty, is_reject=is_false_ret, mode="NECESSARY")
    # other enumerators written to m_download_state
    for q, val in [(H + "Finalize", "FINAL")]:
        g = P.fn(q)
        ws = sites(g, field_assign(H + "m_download_state"), P)
        ok = ws and all(match(["enum", "HeadersSyncState::State::" + val], w.expr[3]) for w in ws)
        ctx.ob("Finalize/state", "PROVENANCE", "Finalize only ever sets the state FINAL", bool(ok), g.where)
    # the redownload restarts at the chain start (work, continuity anchors)
    for fld, want, text in [("m_redownload_chain_work", [".", [".", ["this"], H + "m_chain_start"], "CBlockIndex::nChainWork"], "the redownload work counter restarts at the chain start's work"),
                            ("m_redownload_buffer_last_hash", ["mcall", "CBlockIndex::GetBlockHash", [".", ["this"], H + "m_chain_start"]], "the redownload continuity anchor restarts at the chain start's hash"),
                            ("m_redownload_buffer_first_prev_hash", ["mcall", "CBlockIndex::GetBlockHash", [".", ["this"], H + "m_chain_start"]], "the first released header is linked to the chain start's hash")]:
        ws = sites(vc, field_assign(H + fld), P)
        ok = len(ws) >= 1 and all(match(want, w.expr[3]) for w in ws)
        ctx.ob("ValidateAndStoreHeadersCommitments/%s" % fld, "PROVENANCE", "at the REDOWNLOAD transition " + text, ok, vc.where, {"values": [show(w.expr[3]) for w in ws]})

    # ---- PRESYNC per-header ladder
    cur = vs.params[0]["n"]
    pdt = "PermittedDifficultyTransition(m_consensus_params, 1 + m_current_height, m_last_header_received.nBits, %s.nBits)" % cur
    cpos = "(1 + m_current_height) % m_params.commitment_period == m_commit_offset"
    over = "m_max_commitments < m_header_commitments.size()"
    check_ladder(ctx, vs, P, [
        Rung("not-presync", "!PRESYNC", {"PRESYNC": ST + "PRESYNC"}),
        Rung("bad-difficulty-transition", "!PDT", {"PDT": pdt}),
        Rung("too-many-commitments", "CPOS && OVER", {"CPOS": cpos, "OVER": over}),
    ], is_accept=is_true_ret, is_reject=is_false_ret, mode="NECESSARY")
    for fld, pat, text in [("m_current_chain_work", ["b", "+=", ANY, ["call", "GetBlockProof", ["param", cur]]], "the pre-sync work counter grows by GetBlockProof of the header just validated"),
                           ("m_last_header_received", ["b", "=", ANY, ["param", cur]], "the continuity anchor of the pre-sync becomes the header just validated")]:
        ws = sites(vs, lambda e: e[0] == "b" and e[1] in ASSIGN_OPS and match([".", ANY, H + fld], e[2]), P)
        ok = len(ws) == 1 and match(pat, ws[0].expr)
        ctx.ob("ValidateAndProcessSingleHeader/%s" % fld, "PROVENANCE", text, ok, vs.where, {"writes": [show(w.expr) for w in ws]})
    check_guard(ctx, vs, P, lambda e: e[0] in ("mcall", "vcall") and e[1].endswith("::push_back") and match([".", ANY, H + "m_header_commitments"], e[2]),
                "PRESYNC && PDT && CPOS", {"PRESYNC": ST + "PRESYNC", "PDT": pdt, "CPOS": cpos}, "ValidateAndProcessSingleHeader/commit",
                "a commitment is stored only at a commitment position of a difficulty-permitted header (and is then bounded by m_max_commitments)")

    # ---- REDOWNLOAD per-header gate
    hd = vr.params[0]["n"]
    rsub = naming(vr, P)
    prev_locals = set()
    for st in stmts(vr.body):
        if st.get("k") == "decl" and "int" in (st.get("ty") or ""):
            vals = [v for _, v in local_values(vr, st["n"])]
            kinds = []
            for v in vals:
                if match(["int", 0], v):
                    kinds.append("zero")
                elif match([".", ["mcall", "std::deque::back", [".", ANY, H + "m_redownloaded_headers"]], ANY], v) and v[2].endswith("::nBits"):
                    kinds.append("last-buffered")
                elif match([".", [".", ANY, H + "m_chain_start"], "CBlockIndex::nBits"], v):
                    kinds.append("chain-start")
                else:
                    kinds.append(None)
            if vals and all(kinds) and "last-buffered" in kinds and "chain-start" in kinds:
                prev_locals.add(st["n"])
    ctx.ob("ValidateAndStoreRedownloadedHeader/previous-nBits", "PROVENANCE",
           "the previous difficulty used for the redownload transition check is the last buffered header's nBits or, for an empty buffer, the chain start's",
           len(prev_locals) == 1, vr.where, {"locals": sorted(prev_locals)})
    pl = sorted(prev_locals)[0] if prev_locals else "?"
    for s in sites(vr, lambda e: match(["b", "=", ["local", pl], ANY], e), P):
        fb, mp, un = F.bind_atoms(s.formula(rsub), {"EMPTYBUF": "m_redownloaded_headers.empty()"})
        want = "EMPTYBUF" if contains([".", ANY, H + "m_chain_start"], s.expr[3]) else "!EMPTYBUF"
        ctx.ob("ValidateAndStoreRedownloadedHeader/previous-nBits@L%s" % s.line, "MPT", "the chain start's nBits is used exactly for an empty buffer, else the last buffered header's",
               F.implies(fb, F.parse(want)), s.where)
    at_r = {"REDL": ST + "REDOWNLOAD", "CONT": "%s.hashPrevBlock == m_redownload_buffer_last_hash" % hd,
            "PDT": "PermittedDifficultyTransition(m_consensus_params, 1 + m_redownload_buffer_last_height, %s, %s.nBits)" % (pl, hd),
            "ALL": "m_process_all_remaining_headers", "CPOS": "(1 + m_redownload_buffer_last_height) % m_params.commitment_period == m_commit_offset",
            "HAVE": ("m_header_commitments.empty()", False),
            "MATCH": re.compile(r"1 & m_hasher\(%s\.GetHash\(\)\) == m_header_commitments\.front\(\).*" % hd),
            "ENOUGH": ("m_redownload_chain_work < m_minimum_required_work", False)}
    is_append = lambda e: e[0] in ("mcall", "vcall") and re.search(r"::(emplace_back|push_back)$", e[1]) and match([".", ANY, H + "m_redownloaded_headers"], e[2])
    ss = check_guard(ctx, vr, P, is_append, "REDL && CONT && PDT && (ALL || !CPOS || (HAVE && MATCH))", at_r, "ValidateAndStoreRedownloadedHeader/append",
                     "a redownloaded header is buffered only in REDOWNLOAD, if it continues the buffered chain, has a permitted difficulty transition and - unless the "
                     "redownloaded work already reached the minimum - matches the commitment stored for its height")
    # reject direction: a commitment mismatch alone (whatever else holds at that point) makes the function fail; the container
    # is mutated (pop_front) between the emptiness test and the comparison, so this is checked on the rejection's own innermost guard
    mism = [e for e in exits(vr, P, rsub) if is_false_ret(e) and any(at_r["MATCH"].fullmatch(a) for a in F.atoms(e.own_formula(None)))]
    okm = False
    for e in mism:
        inner = [g for g in e.guards if g.kind in ("if", "sc")][-1:]
        fi = F.mk_and([g.formula(rsub) for g in inner])
        fb, _, un = F.bind_atoms(fi, {"MATCH": at_r["MATCH"]})
        if F.equivalent(fb, F.parse("!MATCH")):
            okm = True
    ctx.ob("ValidateAndStoreRedownloadedHeader/mismatch-rejects", "LADDER", "at a commitment position a header whose commitment bit differs from the stored one is rejected "
           "unconditionally (the innermost guard of that rejection is exactly the mismatch)", okm, vr.where, [F.fshow(e.own_formula(None))[:200] for e in mism])
    for s in ss:
        ok = match(["param", hd], call_args(s.expr)[0]) or contains(["param", hd], call_args(s.expr)[0])
        ctx.ob("ValidateAndStoreRedownloadedHeader/append-what@L%s" % s.line, "PROVENANCE", "the buffered header is the header that was just checked", bool(ok), s.where)
    check_guard(ctx, vr, P, field_assign(H + "m_process_all_remaining_headers", ["bool", True]), "REDL && CONT && PDT && ENOUGH", at_r,
                "ValidateAndStoreRedownloadedHeader/process-all", "commitment checks are switched off only once the redownloaded chain's own work reached the minimum required work")
    ws = sites(vr, lambda e: e[0] == "b" and e[1] in ASSIGN_OPS and match([".", ANY, H + "m_redownload_chain_work"], e[2]), P)
    ok = len(ws) == 1 and match(["b", "+=", ANY, ["call", "GetBlockProof", ["param", hd]]], ws[0].expr)
    ctx.ob("ValidateAndStoreRedownloadedHeader/work", "PROVENANCE", "the redownload work counter grows by GetBlockProof of the header being checked (only)", ok, vr.where,
           {"writes": [show(w.expr) for w in ws]})
    ws = sites(vr, field_assign(H + "m_redownload_buffer_last_hash"), P)
    ok = len(ws) == 1 and match(["mcall", "CBlockHeader::GetHash", ["param", hd]], ws[0].expr[3])
    ctx.ob("ValidateAndStoreRedownloadedHeader/anchor", "PROVENANCE", "the continuity anchor becomes the hash of the header just buffered", ok, vr.where, {"writes": [show(w.expr) for w in ws]})

    # ---- release
    at_p = {"REDL": ST + "REDOWNLOAD", "OVERBUF": "m_params.redownload_buffer_size < m_redownloaded_headers.size()", "ANY": ("m_redownloaded_headers.empty()", False),
            "ALL": "m_process_all_remaining_headers"}
    rets = [st["n"] for st in stmts(pop.body) if st.get("k") == "decl" and "vector" in (st.get("ty") or "")]
    is_release = lambda e: e[0] in ("mcall", "vcall") and re.search(r"::(emplace_back|push_back|insert)$", e[1]) and e[2][0] == "local" and e[2][1] in rets
    ss = check_guard(ctx, pop, P, is_release, "REDL && (OVERBUF || (ANY && ALL))", at_p, "PopHeadersReadyForAcceptance/release",
                     "a header is released for acceptance only while more than redownload_buffer_size headers are buffered behind it, or all remaining ones once the redownloaded work sufficed")
    for s in ss:
        a = call_args(s.expr)[0]
        ok = contains(["mcall", "std::deque::front", [".", ANY, H + "m_redownloaded_headers"]], a) and contains([".", ANY, H + "m_redownload_buffer_first_prev_hash"], a)
        ctx.ob("PopHeadersReadyForAcceptance/release-what@L%s" % s.line, "PROVENANCE", "the released header is the front of the redownload buffer, linked to the previously released hash", ok, s.where,
               {"argument": show(a)})
    for e in exits(pop, P):
        if e.kind == "ret" and is_expr(e.value):
            ok = any(contains(["local", r], e.value) for r in rets) or e.value[0] in ("init", "ctor") and len(e.value) <= 2
            ctx.ob("PopHeadersReadyForAcceptance/returns@L%s" % e.line, "PROVENANCE", "PopHeadersReadyForAcceptance returns only the vector it filled from the buffer", bool(ok),
                   "%s:%s" % (pop.file, e.line), {"value": show(e.value)})
    ws = sites(pn, field_assign(H + "ProcessingResult::pow_validated_headers"), P)
    ctx.floor("ProcessNextHeaders pow_validated_headers assignments", len(ws), 1)
    psub = naming(pn, P)
    for w in ws:
        okv = is_call_to(pop.q, w.expr[3])
        fb, mp, un = F.bind_atoms(w.formula(psub), {"REDL": ST + "REDOWNLOAD"})
        ctx.ob("ProcessNextHeaders/pow_validated_headers@L%s" % w.line, "PROVENANCE", "pow_validated_headers is only ever the result of PopHeadersReadyForAcceptance(), in REDOWNLOAD state",
               bool(okv) and F.implies(fb, F.parse("REDL")), w.where, {"value": show(w.expr[3])})
