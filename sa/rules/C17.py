"""C17 Stored blocks and undo data read back intact or fail loudly (DESIGN §3 C17)."""
import re

from sa.engine.api import *
from sa.rules._helpers_B import any_call_named, assign_to_field, mcall_named, must_before, stream_ops

UNITS = ["node/blockstorage.cpp", "validation.cpp"]
EXPLANATION = ("SYMMETRY between the record writers and readers of node/blockstorage.cpp, decided on the extracted stream-operation sequences: "
               "the undo checksum hashes the same inputs on both sides (previous block hash, then the undo data) and the file carries (undo, checksum) "
               "in the order the reader consumes them; block and undo records start with (network magic, 32-bit size) = STORAGE_HEADER_BYTES, the recorded "
               "position is advanced by exactly that constant and ReadRawBlock seeks back by it and reads (magic, size) in the same order; the size field and "
               "the payload use the same serialization as ReadBlock. LADDER: ReadBlockUndo succeeds only if the stored checksum equals the recomputed one; "
               "ReadRawBlock only for matching magic and bounded size; ReadBlock(block,pos,expected) only past ReadRawBlock, the proof-of-work check and "
               "hash == *expected_hash; every exception handler of the readers returns failure. PROVENANCE/MPT: the CBlockIndex overload passes the "
               "index's hash and position; ConnectTip/DisconnectTip read through that overload for the very index they (dis)connect; DisconnectBlock "
               "uses undo data only past a successful ReadBlockUndo; ConnectBlock re-checks the merkle root when really connecting and reports a "
               "mutated block through FatalError before any effect. VALUE-FLOW: the recorded used size of a blk/rev file (CBlockFileInfo::nSize/nUndoSize, writer "
               "table frozen through the call graph) is never lowered and the position handed out for a new record is the size before it is advanced.")
ASSUMPTIONS = ["Serialize/Unserialize of CBlock, CBlockUndo, uint256 are mutually inverse (C48)", "HashWriter/HashVerifier hash exactly the bytes streamed through them",
               "MessageStartChars is 4 bytes (std::array<uint8_t,4>)"]
CLAIM = dict(
    technique="static analysis: writer/reader symmetry of stream-operation sequences, reject-ladder implication on the readers' success exits, "
              "argument provenance, must-precede flow",
    text="For all paths of the block/undo record writers and readers: the reader consumes what the writer produced at the recorded position, a checksum, "
         "magic or header-hash mismatch (and any I/O or deserialization exception) makes the read fail, the chain-changing callers read through the "
         "hash-checked overload, and a block is connected only after its merkle root was re-verified. Unit tests read back a few records and corrupt a "
         "couple of fixed offsets.",
    note="Not decided: byte-for-byte identity (serialization semantics, see C48), obfuscation (XOR) arithmetic, FlatFileSeq::Allocate, pruning/re-reading "
         "across file boundaries.",
    ref="DESIGN.md §3 C17")

BM = "node::BlockManager::"


def _ptype(fn, name):
    for p in fn.params:
        if p.get("n") == name:
            return p.get("ty") or ""
    return ""


def _local_decl(fn, name):
    ds = [st for st in stmts(fn.body) if st.get("k") == "decl" and st.get("n") == name]
    return ds[0] if len(ds) == 1 else None


def _is32(ty):
    return bool(ty) and re.sub(r"\bconst\b", "", ty).strip() in ("uint32_t", "unsigned int", "std::uint32_t")


def _norm(fn, e, hashers=()):
    """Normalise one streamed item so that the writer's and the reader's items can be compared."""
    if match(["mcall", "CBlockIndex::GetBlockHash", [".", ["param", V("p")], "CBlockIndex::pprev"]], e) and "CBlockIndex" in _ptype(fn, e[2][1][1]):
        return "PREVHASH"
    if match(["mcall", "CChainParams::MessageStart"], e):
        return "MAGIC"
    if e[0] == "mcall" and e[1] in ("HashWriter::GetHash", "HashVerifier::GetHash"):
        return "CHECKSUM"
    if e[0] == "param":
        ty = _ptype(fn, e[1])
        for t in ("CBlockUndo", "CBlock"):
            if re.search(r"\b%s\b" % t, ty):
                return t
    if e[0] == "opcall" and e[2] == "TransactionSerParams::operator()":
        return "%s(%s)" % (show(e[3]), _norm(fn, e[4]))
    if e[0] == "local":
        d = _local_decl(fn, e[1])
        ty = (d or {}).get("ty") or ""
        if "MessageStartChars" in ty:
            return "MAGIC"
        if _is32(ty):
            return "U32"
        if "uint256" in ty:
            return "U256"
    return show(e)


def _header_split(ctx, fn, P, ops, oid):
    """Split the file writes of a record writer at the single `pos.nPos += STORAGE_HEADER_BYTES`."""
    adv = sites(fn, lambda e: match(["b", "+=", [".", ["local", ANY], "FlatFilePos::nPos"]], e), P)
    ok = len(adv) == 1 and match(["int", ANY, "node::STORAGE_HEADER_BYTES"], adv[0].expr[3])
    ctx.ob("%s/position-advance" % oid, "SYMMETRY", "%s advances the record position exactly once, by STORAGE_HEADER_BYTES" % fn.q, ok, fn.where,
           None if ok else {"advances": [show(s.expr) for s in adv]})
    if not ok:
        return [], [], None
    l = adv[0].line
    return [o for o in ops if o[0] < l], [o for o in ops if o[0] > l], adv[0]


def _file_ops(fn, P, op, root_types):
    out = []
    for l, root, it, s in stream_ops(fn, P, op):
        if root[0] == "local":
            d = _local_decl(fn, root[1])
            if d and any(t in (d.get("ty") or "") for t in root_types):
                out.append((l, root[1], it, s))
    return out


def _handlers_fail(ctx, fn, oid, is_fail):
    trys = [st for st in stmts(fn.body) if st.get("k") == "try"]
    ctx.floor("%s try blocks" % oid, len(trys), 1)
    for t in trys:
        for h in t.get("h", []):
            rets = [st for st in stmts(h["b"]) if st.get("k") == "ret"]
            ok = always_exits(h["b"]) and bool(rets) and all(is_fail(r.get("v")) for r in rets)
            ctx.ob("%s/catch(%s)@L%s" % (oid, h.get("ty"), h.get("l") or t.get("l")), "LADDER",
                   "an exception (I/O error, truncated or undecodable record) while reading in %s ends in a failure return" % fn.q, ok,
                   "%s:%s" % (fn.file, h.get("l") or t.get("l")))
        tys = " ".join(h.get("ty") or "..." for h in t.get("h", []))
        ctx.ob("%s/catch-all@L%s" % (oid, t.get("l")), "LADDER", "%s catches std::exception (or everything) around the record read" % fn.q,
               "std::exception" in tys or "..." in tys, "%s:%s" % (fn.file, t.get("l")), {"caught": tys})


def undo_records(ctx, P):
    w = ctx.used(P.fn(BM + "WriteBlockUndo"))
    r = ctx.used(P.fn(BM + "ReadBlockUndo"))
    # ---- checksum input
    wh = [(l, _norm(w, it)) for l, root, it, s in _file_ops(w, P, "<<", ["HashWriter"])]
    vins = _file_ops(r, P, "<<", ["HashVerifier"])
    vouts = _file_ops(r, P, ">>", ["HashVerifier"])
    rh = sorted([(l, _norm(r, it)) for l, root, it, s in vins + vouts])
    wseq, rseq = [x for _, x in wh], [x for _, x in rh]
    ok = wseq == rseq and "CBlockUndo" in wseq
    ctx.ob("undo/checksum-input", "SYMMETRY", "the undo checksum covers the same inputs in WriteBlockUndo and ReadBlockUndo (previous block hash, then the undo data)",
           ok, w.where, {"writer": wseq, "reader": rseq})
    ctx.ob("undo/checksum-binds-prev-hash", "SYMMETRY", "the undo checksum commits to the previous block's hash (an undo record cannot be replayed for another block)",
           wseq[:1] == ["PREVHASH"] and rseq[:1] == ["PREVHASH"], w.where, {"writer": wseq, "reader": rseq})
    # ---- file layout
    wf = _file_ops(w, P, "<<", ["BufferedWriter", "AutoFile"])
    head, data, adv = _header_split(ctx, w, P, wf, "undo")
    hseq = [_norm(w, it) for _, _, it, _ in head]
    ctx.ob("undo/header", "SYMMETRY", "WriteBlockUndo starts the record with (network magic, 32-bit size) = STORAGE_HEADER_BYTES bytes", hseq == ["MAGIC", "U32"], w.where,
           {"header": hseq})
    dseq = [_norm(w, it) for _, _, it, _ in data]
    # reader: items taken from the file, directly or through the verifier that wraps it
    vdecl = [st for st in stmts(r.body) if st.get("k") == "decl" and "HashVerifier" in (st.get("ty") or "")]
    if len(vdecl) != 1 or not match(["ctor", "HashVerifier", ["local", V("f")]], vdecl[0].get("i")):
        raise AnalysisBroken("ReadBlockUndo: HashVerifier construction not recognised")
    ver, src = vdecl[0]["n"], vdecl[0]["i"][2][1]
    direct = [(l, it) for l, root, it, s in _file_ops(r, P, ">>", ["BufferedReader", "AutoFile"]) if root == src]
    rf = sorted([(l, _norm(r, it)) for l, root, it, s in vouts if root == ver] + [(l, "CHECKSUM" if _norm(r, it) == "U256" else _norm(r, it)) for l, it in direct])
    rfseq = [x for _, x in rf]
    ctx.ob("undo/file-layout", "SYMMETRY", "ReadBlockUndo consumes (undo data through the hash verifier, then the stored checksum) exactly as WriteBlockUndo wrote them",
           dseq == rfseq == ["CBlockUndo", "CHECKSUM"], r.where, {"writer": dseq, "reader": rfseq})
    # the recorded position is the advanced one
    pos_ok = False
    if adv is not None:
        posl = adv.expr[2][1][1]
        ws = sites(w, assign_to_field("CBlockIndex::nUndoPos"), P)
        pos_ok = len(ws) == 1 and match([".", ["local", posl], "FlatFilePos::nPos"], ws[0].expr[3]) and ws[0].line > adv.line
    ctx.ob("undo/recorded-position", "SYMMETRY", "the undo position stored in the block index is the position after the record header (where the reader starts)", pos_ok, w.where)
    rp = _local_decl(r, (sites(r, mcall_named(BM + "OpenUndoFile"), P) or [None])[0] and call_args(sites(r, mcall_named(BM + "OpenUndoFile"), P)[0].expr)[0][1])
    ok = bool(rp) and contains(["mcall", "CBlockIndex::GetUndoPos", ["param", ANY]], _lambda_value(P, rp.get("i")))
    ctx.ob("undo/read-position", "PROVENANCE", "ReadBlockUndo opens the undo file at the index's GetUndoPos()", ok, r.where)
    # ---- ladder
    chk = [it[1] for l, it in direct if it[0] == "local"]
    if len(chk) != 1:
        raise AnalysisBroken("ReadBlockUndo: stored checksum local not recognised")
    pat = re.compile(r"^(%s == %s\.GetHash\(\)|%s\.GetHash\(\) == %s)$" % (chk[0], ver, ver, chk[0]))
    n = 0
    for e in exits(r, P, naming(r, P)):
        if is_true_ret(e):
            n += 1
            fb, mp, un = F.bind_atoms(e.formula, {"MATCH": pat})
            cex = F.counterexample(fb, F.parse("MATCH"))
            ctx.ob("undo/ladder@L%s" % e.line, "LADDER", "ReadBlockUndo returns true only if the checksum read from the file equals the hash of (prev hash, undo data read)",
                   cex is None, "%s:%s" % (r.file, e.line), None if cex is None else {"path": F.fshow(e.formula)[:600], "counterexample": cex})
    ctx.floor("ReadBlockUndo success exits", n, 1)
    _handlers_fail(ctx, r, "ReadBlockUndo", lambda v: match(["bool", False], v))
    k = P.const("node::STORAGE_HEADER_BYTES")
    ctx.ob("const/STORAGE_HEADER_BYTES", "CONST", "STORAGE_HEADER_BYTES == 4 (magic) + 4 (size)", k == 8, None, {"value": k})
    u = P.const("node::UNDO_DATA_DISK_OVERHEAD")
    ctx.ob("const/UNDO_DATA_DISK_OVERHEAD", "CONST", "UNDO_DATA_DISK_OVERHEAD == STORAGE_HEADER_BYTES + 32 (checksum)", u == 40, None, {"value": u})
    fu = sites(w, mcall_named(BM + "FindUndoPos"), P)
    ok = len(fu) == 1 and contains(["int", ANY, "node::UNDO_DATA_DISK_OVERHEAD"], call_args(fu[0].expr)[3]) and contains(["local", ANY], call_args(fu[0].expr)[3])
    ctx.ob("undo/allocated-size", "PROVENANCE", "the space reserved for an undo record is its serialized size plus UNDO_DATA_DISK_OVERHEAD", ok, w.where)
    # ---- consumer
    db = ctx.used(P.fn("Chainstate::DisconnectBlock"))
    read_ok = lambda a: is_expr(a) and a[0] == "mcall" and a[1] == BM + "ReadBlockUndo"
    undo_local = [call_args(s.expr)[0] for s in sites(db, read_ok, P)]
    ctx.floor("DisconnectBlock ReadBlockUndo sites", len(undo_local), 1)
    uses = lambda e: is_expr(e) and e[0] == "." and e[2] == "CBlockUndo::vtxundo" and any(e[1] == u_ for u_ in undo_local)
    must_before(ctx, db, P, [], [("undo-use", uses, ["READ"], "DisconnectBlock touches the undo data only after ReadBlockUndo returned true"),
                                 ("apply", any_call_named("ApplyTxInUndo"), ["READ"], "DisconnectBlock restores coins (ApplyTxInUndo) only after ReadBlockUndo returned true")],
                "DisconnectBlock", branch_marks=[("READ", read_ok, True)])
    for s in sites(db, read_ok, P):
        a = call_args(s.expr)
        ok = len(a) == 2 and match(["u", "*", ["param", "pindex"]], a[1])
        ctx.ob("DisconnectBlock/undo-of-this-block@L%s" % s.line, "PROVENANCE", "DisconnectBlock reads the undo record of the block index it disconnects", ok, s.where)


def _lambda_value(P, e):
    """For `WITH_LOCK(cs, return X)` initialisers: the returned expression X (else e itself)."""
    for x in subexprs(e or []):
        if x[0] == "lambda":
            fs = P.fns(x[1])
            if len(fs) == 1:
                rets = [st.get("v") for st in stmts(fs[0].body) if st.get("k") == "ret"]
                if len(rets) == 1:
                    return rets[0]
    return e or []


def block_records(ctx, P):
    w = ctx.used(P.fn(BM + "WriteBlock"))
    raw = ctx.used(P.fn(BM + "ReadRawBlock"))
    rb3 = ctx.used(P.fn(BM + "ReadBlock", nparams=3))
    rb2 = ctx.used(P.fn(BM + "ReadBlock", nparams=2))
    wf = _file_ops(w, P, "<<", ["BufferedWriter", "AutoFile"])
    head, data, adv = _header_split(ctx, w, P, wf, "block")
    hseq = [_norm(w, it) for _, _, it, _ in head]
    rops = _file_ops(raw, P, ">>", ["AutoFile", "BufferedReader", "BufferedFile"])
    rseq = [_norm(raw, it) for _, _, it, _ in rops]
    ctx.ob("block/header", "SYMMETRY", "WriteBlock writes and ReadRawBlock reads the record header in the same order: (network magic, 32-bit size)",
           hseq == rseq == ["MAGIC", "U32"], w.where, {"writer": hseq, "reader": rseq})
    # payload and size field use the same serialization; ReadBlock deserializes with it
    dseq = [_norm(w, it) for _, _, it, _ in data]
    size_ok = False
    if len(head) == 2 and head[1][2][0] == "local":
        d = _local_decl(w, head[1][2][1])
        m = find(["call", "GetSerializeSize", ANY], d.get("i")) if d else []
        size_ok = len(m) == 1 and [_norm(w, call_args(m[0])[0])] == dseq
    ctx.ob("block/size-field", "SYMMETRY", "the size field written by WriteBlock is GetSerializeSize of exactly the payload it writes", size_ok, w.where, {"payload": dseq})
    rd = [(_norm(rb3, it), root) for l, root, it, s in stream_ops(rb3, P, ">>")]
    ok = len(rd) == 1 and [rd[0][0]] == dseq and dseq == ["TX_WITH_WITNESS(CBlock)"]
    ctx.ob("block/payload-params", "SYMMETRY", "ReadBlock deserializes the block with the serialization parameters WriteBlock used (TX_WITH_WITNESS)", ok, rb3.where,
           {"writer": dseq, "reader": [x for x, _ in rd]})
    if rd:
        src = rd[0][1]
        raws = [st.get("n") for st in stmts(rb3.body) if st.get("k") == "decl" and is_call_to(BM + "ReadRawBlock", st.get("i"))]
        ok = len(raws) == 1 and contains(["local", raws[0]], src)
        ctx.ob("block/payload-source", "PROVENANCE", "ReadBlock deserializes the bytes returned by ReadRawBlock for the requested position", ok and
               match(["param", "pos"], call_args(_local_decl(rb3, raws[0])["i"])[0]) if ok else False, rb3.where)
    # position arithmetic: writer +HEADER, reader -HEADER
    ret_ok = False
    if adv is not None:
        posl = adv.expr[2][1][1]
        last = [st for st in stmts(w.body) if st.get("k") == "ret"][-1]
        ret_ok = match(["local", posl], last.get("v")) or contains(["local", posl], last.get("v") or [])
        fnb = _local_decl(w, posl)
        alloc = fnb and is_call_to(BM + "FindNextBlockPos", fnb.get("i")) and contains(["int", ANY, "node::STORAGE_HEADER_BYTES"], call_args(fnb["i"])[0])
        ctx.ob("block/allocated-size", "PROVENANCE", "the space reserved for a block record is its serialized size plus STORAGE_HEADER_BYTES", bool(alloc), w.where)
    ctx.ob("block/returned-position", "SYMMETRY", "WriteBlock returns the position after the record header (the block data position stored in the index)", bool(ret_ok), w.where)
    op = sites(raw, mcall_named(BM + "OpenBlockFile"), P)
    ok = len(op) == 1 and contains(["b", "-", [".", ["param", "pos"], "FlatFilePos::nPos"], ["int", ANY, "node::STORAGE_HEADER_BYTES"]], call_args(op[0].expr)[0])
    ctx.ob("block/reader-seeks-back", "SYMMETRY", "ReadRawBlock opens the file at pos.nPos - STORAGE_HEADER_BYTES (the start of the record header)", ok, raw.where)
    # ---- ReadRawBlock ladder
    if len(rops) == 2 and all(o[2][0] == "local" for o in rops):
        magic, size = rops[0][2][1], rops[1][2][1]
    else:
        raise AnalysisBroken("ReadRawBlock: header reads not recognised")
    atoms = {"SHORT": re.compile(r"^pos\.nPos < 8$"),
             "MAGIC": re.compile(r"^(%s == \S*GetParams\(\)\.MessageStart\(\)|\S*GetParams\(\)\.MessageStart\(\) == %s)$" % (magic, magic)),
             "BOUNDED": re.compile(r"^%s < \d+$" % size)}
    n = 0
    for e in exits(raw, P, naming(raw, P)):
        if e.kind == "ret" and is_expr(e.value) and not contains(["ctor", "util::Unexpected"], e.value) and not contains(["init", "util::Unexpected"], e.value) \
                and "Unexpected" not in show(e.value):
            n += 1
            fb, mp, un = F.bind_atoms(e.formula, atoms)
            cex = F.counterexample(fb, F.parse("!SHORT && MAGIC && BOUNDED"))
            ctx.ob("ReadRawBlock/ladder@L%s" % e.line, "LADDER", "ReadRawBlock returns data only if the position leaves room for the header, the stored magic equals the "
                   "network's MessageStart() and the stored size is bounded", cex is None, "%s:%s" % (raw.file, e.line),
                   None if cex is None else {"path": F.fshow(e.formula)[:700], "counterexample": cex})
    ctx.floor("ReadRawBlock success exits", n, 1)
    _handlers_fail(ctx, raw, "ReadRawBlock", lambda v: is_expr(v) and "Unexpected" in show(v))
    # ---- ReadBlock(block, pos, expected_hash) ladder
    atoms = {"RAW": re.compile(r".*ReadRawBlock\(pos\)"), "POW": re.compile(r"CheckProofOfWork\(block\.GetHash\(\), block\.nBits, .*"),
             "EXPECTED": "expected_hash",
             "SAME": re.compile(r"^(\*expected_hash == block\.GetHash\(\)|block\.GetHash\(\) == \*expected_hash)$")}
    n = 0
    for e in exits(rb3, P, naming(rb3, P)):
        if is_true_ret(e):
            n += 1
            fb, mp, un = F.bind_atoms(e.formula, atoms)
            cex = F.counterexample(fb, F.parse("RAW && POW && (!EXPECTED || SAME)"))
            ctx.ob("ReadBlock/ladder@L%s" % e.line, "LADDER", "ReadBlock(block, pos, expected_hash) returns true only if the raw read succeeded, the header has valid "
                   "proof of work and, when an expected hash is given, the block read hashes to it", cex is None, "%s:%s" % (rb3.file, e.line),
                   None if cex is None else {"path": F.fshow(e.formula)[:900], "counterexample": cex})
    ctx.floor("ReadBlock success exits", n, 1)
    _handlers_fail(ctx, rb3, "ReadBlock", lambda v: match(["bool", False], v))
    # ---- the index overload
    rets = [st for st in stmts(rb2.body) if st.get("k") == "ret"]
    ok = False
    detail = None
    if len(rets) == 1 and is_call_to(BM + "ReadBlock", rets[0].get("v")):
        a = call_args(rets[0]["v"])
        detail = {"args": [show(x) for x in a]}
        posv = a[1]
        if posv[0] == "local" and _local_decl(rb2, posv[1]):
            posv = _lambda_value(P, _local_decl(rb2, posv[1]).get("i"))
        ok = (len(a) == 3 and match(["param", "block"], a[0]) and contains(["mcall", "CBlockIndex::GetBlockPos", ["param", "index"]], posv)
              and contains(["mcall", "CBlockIndex::GetBlockHash", ["param", "index"]], a[2]))
    ctx.ob("ReadBlock(index)/forwards-hash", "PROVENANCE", "ReadBlock(block, index) reads at index.GetBlockPos() and passes index.GetBlockHash() as the expected hash",
           ok, rb2.where, detail)


def file_size_bookkeeping(ctx, P):
    """The recorded used size of a blk/rev file is where the next record is appended: it must never move backwards, and the position
    handed out for a new record is the old size."""
    from sa.engine import callgraph
    from sa.rules._helpers_B import alias_naming
    cg = callgraph.load_all()
    table = {"kernel::CBlockFileInfo::nSize": {BM + "FindNextBlockPos", BM + "UpdateBlockInfo"},
             "kernel::CBlockFileInfo::nUndoSize": {BM + "FindUndoPos"}}
    for fld, allowed in table.items():
        ws = {w[0] for w in cg.writers(fld)}
        ctor = {w for w in ws if w.rsplit("::", 1)[-1] == "CBlockFileInfo"}
        ok = bool(ws - ctor) and (ws - ctor) <= allowed
        ctx.ob("who-writes/%s" % fld.rsplit("::", 1)[-1], "WHO-MAY-WRITE", "%s is written (outside its default initialiser) only by %s" % (fld, ", ".join(sorted(allowed))),
               ok, None, {"writers": sorted(ws)})
        short = fld.rsplit("::", 1)[-1]
        for q in sorted(allowed):
            f = ctx.used(P.fn(q))
            sub = alias_naming(f, P)
            is_w = lambda e, fld=fld: is_expr(e) and ((e[0] == "b" and e[1] in ASSIGN_OPS) or (e[0] == "u" and e[1] in ("++", "--", "post++", "post--"))) \
                and is_expr(e[2]) and e[2][0] == "." and e[2][2] == fld
            ss = sites(f, is_w, P)
            ctx.floor("%s writes of %s" % (q, short), len(ss), 1)
            for s_ in ss:
                e = s_.expr
                tgt = F.key(F.expand(e[2], sub))
                shape, ok = "other", False
                if e[0] == "b" and e[1] == "+=":
                    neg = [x for x in subexprs(e[3]) if (x[0] == "b" and x[1] == "-") or (x[0] == "u" and x[1] == "-") or (x[0] == "int" and isinstance(x[1], int) and x[1] < 0)]
                    ty = _ptype(f, e[3][1]) if e[3][0] == "param" else ((_local_decl(f, e[3][1]) or {}).get("ty") or "") if e[3][0] == "local" else ""
                    shape, ok = "old + added", not neg and (e[3][0] not in ("param", "local") or "unsigned" in ty or "uint" in ty or "size_t" in ty)
                elif e[0] == "b" and e[1] == "=":
                    v = F.expand(e[3], sub)
                    if is_expr(v) and v[0] == "call" and v[1] == "std::max" and len(call_args(v)) == 2 and any(F.key(x) == tgt for x in call_args(v)):
                        shape, ok = "max(end of record, old)", True
                    else:
                        # `if (old < end) old = end;`
                        gs = [g for g in s_.guards if g.kind == "if"][-1:]
                        gf = F.mk_and([g.formula(sub) for g in gs])
                        want = F.to_formula(["b", "<", e[2], e[3]], sub)
                        if gs and F.implies(gf, want):
                            shape, ok = "raised under `old < new`", True
                ctx.ob("%s/%s-never-lowered@L%s" % (q.rsplit("::", 1)[-1], short, s_.line), "VALUE-FLOW",
                       "the recorded used size %s of a block/undo file is never lowered: it is `old + added`, `max(end of this record, old)` or raised under `old < new` "
                       "(a smaller value would let the next record overwrite stored ones)" % short, ok, s_.where, {"shape": shape, "value": show(e[3]) if len(e) > 3 else show(e)})
    # the position handed out for a new record is the size before it is bumped
    for q, fld in ((BM + "FindNextBlockPos", "kernel::CBlockFileInfo::nSize"), (BM + "FindUndoPos", "kernel::CBlockFileInfo::nUndoSize")):
        f = P.fn(q)
        taken = lambda e, fld=fld: is_expr(e) and e[0] == "b" and e[1] == "=" and match([".", ANY, "FlatFilePos::nPos"], e[2]) and match([".", ANY, fld], e[3])
        bump = lambda e, fld=fld: is_expr(e) and e[0] == "b" and e[1] in ("+=", "=") and match([".", ANY, fld], e[2])
        must_before(ctx, f, P, [("POSITION", taken)], [("position-before-bump", bump, ["POSITION"],
                                                        "the position returned for the new record is read from the recorded size before that size is advanced")],
                    q.rsplit("::", 1)[-1])
        for s_ in sites(f, taken, P):
            bs = sites(f, bump, P)
            ok = bool(bs) and all(show(b_.expr[2][1]) == show(s_.expr[3][1]) for b_ in bs)
            ctx.ob("%s/position-same-file@L%s" % (q.rsplit("::", 1)[-1], s_.line), "PROVENANCE", "the size read for the position and the size advanced belong to the same file entry",
                   ok, s_.where)


def consumers(ctx, P):
    ct = ctx.used(P.fn("Chainstate::ConnectTip"))
    dt = ctx.used(P.fn("Chainstate::DisconnectTip"))
    for f, eff, idx_arg in ((ct, "Chainstate::ConnectBlock", 2), (dt, "Chainstate::DisconnectBlock", 1)):
        es = sites(f, mcall_named(eff), P)
        rs = sites(f, mcall_named(BM + "ReadBlock"), P)
        ctx.floor("%s read/effect sites" % f.q, min(len(es), len(rs)), 1)
        idx = {show(call_args(s.expr)[idx_arg]) for s in es}
        for s in rs:
            a = call_args(s.expr)
            ok = len(a) == 2 and len(idx) == 1 and show(a[1]) == "*" + list(idx)[0]
            ctx.ob("%s/reads-by-index@L%s" % (f.q.rsplit("::", 1)[-1], s.line), "PROVENANCE",
                   "%s reads the block through the hash-checked ReadBlock(block, index) overload, for the same index it passes to %s" % (f.q, eff.rsplit("::", 1)[-1]),
                   ok, s.where, {"args": [show(x) for x in a], "index": sorted(idx)})
    check_guard(ctx, ct, P, mcall_named("Chainstate::ConnectBlock"), "GIVEN || READ",
                {"GIVEN": "block_to_connect", "READ": re.compile(r".*ReadBlock\(\*\w+, \*pindexNew\)")}, "ConnectTip/connect-after-read",
                "ConnectTip connects a block only if the caller supplied it or ReadBlock succeeded")
    for s in sites(ct, mcall_named("Chainstate::ConnectBlock"), P):
        a = call_args(s.expr)
        ok = len(a) == 5 and match(["bool", False], undefarg(a[4]))
        ctx.ob("ConnectTip/really-connects@L%s" % s.line, "PROVENANCE", "ConnectTip calls ConnectBlock with fJustCheck == false (full checks incl. merkle root)", ok, s.where)
    must_before(ctx, dt, P, [], [("disconnect-after-read", mcall_named("Chainstate::DisconnectBlock"), ["READ"], "DisconnectTip disconnects only a block that ReadBlock returned successfully")],
                "DisconnectTip", branch_marks=[("READ", lambda a: is_expr(a) and a[0] == "mcall" and a[1] == BM + "ReadBlock", True)])
    cb = ctx.used(P.fn("Chainstate::ConnectBlock"))
    cks = sites(cb, any_call_named("CheckBlock"), P)
    ctx.floor("ConnectBlock CheckBlock sites", len(cks), 1)
    for s in cks:
        a = call_args(s.expr)
        ok = len(a) >= 5 and match(["param", "block"], a[0]) and match(["u", "!", ["param", "fJustCheck"]], a[4])
        ctx.ob("ConnectBlock/merkle-recheck@L%s" % s.line, "MPT", "ConnectBlock re-runs CheckBlock on the block with fCheckMerkleRoot = !fJustCheck", ok, s.where,
               {"args": [show(x) for x in a]})
    checked = lambda a: is_expr(a) and a[0] == "call" and a[1] == "CheckBlock" and match(["u", "!", ["param", "fJustCheck"]], (call_args(a) + [None] * 5)[4])
    t = "ConnectBlock changes the coins view / writes undo data only after CheckBlock (with the merkle-root check) returned true"
    must_before(ctx, cb, P, [], [("UpdateCoins", any_call_named("UpdateCoins"), ["CHECKED"], t),
                                 ("SetBestBlock", mcall_named("CCoinsViewCache::SetBestBlock"), ["CHECKED"], t),
                                 ("WriteBlockUndo", mcall_named(BM + "WriteBlockUndo"), ["CHECKED"], t)],
                "ConnectBlock", branch_marks=[("CHECKED", checked, True)], exit_checks=[
                    ("success-after-check", lambda st: st.get("k") == "ret" and match(["bool", True], st.get("v")), ["CHECKED"],
                     "ConnectBlock returns true only after CheckBlock returned true")])
    fe = [s for s in sites(cb, any_call_named("FatalError"), P)]
    sub = naming(cb, P)
    loud = False
    for s in fe:
        fb, _, _ = F.bind_atoms(s.formula(sub), {"CHECK": re.compile(r"CheckBlock\(block, .*"), "MUT": re.compile(r"^state\.GetResult\(\) == BlockValidationResult::BLOCK_MUTATED$")})
        if F.counterexample(fb, F.parse("!CHECK && MUT")) is None:
            loud = True
    ctx.ob("ConnectBlock/mutated-is-fatal", "MPT", "a stored block that fails CheckBlock with BLOCK_MUTATED (corrupted transaction bytes) is reported through FatalError", loud, cb.where)


def check(ctx):
    P = ctx.program(UNITS)
    undo_records(ctx, P)
    block_records(ctx, P)
    file_size_bookkeeping(ctx, P)
    consumers(ctx, P)
