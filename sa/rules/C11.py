"""C11 Script verification flags behave as soft forks (DESIGN §3 C11)."""
import itertools
import re

from sa.engine.api import *

UNITS = ["script/interpreter.cpp", "validation.cpp", "policy/policy.cpp"]
EXPLANATION = ("Flag-polarity rule on the structured statement trees of every function of script/interpreter.cpp that receives the verification "
               "flags (and of callees that receive a flag-derived boolean, e.g. CScriptNum's fRequireMinimal): for every branch whose condition "
               "mentions a flag test, the condition is evaluated with the bit set and with it clear over all assignments of the other atoms; where "
               "the two select different regions X (bit set) and Y (bit clear), the obligation is  not(fail in O(Y) and O(X) != {fail})  and  "
               "not(succ in O(X) and O(Y) != {succ})  with O = the region's possible outcomes (success return, failing return/throw, or a join): "
               "clearing a bit never introduces a failure and setting a bit never introduces a success. Every use of a flag atom outside a branch "
               "condition / assertion / analysed callee argument is refused (exit 2). State-changing regions gated by a set bit are confined to a "
               "frozen table. Plus constants: MANDATORY is a subset of STANDARD, flag bits are distinct, and the block/policy flag providers.")
ASSUMPTIONS = ["regions that only fail or join do not change interpreter state in a way that later flips the verdict, except the three table entries "
               "(P2SH evaluation and the two witness-program blocks of VerifyScript), which only add checks on data the unflagged path ignores"]
CLAIM = dict(
    technique="static analysis: flag-polarity rule on structured regions (truth-table case split of every flag-dependent branch, outcome sets), use-classification of flag atoms, flag-set constants",
    text="For all scripts and flag sets, each verification bit can only add failure paths: every flag-dependent branch in the interpreter is checked for "
         "polarity over all assignments of its other conditions. An inverted test, a flag that unlocks an accepting path, or a new unclassified "
         "use of a flag is reported at its line. MANDATORY is contained in STANDARD and consensus block flags are contained in MANDATORY.",
    note="Not decided: determinism; full semantic monotonicity through state changes inside flag-gated regions (table of three regions).",
    ref="DESIGN.md §3 C11")

FAIL, SUCC, J = "fail", "succ", "join"
STATEFUL_OK = {
    # (function, flag name regex): reason
    ("VerifyScript", "SCRIPT_VERIFY_P2SH"): "P2SH evaluation: runs the redeem script on a copy of the stack; only adds checks for P2SH-shaped scriptPubKeys",
    ("VerifyScript", "SCRIPT_VERIFY_WITNESS"): "witness program evaluation (bare and P2SH-wrapped): only adds checks; unflagged path treats them as anyone-can-spend",
    ("VerifyScript", "SCRIPT_VERIFY_CLEANSTACK"): "clean-stack test (asserts P2SH and WITNESS are also set)",
}


def is_flag_atom(k):
    """The atom itself is a test of the flags parameter (`flags & X`), not a term that merely contains one."""
    return k.startswith("flags & ") or k.endswith(" & flags")


def flag_locals(fn, P):
    """Single-definition bool locals that are exactly a flag test (e.g. fRequireMinimal): kept as named atoms."""
    out = {}
    for n, init in local_defs(fn, P).items():
        if not is_expr(init):
            continue
        f = F.to_formula(init)
        ats = [a for a in F.atoms(f) if is_flag_atom(a)]
        if ats:
            if f != F.atom(ats[0]):
                # a single-definition local combining a flag test with other conditions (`flag && X`): it is not kept as a named atom -
                # naming() replaces it by its definition wherever it is tested, so the flag atom appears in those conditions and the
                # polarity rule judges them over all assignments of X
                continue
            out[n] = ats[0]
    return out


def ret_outcome(v):
    if not is_expr(v):
        return {J}
    if v[0] == "bool":
        return {SUCC} if v[1] else {FAIL}
    c = callee(v)
    if c and c.endswith("set_error"):
        return {FAIL}
    if c and c.endswith("set_success"):
        return {SUCC}
    if v[0] == "?:":
        return ret_outcome(v[2]) | ret_outcome(v[3])
    if v[0] == "b" and v[1] in ("&&", "||"):
        return {SUCC, FAIL}
    return {SUCC, FAIL}


def outcomes(s, depth=0):
    """Possible outcomes of executing statement s: fail / succ / join / 'break' / 'continue' (named joins)."""
    if not isinstance(s, dict):
        return {J}
    k = s.get("k")
    if k == "ret":
        return ret_outcome(s.get("v"))
    if k == "throw":
        return {FAIL}
    if k == "break":
        return {"break"}
    if k == "continue":
        return {"continue"}
    if k == "seq":
        out = set()
        for x in s.get("s", []):
            o = outcomes(x)
            out |= (o - {J})
            if J not in o:
                return out
        return out | {J}
    if k == "if":
        return outcomes(s.get("t")) | (outcomes(s.get("e")) if s.get("e") is not None else {J})
    if k in ("for", "while", "do", "foreach"):
        o = outcomes(s.get("b"))
        return (o - {"break", "continue"}) | {J}
    if k == "switch":
        out = {J}
        for it in s.get("s", []):
            if isinstance(it, dict) and it.get("k") not in ("case", "default"):
                out |= outcomes(it) - {"break"}
        return out
    if k == "try":
        out = outcomes(s.get("b"))
        for h in s.get("h", []):
            out |= outcomes(h.get("b"))
        return out
    if k == "expr":
        e = s.get("e")
        if always_exits(s):
            return {FAIL}
        if is_expr(e) and e[0] == "asserted":
            return {FAIL, J}
        return {J}
    return {J}


def writes_state(s):
    """Does the region assign / mutate anything besides locals it declares (approximation: any assignment, ++/--, or non-const member call on stack-like objects)?"""
    declared = {st.get("n") for st in stmts(s) if st.get("k") == "decl"}
    for st, e in all_exprs(s):
        for x in subexprs(e):
            if x[0] == "b" and x[1] in ASSIGN_OPS:
                root = x[2]
                while is_expr(root) and root[0] in (".", "idx"):
                    root = root[1]
                if is_expr(root) and root[0] == "local" and root[1] in declared:
                    continue
                if is_expr(root) and root[0] == "u" and root[1] == "*" and "serror" in show(root):
                    continue
                return True
            if x[0] == "mcall" and x[1].rsplit("::", 1)[-1] in ("push_back", "pop_back", "resize", "swap", "erase", "insert", "clear", "emplace_back"):
                obj = x[2]
                if is_expr(obj) and obj[0] == "local" and obj[1] in declared:
                    continue
                return True
            if x[0] == "call" and x[1] in ("popstack", "std::swap"):
                return True
    return False


def rest_of_block(parent_seq, idx):
    return {"k": "seq", "l": parent_seq.get("l"), "s": parent_seq.get("s", [])[idx + 1:]}


def analyse_function(ctx, fn, P, flag_pred, oid_prefix):
    """Apply the polarity rule to every branch of fn whose condition mentions a flag atom. Returns (#branches, used atom keys)."""
    subst = naming(fn, P)
    fl_locals = flag_locals(fn, P)
    for nm in fl_locals:
        subst.pop(nm, None)
    base_pred = flag_pred
    flag_pred = lambda k: base_pred(k) or k in fl_locals
    n = 0
    seen_atoms = set()

    def visit(s, parent=None, idx=None):
        nonlocal n
        if not isinstance(s, dict):
            return
        k = s.get("k")
        if k == "if" and is_expr(s.get("c")):
            f = F.to_formula(s["c"], subst)
            fl = [a for a in F.atoms(f) if flag_pred(a)]
            for a in fl:
                seen_atoms.add(a)
                n += 1
                check_branch(s, f, a, parent, idx)
        for kk in ("s",):
            items = s.get(kk) or []
            for i, x in enumerate(items):
                # case bodies are flattened into the switch's item list: the items after a statement are its "rest of block"
                visit(x, s if k in ("seq", "switch") else None, i)
        for kk in ("t", "e", "b", "init"):
            if isinstance(s.get(kk), dict):
                visit(s[kk])
        for h in s.get("h", []) or []:
            visit(h.get("b"))

    def check_branch(s, f, a, parent, idx):
        others = [x for x in F.atoms(f) if x != a]
        T = s.get("t")
        E = s.get("e")
        oT = outcomes(T)
        if E is not None:
            oE = outcomes(E)
        elif J not in oT and parent is not None:
            oE = outcomes(rest_of_block(parent, idx))      # early-exit style: the rest of the block is the implicit else
            oE = oE or {J}
        else:
            oE = {J}
        pairs = set()   # (region under bit set, region under bit clear)
        for vals in itertools.product((False, True), repeat=len(others)):
            env = dict(zip(others, vals))
            c1 = F.ev(f, dict(env, **{a: True}))
            c0 = F.ev(f, dict(env, **{a: False}))
            if c1 != c0:
                pairs.add(("T" if c1 else "E", "T" if c0 else "E"))
        where = "%s:%s" % (fn.file, s.get("l"))
        flagname = re.sub(r".*script_verify_flag_name::", "", a).rstrip("})")
        for x, y in sorted(pairs):
            OX = oT if x == "T" else oE
            OY = oT if y == "T" else oE
            bad1 = FAIL in OY and OX != {FAIL}
            bad2 = SUCC in OX and OY != {SUCC}
            # when the set-bit region is the explicit then-branch and the clear side is the implicit rest, a failure in the
            # rest is also reachable with the bit set (after the then-branch joins): only count failures the set side can avoid
            if bad1 and E is None and J in OX and x == "T":
                bad1 = False
            if bad2 and E is None and y == "T" and J in OY:
                bad2 = False
            ok = not bad1 and not bad2
            ctx.ob("%s/%s@L%s/%s" % (oid_prefix, flagname, s.get("l"), "set=%s,clear=%s" % (x, y)), "POLARITY",
                   "in %s the branch on `%s`: with the bit set the %s region runs, with it clear the %s region; clearing never adds a failure and setting never adds a success"
                   % (fn.q, a, "then" if x == "T" else "else/rest", "then" if y == "T" else "else/rest"), ok, where,
                   None if ok else {"outcomes_set": sorted(OX), "outcomes_clear": sorted(OY), "condition": F.fshow(f)})
            gated = T if x == "T" else E
            if gated is not None and writes_state(gated):
                key = (fn.q, None)
                allowed = [k2 for k2 in STATEFUL_OK if k2[0] == fn.q and k2[1] in a]
                ctx.ob("%s/%s@L%s/stateful" % (oid_prefix, flagname, s.get("l")), "POLARITY-STATE",
                       "a region executed only when `%s` is set changes interpreter state; it must be one of the reviewed regions" % a, bool(allowed), where,
                       {"reason": STATEFUL_OK[allowed[0]]} if allowed else {"function": fn.q})

    visit(fn.body)
    return n, seen_atoms


def flag_uses(fn, P, flag_pred):
    """Classify every occurrence of a flag atom in fn: branch condition, assertion, single-def bool local, argument."""
    subst = naming(fn, P)
    fl_locals = flag_locals(fn, P)
    bad = []
    args = []
    for st in stmts(fn.body):
        for kind, e in stmt_exprs(st):
            keys = [a for a in F.atoms(F.to_formula(e, subst)) if flag_pred(a)] if is_expr(e) else []
            direct = [x for x in subexprs(e) if x[0] == "b" and x[1] == "&" and match(["param", "flags"], x[2])]
            locs = [x for x in subexprs(e) if x[0] == "local" and x[1] in fl_locals]
            if not direct and not locs:
                continue
            if st.get("k") in ("if",) and kind == "c":
                # inside a branch condition a flag test must be an *atom* of the condition (not buried in a value term)
                cond_atoms = set(F.atoms(F.to_formula(e, {k2: v for k2, v in subst.items() if k2 not in fl_locals})))
                buried = [show(x)[:80] for x in direct if not (set(F.atoms(F.to_formula(x))) <= cond_atoms)]
                buried += [x[1] for x in locs if x[1] not in cond_atoms and not _is_call_arg(e, x)]
                if buried:
                    bad.append((st.get("l"), "flag test used as a value inside a condition term", buried[0]))
                continue
            if st.get("k") == "decl" and kind == "i" and st.get("ty") in ("bool", "const bool"):
                continue
            if st.get("k") == "expr" and is_expr(e) and e[0] == "asserted":
                continue
            # argument positions: a flag-derived local passed to a callee
            ok = False
            for x in subexprs(e):
                c = callee(x)
                if c is None:
                    continue
                if x[0] == "ctor":
                    c = c + "::" + c.rsplit("::", 1)[-1]
                for i, a in enumerate(call_args(x)):
                    if is_expr(a) and a[0] == "local" and a[1] in fl_locals:
                        args.append((c, i, st.get("l")))
                        ok = True
            if direct or not ok:
                bad.append((st.get("l"), st.get("k"), show(e)[:100]))
    return bad, args


def _is_call_arg(e, node):
    for x in subexprs(e):
        if callee(x) is not None and any(a is node for a in call_args(x)):
            return True
    return False


def check(ctx):
    P = ctx.program(UNITS)
    # anchor set: every function defined in script/interpreter.cpp with a parameter named `flags`
    fns = []
    for q, lst in P.funcs.items():
        for f in lst:
            if f.file.endswith("script/interpreter.cpp") and any(p["n"] == "flags" and "script_verify_flags" in p["ty"] for p in f.params) and f.body is not None:
                if q in ("GetScriptFlagNames", "CountWitnessSigOps"):
                    continue   # formatting helper / sigop counting: not part of script verification verdicts
                fns.append(f.simp())
    ctx.floor("interpreter functions receiving flags", len(fns), 8)
    total = 0
    callee_args = []
    for f in sorted(fns, key=lambda x: x.line):
        ctx.used(f)
        n, atoms = analyse_function(ctx, f, P, is_flag_atom, f.q)
        total += n
        bad, args = flag_uses(f, P, is_flag_atom)
        callee_args += args
        ctx.ob("%s/flag-uses" % f.q, "USE-CLASS", "every use of a flag test in %s is a branch condition, an assertion, a bool local feeding branches, or an argument to an analysed callee" % f.q,
               not bad, f.where, bad[:5] or None)
    ctx.floor("flag-dependent branches", total, 25)
    # callees receiving the flag-derived boolean
    cal = sorted({(c, i) for c, i, _ in callee_args})
    ctx.floor("call sites passing a flag-derived boolean", len(callee_args), 10)
    for c, i in cal:
        cands = [f for f in P.fns(c) if len(f.params) > i]
        if not cands:
            ctx.ob("callee/%s" % c, "USE-CLASS", "callee %s receiving a flag-derived boolean is analysed" % c, None, None, "definition not found")
            continue
        for f in cands:
            pname = f.params[i]["n"]
            ctx.used(f)
            n, _ = analyse_function(ctx, f, P, lambda k, pn=pname: k == pn, "%s(%s)" % (c, pname))
            ctx.floor("branches on %s in %s" % (pname, c), n, 1)
    # flag-set constants
    std, man = P.const("STANDARD_SCRIPT_VERIFY_FLAGS"), P.const("MANDATORY_SCRIPT_VERIFY_FLAGS")
    snm = P.const("STANDARD_NOT_MANDATORY_VERIFY_FLAGS")
    ctx.ob("const/mandatory-subset-standard", "CONST", "MANDATORY_SCRIPT_VERIFY_FLAGS is a subset of STANDARD_SCRIPT_VERIFY_FLAGS", man & ~std == 0, None, {"std": std, "mandatory": man})
    ctx.ob("const/standard-not-mandatory", "CONST", "STANDARD_NOT_MANDATORY_VERIFY_FLAGS == STANDARD & ~MANDATORY", snm == (std & ~man), None)
    en = P.enum("script_verify_flag_name")
    vals = [int(v[1]) for v in en["values"] if not v[0].startswith("SCRIPT_VERIFY_END")]
    ctx.ob("const/distinct-bits", "CONST", "all script_verify_flag_name enumerators are distinct bit positions", len(set(vals)) == len(vals), None)
    name2bit = {v[0]: int(v[1]) for v in en["values"]}
    # consensus block flags subset of MANDATORY
    gb = ctx.used(P.fn("GetBlockScriptFlags"))
    used = set()
    for st, e in all_exprs(gb.body):
        for x in subexprs(e):
            if x[0] == "enum" and x[1].startswith("script_verify_flag_name::"):
                used.add(x[1].split("::")[1])
    notmand = [u for u in used if not (man >> name2bit[u]) & 1]
    ctx.floor("flags used by GetBlockScriptFlags", len(used), 5)
    ctx.ob("GetBlockScriptFlags/subset-mandatory", "CONST", "every flag GetBlockScriptFlags can set is in MANDATORY_SCRIPT_VERIFY_FLAGS (consensus never enforces policy-only bits)",
           not notmand, gb.where, {"flags": sorted(used), "not_mandatory": notmand})
    # policy / consensus script checks use STANDARD / block flags
    pol = ctx.used(P.fn("MemPoolAccept::PolicyScriptChecks"))
    ok = any(x[0] == "int" and len(x) > 2 and x[2] == "STANDARD_SCRIPT_VERIFY_FLAGS" for st, e in all_exprs(pol.body) for x in subexprs(e)) or \
        any("STANDARD_SCRIPT_VERIFY_FLAGS" in show(e) for st, e in all_exprs(pol.body))
    ctx.ob("PolicyScriptChecks/flags", "PROVENANCE", "PolicyScriptChecks verifies with STANDARD_SCRIPT_VERIFY_FLAGS", ok, pol.where)
    con = ctx.used(P.fn("MemPoolAccept::ConsensusScriptChecks"))
    ok = any(is_call_to("GetBlockScriptFlags", x) for st, e in all_exprs(con.body) for x in subexprs(e))
    ctx.ob("ConsensusScriptChecks/flags", "PROVENANCE", "ConsensusScriptChecks re-verifies with GetBlockScriptFlags(tip)", ok, con.where)
