"""Convenience re-exports for rule modules."""
from . import formula as F
from .facts import AnalysisBroken, REPO, VERIF
from .ir import (ANY, V, Program, call_to, call_targs, call_args, call_obj, callee, calls_in, contains, find, is_call_to, is_expr, match, show,
                 stmt_exprs, stmts, subexprs, undefarg, all_exprs)
from .ladder import Rung, check_ladder, exits, invalid_call, naming, loop_range_key
from .paths import (ASSIGN_OPS, Flow, MustFlow, MayFlow, sub_function, all_sites, always_exits, has_break, local_defs, returns, sites, stmt_sites)


def is_true_ret(e):
    v = e.value
    return e.kind == "ret" and is_expr(v) and v[0] == "bool" and v[1] is True


def is_false_ret(e):
    v = e.value
    return e.kind == "ret" and is_expr(v) and v[0] == "bool" and v[1] is False


def check_return_formula(ctx, fn, program, spec_text, atoms, oid=None, rule="TWIN"):
    """A pure predicate function: the disjunction over its `return <expr>` exits of (path && expr)
    must be equivalent to the spec formula (truth table over canonical atoms)."""
    oid = oid or fn.q
    subst = naming(fn, program)
    parts = []
    for e in exits(fn, program, subst):
        if e.kind != "ret" or not is_expr(e.value):
            raise AnalysisBroken("%s: unexpected exit kind in a predicate function" % fn.q)
        parts.append(F.mk_and([e.formula, F.to_formula(e.value, subst)]))
    code = F.mk_or(parts)
    f, mapping, unmatched = F.bind_atoms(code, atoms)
    spec = F.parse(spec_text)
    c1 = F.counterexample(f, spec)
    c2 = F.counterexample(spec, f)
    ok = c1 is None and c2 is None
    ctx.used(fn)
    ctx.ob("%s/returns" % oid, rule, "%s returns true exactly when (%s)" % (fn.q, spec_text), ok, fn.where,
           None if ok else {"code": F.fshow(code), "binding": mapping, "unbound_code_atoms": unmatched[:12],
                            "counterexample": c1 or c2})
    return ok


def check_guard(ctx, fn, program, pred, spec_text, atoms, oid, text, rule="MPT", min_sites=1, stmt_pred=None, subst=None, where_all=False):
    """Every site matching `pred` (expression) / `stmt_pred` (statement) in fn is reached only if the
    spec formula holds: path-condition(site) => spec  (truth table over canonical atoms)."""
    subst = naming(fn, program) if subst is None else subst
    if stmt_pred is not None:
        ss = stmt_sites(fn, stmt_pred, program)
    else:
        ss = sites(fn, pred, program)
    if len(ss) < min_sites:
        raise AnalysisBroken("%s: expected >= %d sites for %s, found %d" % (fn.q, min_sites, oid, len(ss)))
    spec = F.parse(spec_text)
    ctx.used(fn)
    allok = True
    for s in ss:
        f0 = s.formula(subst)
        f, mapping, unmatched = F.bind_atoms(f0, atoms)
        cex = F.counterexample(f, spec)
        ok = cex is None
        allok = allok and ok
        ctx.ob("%s@L%s" % (oid, s.line), rule, "%s [in %s at line %s: path condition => %s]" % (text, fn.q, s.line, spec_text), ok, s.where,
               None if ok else {"path_condition": F.fshow(F._slice(f0, F.rename(spec, {})) if False else f0)[:1500], "binding": mapping,
                                "unbound_code_atoms": [u for u in unmatched][:15], "counterexample": cex})
    return ss


def handler_region(fn, msg):
    """The `if (msg_type == NetMsgType::<msg>)` statement of a message-dispatch function."""
    want = "msg_type == NetMsgType::%s" % msg
    hits = [st for st in stmts(fn.body) if st.get("k") == "if" and (show(st.get("c")) == want or ("(%s)" % want) in show(st.get("c")))]
    if len(hits) != 1:
        raise AnalysisBroken("%s: expected exactly one `%s` handler, found %d" % (fn.q, want, len(hits)))
    return hits[0]


def local_values(fn, name):
    """All values a local is given: its initialiser and every `name = e` (compound ops reported as ('op', e))."""
    vals = []
    for st in stmts(fn.body):
        if st.get("k") == "decl" and st.get("n") == name and is_expr(st.get("i")):
            vals.append((st.get("l"), st["i"]))
        for _, e in stmt_exprs(st):
            for x in subexprs(e):
                if x[0] == "b" and x[1] in ASSIGN_OPS and match(["local", name], x[2]):
                    vals.append((st.get("l"), x[3] if x[1] == "=" else ["compound", x[1], x[3]]))
                if x[0] == "u" and x[1] in ("++", "--", "post++", "post--", "&") and match(["local", name], x[2]):
                    vals.append((st.get("l"), ["compound", x[1]]))
    return vals


def check_validation_state(ctx, fn, program, state_pred, commit_preds, oid, accept=is_true_ret):
    """TYPESTATE: after `<state>.Invalid(...)` (state_pred selects the object expression) the function neither returns
    success nor reaches a commit effect unless a `<state>.IsValid()` / `!<state>.IsInvalid()` test intervened."""
    inv = lambda e: e[0] in ("mcall", "vcall") and e[1] == "ValidationState::Invalid" and state_pred(e[2])
    isvalid = lambda a: is_expr(a) and a[0] in ("mcall", "vcall") and a[1] == "ValidationState::IsValid" and state_pred(a[2])
    isinvalid = lambda a: is_expr(a) and a[0] in ("mcall", "vcall") and a[1] == "ValidationState::IsInvalid" and state_pred(a[2])
    mf = MayFlow(fn, program, gens=[("invalid", inv)], branch_kills=[("invalid", isvalid, True), ("invalid", isinvalid, False)])
    mf.watch = lambda e: any(p(e) for _, p in commit_preds)
    mf.run()
    ctx.used(fn)
    n = 0
    for e, st, stmt in mf.events:
        name = [nm for nm, p in commit_preds if p(e)][0]
        ok = "invalid" not in st
        n += 1
        ctx.ob("%s/commit:%s@L%s" % (oid, name, stmt.get("l")), "TYPESTATE", "%s in %s is not reached on a path where the validation state was set Invalid"
               % (name, fn.q), ok, "%s:%s" % (fn.file, stmt.get("l")))
    for st, stmt in mf.exits:
        class _E:  # minimal Exit-like view for accept predicates
            pass
        ex = _E()
        ex.kind, ex.value = stmt.get("k"), stmt.get("v")
        if ex.kind == "ret" and accept(ex):
            ok = "invalid" not in st
            n += 1
            ctx.ob("%s/accept@L%s" % (oid, stmt.get("l")), "TYPESTATE", "%s does not return success on a path where the validation state was set Invalid" % fn.q,
                   ok, "%s:%s" % (fn.file, stmt.get("l")))
    return n
