"""Convenience re-exports for rule modules."""
from . import formula as F
from .facts import AnalysisBroken, REPO, VERIF
from .ir import (ANY, V, Program, call_args, call_obj, callee, calls_in, contains, find, is_call_to, is_expr, match, show,
                 stmt_exprs, stmts, subexprs, undefarg, all_exprs)
from .ladder import Rung, check_ladder, exits, invalid_call, naming, loop_range_key
from .paths import (ASSIGN_OPS, Flow, MustFlow, all_sites, always_exits, has_break, local_defs, returns, sites, stmt_sites)


def is_true_ret(e):
    v = e.value
    return e.kind == "ret" and is_expr(v) and v[0] == "bool" and v[1] is True


def is_false_ret(e):
    v = e.value
    return e.kind == "ret" and is_expr(v) and v[0] == "bool" and v[1] is False


def check_return_formula(ctx, fn, program, spec_text, atoms, oid=None, rule="TWIN"):
    """A pure predicate function: the disjunction over its `return <expr>` exits of (path && expr)
    must be equivalent to the spec formula (truth table over canonical atoms)."""
    oid = oid or fn.q
    subst = naming(fn, program)
    parts = []
    for e in exits(fn, program, subst):
        if e.kind != "ret" or not is_expr(e.value):
            raise AnalysisBroken("%s: unexpected exit kind in a predicate function" % fn.q)
        parts.append(F.mk_and([e.formula, F.to_formula(e.value, subst)]))
    code = F.mk_or(parts)
    f, mapping, unmatched = F.bind_atoms(code, atoms)
    spec = F.parse(spec_text)
    c1 = F.counterexample(f, spec)
    c2 = F.counterexample(spec, f)
    ok = c1 is None and c2 is None
    ctx.used(fn)
    ctx.ob("%s/returns" % oid, rule, "%s returns true exactly when (%s)" % (fn.q, spec_text), ok, fn.where,
           None if ok else {"code": F.fshow(code), "binding": mapping, "unbound_code_atoms": unmatched[:12],
                            "counterexample": c1 or c2})
    return ok
