"""Structured control analysis on bcfacts statement trees (the analysed code is goto-free;
functions containing goto are refused).

* sites(): every expression/statement matching a predicate together with its *dominating
  conditions* (enclosing branch conditions with polarity, conditions of earlier early-exit ifs,
  loop conditions, switch cases, short-circuit operands) and enclosing loops.
* Flow: a small forward abstract interpreter (branch refinement, loops by fixpoint) used for
  must-precede / must-pass-through / typestate obligations.
"""
from . import formula as F
from .facts import AnalysisBroken
from .ir import is_expr, callee, subexprs, stmts, stmt_exprs, show

ASSIGN_OPS = {"=", "+=", "-=", "*=", "/=", "%=", "|=", "&=", "^=", "<<=", ">>="}
NORETURN = {"abort", "std::abort", "std::terminate", "exit", "std::exit", "_exit", "__assert_fail", "std::_Exit"}
HARD_ASSERT_MACROS = {"assert", "Assert", "CHECK_NONFATAL"}


import os
VERSIONING = os.environ.get("VERIF_VERSIONING", "1") != "0"
_KILL_OPS = ASSIGN_OPS | {"++", "--", "post++", "post--"}
_kill_cache = {}


def _root_var(e):
    """The variable an assignment overwrites AS A WHOLE (`v = ..`, `++v`); a write to a part of it
    (`v.f = ..`, `v[i] = ..`, `*v = ..`) does not rename v: like member and heap state, parts of objects
    are outside the versioning (DESIGN 2.11)."""
    while is_expr(e):
        if e[0] in ("local", "param"):
            return e[1]
        if e[0] == "paren" and len(e) > 1:
            e = e[1]
            continue
        return None
    return None


def _expr_kills(e, out):
    for x in subexprs(e):
        t = x[0]
        if t == "b" and x[1] in ASSIGN_OPS and len(x) > 2 and is_expr(x[2]):
            r = _root_var(x[2])
            if r:
                out.add(r)
        elif t == "u" and x[1] in ("++", "--", "post++", "post--") and len(x) > 2 and is_expr(x[2]):
            r = _root_var(x[2])
            if r:
                out.add(r)
        elif t == "opcall" and x[1] in _KILL_OPS and len(x) > 3 and is_expr(x[3]):
            r = _root_var(x[3])
            if r:
                out.add(r)


def killed_vars(node):
    """Names of locals/parameters assigned as a whole anywhere inside a statement tree: after it, a
    condition evaluated before it that mentions one of them talks about an older value (see Guard.stale)."""
    if not VERSIONING or not isinstance(node, dict):
        return frozenset()
    i = id(node)
    hit = _kill_cache.get(i)
    if hit is not None and hit[0] is node:
        return hit[1]
    out = set()
    for st in stmts(node):
        # (a second declaration of the same name in a nested or sibling scope is a different variable, not a
        # new value: names are not alpha-renamed, DESIGN 2.11 - only assignments count here)
        for _, e in stmt_exprs(st):
            _expr_kills(e, out)
    r = frozenset(out)
    _kill_cache[i] = (node, r)
    return r


def _with_stale(subst, kills, tag):
    """subst extended so that the variables in `kills` read as their value before statement `tag`
    (a variable that is already stale keeps its older tag only if it is not killed again here: the
    innermost/earliest killer after the evaluation point names the version)."""
    if not kills:
        return subst
    out = dict(subst or {})
    st = dict(out.get("@stale") or {})
    for v in kills:
        st[v] = tag
    out["@stale"] = st
    return out


def post_formula(st, subst=None):
    """Condition that holds when statement st has completed normally (conservative: T if unknown).
    Atoms refer to the values variables have when st completes; a condition evaluated inside st before a
    later assignment inside st is renamed to the older version."""
    if not isinstance(st, dict):
        return F.T
    k = st.get("k")
    if k in ("ret", "throw", "break", "continue", "goto"):
        return F.Fa
    if k == "seq":
        items = [x for x in st.get("s", []) if isinstance(x, dict)]
        parts = []
        sub = subst
        for x in reversed(items):
            parts.append(post_formula(x, sub))
            sub = _with_stale(sub, killed_vars(x), x.get("l"))
        return F.mk_and(list(reversed(parts)))
    if k == "if":
        ct = F.to_formula(st.get("c"), _with_stale(subst, killed_vars(st.get("t")), st.get("l")))
        ce = F.to_formula(st.get("c"), _with_stale(subst, killed_vars(st.get("e")), st.get("l")))
        return F.mk_or([F.mk_and([ct, post_formula(st.get("t"), subst)]),
                        F.mk_and([F.mk_not(ce), post_formula(st.get("e"), subst) if st.get("e") is not None else F.T])])
    if k in ("while", "for"):
        parts = [F.atom("done(loop@%s)" % st.get("l"))]
        if is_expr(st.get("c")) and not has_break(st.get("b")):
            parts.append(F.mk_not(F.to_formula(st["c"], subst)))
        return F.mk_and(parts)
    if k in ("foreach", "do"):
        return F.atom("done(loop@%s)" % st.get("l"))
    if k == "try":
        return F.mk_or([post_formula(st.get("b"), subst)] + [post_formula(h.get("b"), subst) for h in st.get("h", [])])
    if k == "expr":
        e = st.get("e")
        if is_expr(e) and callee(e) in NORETURN:
            return F.Fa
        if is_expr(e) and e[0] == "asserted" and st.get("m") in HARD_ASSERT_MACROS:
            return F.to_formula(e[1], subst)
    return F.T


class Guard:
    __slots__ = ("expr", "pol", "line", "kind", "vals", "stale")

    def __init__(self, expr, pol, line, kind, vals=None, stale=None):
        self.expr, self.pol, self.line, self.kind, self.vals = expr, pol, line, kind, vals
        self.stale = stale      # {var: tag}: variables overwritten between this condition and the site

    def aged(self, kills, tag):
        """The same condition seen from after a statement (line `tag`) that overwrites `kills`."""
        new = [v for v in kills if not (self.stale and v in self.stale)]
        if not new:
            return self
        st = dict(self.stale or {})
        for v in new:
            st[v] = tag
        return Guard(self.expr, self.pol, self.line, self.kind, self.vals, st)

    def formula(self, subst=None):
        if self.kind == "catch":
            return F.T
        if self.stale:
            subst = dict(subst or {})
            st = dict(self.stale)
            st.update(subst.get("@stale") or {})
            subst["@stale"] = st
        if self.kind in ("post", "assert"):
            return post_formula(self.vals, subst)
        if self.kind == "case":
            alts = []
            for v in self.vals:
                if v == "default":
                    return F.atom("default-case(%s)" % F.key(self.expr))
                alts.append(F.to_formula(["b", "==", self.expr, v], subst))
            return F.mk_or(alts)
        f = F.to_formula(self.expr, subst)
        return f if self.pol else F.mk_not(f)

    def __repr__(self):
        if self.kind in ("post", "assert"):
            return "%s(stmt@%s)" % (self.kind, self.line)
        if self.kind == "case":
            return "case %s in {%s}" % (show(self.expr), ", ".join(v if isinstance(v, str) else show(v) for v in self.vals))
        return "%s%s@%s" % ("" if self.pol else "!", show(self.expr), self.line)


class Site:
    __slots__ = ("expr", "stmt", "guards", "loops", "line", "fn", "in_lambda")

    def __init__(self, expr, stmt, guards, loops, fn, in_lambda=None):
        self.expr, self.stmt, self.guards, self.loops, self.fn = expr, stmt, list(guards), list(loops), fn
        self.line = stmt.get("l") if isinstance(stmt, dict) else None
        self.in_lambda = in_lambda

    def formula(self, subst=None):
        return F.mk_and([g.formula(subst) for g in self.guards])

    @property
    def where(self):
        return "%s:%s" % (self.fn.file, self.line)


def always_exits(s):
    """True if control cannot complete statement s normally."""
    if not isinstance(s, dict):
        return False
    k = s.get("k")
    if k in ("ret", "throw", "break", "continue", "goto"):
        return True
    if k == "seq":
        return any(always_exits(x) for x in s.get("s", []))
    if k == "if":
        return always_exits(s.get("t")) and s.get("e") is not None and always_exits(s.get("e"))
    if k == "try":
        return always_exits(s.get("b")) and all(always_exits(h.get("b")) for h in s.get("h", []))
    if k == "expr":
        e = s.get("e")
        if is_expr(e) and callee(e) in NORETURN:
            return True
        if is_expr(e) and e[0] == "asserted" and is_expr(e[1]) and e[1][0] == "bool" and e[1][1] is False and s.get("m") in HARD_ASSERT_MACROS:
            return True
    return False


def has_break(s, depth=0):
    """Does loop body s contain a `break` that leaves this loop?"""
    if not isinstance(s, dict):
        return False
    k = s.get("k")
    if k == "break":
        return True
    if k in ("for", "while", "do", "foreach", "switch"):
        return False
    for x in s.get("s", []) or []:
        if has_break(x):
            return True
    for kk in ("t", "e", "b"):
        if isinstance(s.get(kk), dict) and has_break(s[kk]):
            return True
    for h in s.get("h", []) or []:
        if has_break(h.get("b")):
            return True
    return False


class SiteWalker:
    def __init__(self, fn, program=None, inline_lambdas="invoked"):
        if fn.d.get("goto"):
            raise AnalysisBroken("function %s uses goto: structured analysis refused" % fn.q)
        self.fn = fn
        self.P = program
        self.inline = inline_lambdas
        self.out = []
        self.lambda_ctx = None
        self._lam_stack = []

    # -- expressions
    def expr(self, e, stmt, guards, loops):
        if not is_expr(e):
            return
        self.out.append(Site(e, stmt, guards, loops, self.fn, self.lambda_ctx))
        t = e[0]
        if t == "b" and e[1] in ("&&", "||") and len(e) >= 4:
            self.expr(e[2], stmt, guards, loops)
            self.expr(e[3], stmt, guards + [Guard(e[2], e[1] == "&&", stmt.get("l"), "sc")], loops)
            return
        if t == "?:":
            self.expr(e[1], stmt, guards, loops)
            self.expr(e[2], stmt, guards + [Guard(e[1], True, stmt.get("l"), "sc")], loops)
            self.expr(e[3], stmt, guards + [Guard(e[1], False, stmt.get("l"), "sc")], loops)
            return
        if t == "lambda":
            self.lam(e[1], stmt, guards, loops, invoked=False)
            return
        if t == "opcall" and len(e) > 3 and is_expr(e[3]) and e[3][0] == "lambda":
            self.lam(e[3][1], stmt, guards, loops, invoked=True)
            for x in e[4:]:
                self.expr(x, stmt, guards, loops)
            return
        if t == "opcall" and len(e) > 3 and is_expr(e[3]) and e[3][0] == "local" and e[1] == "()":
            # a call of a named local lambda (`const auto f = [&]{..}; .. f();`): its body runs here
            d = e[2] if isinstance(e[2], str) and "::lambda@" in e[2] else None      # the callee is resolved by clang
            if d is not None and not self._in_lambda(d):
                self._lam_stack.append(d)
                self.lam(d, stmt, guards, loops, invoked=True)
                self._lam_stack.pop()
        for x in e[1:]:
            if is_expr(x):
                self.expr(x, stmt, guards, loops)

    def _in_lambda(self, q):
        return q in self._lam_stack or self.lambda_ctx == q

    def lam(self, q, stmt, guards, loops, invoked):
        if self.P is None:
            return
        if self.inline == "none" or (self.inline == "invoked" and not invoked):
            return
        fs = self.P.fns(q)
        if len(fs) != 1 or fs[0].body is None:
            return
        save = self.lambda_ctx
        self.lambda_ctx = q
        self.stmt(fs[0].body, guards, [] if not invoked else loops)
        self.lambda_ctx = save

    @staticmethod
    def age(guards, kills, tag):
        return [g.aged(kills, tag) for g in guards] if kills else guards

    # -- statements
    def seq(self, items, guards, loops):
        g = list(guards)
        for st in items:
            if not isinstance(st, dict):
                continue
            self.stmt(st, g, loops)
            kv = killed_vars(st)
            if kv:
                g = [x.aged(kv, st.get("l")) for x in g]
            k = st.get("k")
            if k in ("if", "while", "for", "foreach", "do", "try", "seq"):
                g = g + [Guard(None, True, st.get("l"), "post", st)]
            elif k == "expr" and is_expr(st.get("e")) and st["e"][0] == "asserted" and st.get("m") in HARD_ASSERT_MACROS:
                # a failed hard assertion aborts: later code may assume it (kind "assert" lets rules treat it as a premise)
                g = g + [Guard(None, True, st.get("l"), "assert", st)]

    def stmt(self, s, guards, loops):
        if not isinstance(s, dict):
            return
        k = s.get("k")
        self.out.append(Site(None, s, guards, loops, self.fn, self.lambda_ctx))
        if k == "seq":
            self.seq(s.get("s", []), guards, loops)
        elif k == "if":
            if isinstance(s.get("init"), dict):
                self.stmt(s["init"], guards, loops)
            v = s.get("var")
            if isinstance(v, dict) and is_expr(v.get("i")):
                self.expr(v["i"], s, guards, loops)
            self.expr(s.get("c"), s, guards, loops)
            self.stmt(s.get("t"), guards + [Guard(s["c"], True, s.get("l"), "if")], loops)
            if s.get("e") is not None:
                self.stmt(s.get("e"), guards + [Guard(s["c"], False, s.get("l"), "if")], loops)
        elif k == "for":
            if isinstance(s.get("init"), dict):
                self.stmt(s["init"], guards, loops)
            guards = self.age(guards, killed_vars(s), s.get("l"))     # loop-carried: stale from the 2nd iteration on
            g2 = guards
            if is_expr(s.get("c")):
                self.expr(s["c"], s, guards, loops + [s])
                g2 = guards + [Guard(s["c"], True, s.get("l"), "loop")]
            self.stmt(s.get("b"), g2, loops + [s])
            if is_expr(s.get("inc")):
                self.expr(s["inc"], s, g2, loops + [s])
        elif k == "while":
            guards = self.age(guards, killed_vars(s), s.get("l"))
            self.expr(s.get("c"), s, guards, loops + [s])
            self.stmt(s.get("b"), guards + [Guard(s["c"], True, s.get("l"), "loop")], loops + [s])
        elif k == "do":
            guards = self.age(guards, killed_vars(s), s.get("l"))
            self.stmt(s.get("b"), guards, loops + [s])
            self.expr(s.get("c"), s, guards, loops + [s])
        elif k == "foreach":
            if isinstance(s.get("init"), dict):
                self.stmt(s["init"], guards, loops)
            self.expr(s.get("range"), s, guards, loops)
            self.stmt(s.get("b"), self.age(guards, killed_vars(s.get("b")), s.get("l")), loops + [s])
        elif k == "switch":
            if isinstance(s.get("init"), dict):
                self.stmt(s["init"], guards, loops)
            self.expr(s.get("c"), s, guards, loops)
            vals = []
            falls = False
            group = []

            def flush():
                if group:
                    self.seq(list(group), guards + [Guard(s["c"], True, s.get("l"), "case", list(vals))], loops)

            for it in s.get("s", []):
                kk = it.get("k") if isinstance(it, dict) else None
                if kk in ("case", "default"):
                    if group:
                        flush()
                        falls = not any(always_exits(x) for x in group)
                        group = []
                        if not falls:
                            vals = []
                    vals.append("default" if kk == "default" else it.get("v"))
                else:
                    group.append(it)
            flush()
        elif k == "try":
            self.stmt(s.get("b"), guards, loops)
            for h in s.get("h", []):
                self.stmt(h.get("b"), self.age(guards, killed_vars(s.get("b")), s.get("l")) + [Guard(["str", h.get("ty", "...")], True, h.get("l"), "catch")], loops)
        elif k == "label":
            self.stmt(s.get("b"), guards, loops)
        else:
            for _, e in stmt_exprs(s):
                self.expr(e, s, guards, loops)


def all_sites(fn, program=None, inline_lambdas="invoked"):
    w = SiteWalker(fn, program, inline_lambdas)
    w.stmt(fn.body, [], [])
    return w.out


def sites(fn, pred, program=None, inline_lambdas="invoked"):
    """Expression sites matching pred(expr)."""
    return [s for s in all_sites(fn, program, inline_lambdas) if s.expr is not None and pred(s.expr)]


def stmt_sites(fn, pred, program=None, inline_lambdas="invoked"):
    return [s for s in all_sites(fn, program, inline_lambdas) if s.expr is None and pred(s.stmt)]


def returns(fn, program=None):
    """Return/throw statements of fn itself (not of inlined lambdas) with their guards."""
    return [s for s in all_sites(fn, program, "none") if s.expr is None and s.stmt.get("k") in ("ret", "throw")]


# ------------------------------------------------------------------------------------------
# single-definition locals


def local_defs(fn, program=None, extra_ok=(), allow_overwritten=False):
    """{name: init expr} for locals that are declared once with an initialiser and never written
    afterwards (assignment, ++/--, address-of, non-const reference argument to a known callee).
    A local whose initialiser reads a variable overwritten later in its scope is left out unless
    allow_overwritten: then the caller uses the substitution only at sites before that overwrite (a condition
    evaluated before it keeps matching - one seen from after it carries the `v#line` version tag)."""
    decls = {}
    count = {}
    for st in stmts(fn.body):
        if st.get("k") == "decl" and st.get("n"):
            count[st["n"]] = count.get(st["n"], 0) + 1
            if is_expr(st.get("i")):
                decls[st["n"]] = st
        v = st.get("var")
        if isinstance(v, dict) and v.get("n"):
            count[v["n"]] = count.get(v["n"], 0) + 2  # loop/condition variables are never substituted
    written = set()
    for st in stmts(fn.body):
        for _, e in stmt_exprs(st):
            for x in subexprs(e):
                t = x[0]
                if t == "b" and x[1] in ASSIGN_OPS and is_expr(x[2]):
                    r = _root_local(x[2])
                    if r:
                        written.add(r)
                elif t == "u" and x[1] in ("++", "--", "post++", "post--", "&") and is_expr(x[2]):
                    r = _root_local(x[2])
                    if r:
                        written.add(r)
                elif callee(x) is not None and program is not None:
                    cq = callee(x)
                    cands = program.funcs.get(cq, [])
                    from .ir import call_args
                    args = call_args(x)
                    for f in cands:
                        for i, a in enumerate(args):
                            if i < len(f.params) and is_expr(a) and a[0] == "local":
                                ty = f.params[i]["ty"]
                                if ty.endswith("&") and not ty.startswith("const ") and "&&" not in ty:
                                    written.add(a[1])
                                if ty.endswith("*") and not ty.startswith("const "):
                                    pass
    out = {}
    unsafe = _init_overwritten(fn, decls) if VERSIONING and not allow_overwritten else ()
    for n, st in decls.items():
        if count.get(n, 0) != 1 or n in written or n in unsafe:
            continue
        ty = st.get("ty", "")
        simple = ty.startswith("const ") or ty.endswith(" const") or ty.endswith(" const &") or ty.endswith("*") or ty.endswith("* const") or ty in (
            "bool", "int", "unsigned int", "int64_t", "uint64_t", "uint32_t", "int32_t", "size_t", "CAmount", "long", "unsigned long",
            "std::size_t", "uint8_t", "unsigned char", "NodeId", "auto") or ty.endswith("iterator") or n in extra_ok
        if simple:
            out[n] = st["i"]
    return out


def _init_overwritten(fn, decls):
    """Single-definition locals whose initialiser reads a variable that is overwritten between the declaration
    and some use of the local (`b = c[0]; c = c.subspan(1); if (b) ..`): replacing b by `c[0]` at that use would
    read the new c, so such a local is left as its own atom.  (An overwrite after the last use is harmless: a
    condition on the local seen from after it carries the version tag like any other condition.)
    Events are taken in evaluation order (condition before branches, init/cond/body/inc for loops); an overwrite
    and a use that share a loop not containing the declaration count as 'between'."""
    names = {n: st for n, st in decls.items()}
    by_stmt = {id(st): n for n, st in decls.items()}
    pos = [0]
    decl_at, uses, kills = {}, {}, []      # n -> (pos, loops) ; n -> [(pos, loops)] ; [(pos, loops, var)]

    def expr(e, loops):
        pos[0] += 1
        p = pos[0]
        for x in subexprs(e):
            if x[0] == "local" and len(x) > 1 and x[1] in names:
                uses.setdefault(x[1], []).append((p, loops))
        k = set()
        _expr_kills(e, k)
        for v in k:
            kills.append((p, loops, v))

    def walk(s, loops):
        if not isinstance(s, dict):
            return
        k = s.get("k")
        if k == "seq":
            for x in s.get("s", []):
                walk(x, loops)
        elif k == "if":
            walk(s.get("init"), loops)
            v = s.get("var")
            if isinstance(v, dict) and is_expr(v.get("i")):
                expr(v["i"], loops)
            if is_expr(s.get("c")):
                expr(s["c"], loops)
            walk(s.get("t"), loops)
            walk(s.get("e"), loops)
        elif k in ("for", "while", "do", "foreach"):
            walk(s.get("init"), loops)
            lp = loops + (id(s),)
            if k == "foreach" and is_expr(s.get("range")):
                expr(s["range"], loops)
            if k != "do" and is_expr(s.get("c")):
                expr(s["c"], lp)
            walk(s.get("b"), lp)
            if is_expr(s.get("inc")):
                expr(s["inc"], lp)
            if k == "do" and is_expr(s.get("c")):
                expr(s["c"], lp)
        elif k == "switch":
            walk(s.get("init"), loops)
            if is_expr(s.get("c")):
                expr(s["c"], loops)
            for x in s.get("s", []):
                walk(x, loops)
        elif k == "try":
            walk(s.get("b"), loops)
            for h in s.get("h", []):
                walk(h.get("b"), loops)
        elif k in ("label", "case", "default"):
            walk(s.get("b"), loops)
        else:
            if k == "decl" and id(s) in by_stmt and is_expr(s.get("i")):
                expr(s["i"], loops)
                decl_at[by_stmt[id(s)]] = (pos[0], loops)
                return
            for _, e in stmt_exprs(s):
                expr(e, loops)

    walk(fn.body, ())
    out = set()
    for n, st in decls.items():
        if n not in decl_at:
            continue
        d, dl = decl_at[n]
        reads = {x[1] for x in subexprs(st["i"]) if x[0] in ("local", "param") and len(x) > 1}
        if not reads:
            continue
        for kp, kl, v in kills:
            if v not in reads or kp <= d:
                continue
            for up, ul in uses.get(n, []):
                if up <= d:
                    continue
                shared = [l for l in kl if l in ul and l not in dl]
                if kp < up or shared:
                    out.add(n)
                    break
            if n in out:
                break
    return out


def _root_local(e):
    while is_expr(e):
        if e[0] == "local":
            return e[1]
        if e[0] in (".", "idx") and len(e) > 1:
            e = e[1]
            continue
        if e[0] == "u" and e[1] == "*":
            e = e[2]
            continue
        return None
    return None


# ------------------------------------------------------------------------------------------
# forward abstract interpretation


class Flow:
    """Subclass and override: initial(), join(a, b), on_expr(state, e, stmt), refine(state, atom, pol),
    on_exit(state, stmt).  States must be immutable values comparable with ==; None = unreachable."""

    MAX_ITER = 12

    def __init__(self, fn, program=None):
        if fn.d.get("goto"):
            raise AnalysisBroken("function %s uses goto: structured analysis refused" % fn.q)
        self.fn = fn
        self.P = program
        self.defs = local_defs(fn, program)
        self.try_states = []

    # ---- to override
    def initial(self):
        return frozenset()

    def join(self, a, b):
        return a & b          # default: must-sets

    def on_expr(self, state, e, stmt):
        return state

    def on_stmt(self, state, stmt):
        return state

    def refine(self, state, atom, pol):
        return state

    def on_exit(self, state, stmt):
        pass

    # ---- machinery
    def j(self, a, b):
        if a is None:
            return b
        if b is None:
            return a
        return self.join(a, b)

    def run(self):
        out = self.stmt(self.fn.body, self.initial())
        if out.get("normal") is not None:
            self.on_exit(out["normal"], {"k": "end", "l": self.fn.end})
        return out

    def ev(self, st, e, stmt):
        """Evaluate expression e for effects, return state."""
        if st is None or not is_expr(e):
            return st
        t = e[0]
        if t == "b" and e[1] in ("&&", "||"):
            a, b = self.branch(st, e, stmt)
            return self.j(a, b)
        if t == "?:":
            a, b = self.branch(st, e[1], stmt)
            return self.j(self.ev(a, e[2], stmt), self.ev(b, e[3], stmt))
        if t == "lambda":
            return st
        if t == "opcall" and len(e) > 3 and is_expr(e[3]) and e[3][0] == "lambda" and self.P is not None:
            for x in e[4:]:
                st = self.ev(st, x, stmt)
            fs = self.P.fns(e[3][1])
            if len(fs) == 1 and fs[0].body is not None:
                saved_exit = self.on_exit
                rets = []
                self.on_exit = lambda s, stm: rets.append(s)
                o = self.stmt(fs[0].body, st)
                self.on_exit = saved_exit
                res = o.get("normal")
                for r in rets:
                    res = self.j(res, r)
                return res
            return st
        if t == "b" and e[1] in ASSIGN_OPS:
            st = self.ev(st, e[3], stmt)
            st = self.ev(st, e[2], stmt)
        else:
            for x in e[1:]:
                if is_expr(x):
                    st = self.ev(st, x, stmt)
        if st is None:
            return None
        st = self.on_expr(st, e, stmt)
        if self.try_states:
            self.try_states[-1].append(st)
        return st

    def branch(self, st, c, stmt):
        """(state if c true, state if c false), evaluating c's effects."""
        if st is None:
            return None, None
        if not is_expr(c):
            return st, st
        t = c[0]
        if t == "u" and c[1] == "!":
            a, b = self.branch(st, c[2], stmt)
            return b, a
        if t == "b" and c[1] == "&&":
            xt, xf = self.branch(st, c[2], stmt)
            yt, yf = self.branch(xt, c[3], stmt)
            return yt, self.j(xf, yf)
        if t == "b" and c[1] == "||":
            xt, xf = self.branch(st, c[2], stmt)
            yt, yf = self.branch(xf, c[3], stmt)
            return self.j(xt, yt), yf
        if t == "asserted":
            return self.branch(st, c[1], stmt)
        if t == "bool":
            return (st, None) if c[1] else (None, st)
        s2 = self.ev(st, c, stmt)
        if s2 is None:
            return None, None
        atom = c
        seen = set()
        while is_expr(atom) and atom[0] == "local" and atom[1] in self.defs and atom[1] not in seen:
            seen.add(atom[1])
            atom = self.defs[atom[1]]
        if is_expr(atom) and atom is not c and (atom[0] == "u" and atom[1] == "!" or (atom[0] == "b" and atom[1] in ("&&", "||"))):
            # a local bool defined by a compound condition: refine through its structure (no re-evaluation)
            return self.refine_only(s2, atom)
        return self.refine(s2, atom, True), self.refine(s2, atom, False)

    def refine_only(self, st, c):
        t = c[0]
        if t == "u" and c[1] == "!":
            a, b = self.refine_only(st, c[2])
            return b, a
        if t == "b" and c[1] == "&&":
            xt, xf = self.refine_only(st, c[2])
            yt, yf = self.refine_only(xt, c[3]) if xt is not None else (None, None)
            return yt, self.j(xf, yf)
        if t == "b" and c[1] == "||":
            xt, xf = self.refine_only(st, c[2])
            yt, yf = self.refine_only(xf, c[3]) if xf is not None else (None, None)
            return self.j(xt, yt), yf
        atom = c
        seen = set()
        while is_expr(atom) and atom[0] == "local" and atom[1] in self.defs and atom[1] not in seen:
            seen.add(atom[1])
            atom = self.defs[atom[1]]
        if atom is not c and is_expr(atom) and (atom[0] == "u" and atom[1] == "!" or (atom[0] == "b" and atom[1] in ("&&", "||"))):
            return self.refine_only(st, atom)
        return self.refine(st, atom, True), self.refine(st, atom, False)

    def seq(self, items, st):
        out = {"normal": st, "break": None, "continue": None}
        cur = st
        for it in items:
            if cur is None:
                break
            o = self.stmt(it, cur)
            out["break"] = self.j(out["break"], o.get("break"))
            out["continue"] = self.j(out["continue"], o.get("continue"))
            cur = o.get("normal")
        out["normal"] = cur
        return out

    def loop(self, s, st, cond, pre_body=None):
        """Generic loop: entry state st; cond may be None (foreach / do handled by callers)."""
        head = st
        exit_state = None
        for _ in range(self.MAX_ITER):
            if cond is not None:
                bt, bf = self.branch(head, cond, s)
            else:
                bt, bf = head, head
            o = self.stmt(s.get("b"), bt)
            after = self.j(o.get("normal"), o.get("continue"))
            if after is not None and is_expr(s.get("inc")):
                after = self.ev(after, s["inc"], s)
            new_head = self.j(st, after)
            exit_state = self.j(bf, o.get("break"))
            if new_head == head:
                break
            head = new_head
        else:
            raise AnalysisBroken("flow analysis did not converge in %s at line %s" % (self.fn.q, s.get("l")))
        return {"normal": exit_state, "break": None, "continue": None}

    def stmt(self, s, st):
        none = {"normal": None, "break": None, "continue": None}
        if st is None or not isinstance(s, dict):
            return {"normal": st, "break": None, "continue": None}
        st = self.on_stmt(st, s)
        k = s.get("k")
        if k == "seq":
            return self.seq(s.get("s", []), st)
        if k == "if":
            if isinstance(s.get("init"), dict):
                st = self.stmt(s["init"], st).get("normal")
            v = s.get("var")
            if isinstance(v, dict) and is_expr(v.get("i")):
                st = self.ev(st, v["i"], s)
            bt, bf = self.branch(st, s.get("c"), s)
            o1 = self.stmt(s.get("t"), bt) if bt is not None else none
            o2 = self.stmt(s.get("e"), bf) if (s.get("e") is not None and bf is not None) else {"normal": bf, "break": None, "continue": None}
            return {kk: self.j(o1.get(kk), o2.get(kk)) for kk in ("normal", "break", "continue")}
        if k == "for":
            if isinstance(s.get("init"), dict):
                st = self.stmt(s["init"], st).get("normal")
            return self.loop(s, st, s.get("c") if is_expr(s.get("c")) else None)
        if k == "while":
            return self.loop(s, st, s.get("c"))
        if k == "foreach":
            st = self.ev(st, s.get("range"), s)
            return self.loop(s, st, None)
        if k == "do":
            head = st
            for _ in range(self.MAX_ITER):
                o = self.stmt(s.get("b"), head)
                after = self.j(o.get("normal"), o.get("continue"))
                bt, bf = self.branch(after, s.get("c"), s) if after is not None else (None, None)
                new_head = self.j(st, bt)
                ex = self.j(bf, o.get("break"))
                if new_head == head:
                    break
                head = new_head
            else:
                raise AnalysisBroken("flow analysis did not converge in %s" % self.fn.q)
            return {"normal": ex, "break": None, "continue": None}
        if k == "switch":
            if isinstance(s.get("init"), dict):
                st = self.stmt(s["init"], st).get("normal")
            st = self.ev(st, s.get("c"), s)
            cur = None
            brk = None
            cont = None
            has_default = False
            for it in s.get("s", []):
                kk = it.get("k") if isinstance(it, dict) else None
                if kk in ("case", "default"):
                    if kk == "default":
                        has_default = True
                    cur = self.j(cur, st)
                    continue
                if cur is None:
                    continue
                o = self.stmt(it, cur)
                brk = self.j(brk, o.get("break"))
                cont = self.j(cont, o.get("continue"))
                cur = o.get("normal")
            ex = self.j(cur, brk)
            if not has_default:
                ex = self.j(ex, st)
            return {"normal": ex, "break": None, "continue": cont}
        if k == "try":
            self.try_states.append([st])
            o = self.stmt(s.get("b"), st)
            seen = self.try_states.pop()
            hstate = None
            for x in seen:
                hstate = self.j(hstate, x)
            outs = [o]
            for h in s.get("h", []):
                outs.append(self.stmt(h.get("b"), hstate))
            return {kk: _jall(self, [x.get(kk) for x in outs]) for kk in ("normal", "break", "continue")}
        if k == "ret":
            if is_expr(s.get("v")):
                st = self.ev(st, s["v"], s)
            if st is not None:
                self.on_exit(st, s)
            return dict(none)
        if k == "throw":
            if is_expr(s.get("v")):
                st = self.ev(st, s["v"], s)
            if st is not None:
                self.on_exit(st, s)
            return dict(none)
        if k == "break":
            return {"normal": None, "break": st, "continue": None}
        if k == "continue":
            return {"normal": None, "break": None, "continue": st}
        if k == "decl":
            if is_expr(s.get("i")):
                st = self.ev(st, s["i"], s)
            return {"normal": st, "break": None, "continue": None}
        if k == "expr":
            e = s.get("e")
            st = self.ev(st, e, s)
            if always_exits(s):
                return dict(none)
            if st is not None and is_expr(e) and e[0] == "asserted" and s.get("m") in HARD_ASSERT_MACROS:
                st, _ = self.refine_only(st, e[1])
            return {"normal": st, "break": None, "continue": None}
        if k == "label":
            return self.stmt(s.get("b"), st)
        return {"normal": st, "break": None, "continue": None}


def _jall(flow, xs):
    r = None
    for x in xs:
        r = flow.j(r, x)
    return r


class MustFlow(Flow):
    """State = frozenset of labels that have definitely happened on every path.
    marks: list of (label, predicate(expr)) evaluated at every expression event;
    branch_marks: list of (label, predicate(atom), polarity) added when a branch atom is known."""

    def __init__(self, fn, program=None, marks=(), branch_marks=(), kills=()):
        super().__init__(fn, program)
        self.marks = list(marks)
        self.branch_marks = list(branch_marks)
        self.kills = list(kills)
        self.events = []   # (expr, state_before, stmt)
        self.exits = []    # (state, stmt)
        self.watch = None

    def on_expr(self, state, e, stmt):
        if self.watch is not None and self.watch(e):
            self.events.append((e, state, stmt))
        for label, pred in self.kills:
            if pred(e):
                state = state - {label}
        for label, pred in self.marks:
            if pred(e):
                state = state | {label}
        return state

    def refine(self, state, atom, pol):
        for label, pred, p in self.branch_marks:
            if p == pol and pred(atom):
                state = state | {label}
        return state

    def on_exit(self, state, stmt):
        self.exits.append((state, stmt))


class MayFlow(Flow):
    """State = frozenset of labels that MAY hold on some path (joins unite).
    gens: (label, pred(expr)) add the label at an expression event; kills: (label, pred(expr)) remove it;
    branch_kills: (label, pred(atom), polarity) remove the label on the branch where the atom has that truth
    value; branch_gens likewise add."""

    def __init__(self, fn, program=None, gens=(), kills=(), branch_kills=(), branch_gens=(), init=frozenset()):
        super().__init__(fn, program)
        self.gens, self.kills_, self.branch_kills, self.branch_gens = list(gens), list(kills), list(branch_kills), list(branch_gens)
        self.init = frozenset(init)
        self.events = []
        self.exits = []
        self.watch = None

    def initial(self):
        return self.init

    def join(self, a, b):
        return a | b

    def on_expr(self, state, e, stmt):
        if self.watch is not None and self.watch(e):
            self.events.append((e, state, stmt))
        for label, pred in self.kills_:
            if pred(e):
                state = state - {label}
        for label, pred in self.gens:
            if pred(e):
                state = state | {label}
        return state

    def refine(self, state, atom, pol):
        for label, pred, p in self.branch_kills:
            if p == pol and pred(atom):
                state = state - {label}
        for label, pred, p in self.branch_gens:
            if p == pol and pred(atom):
                state = state | {label}
        return state

    def on_exit(self, state, stmt):
        self.exits.append((state, stmt))


def sub_function(fn, body, suffix="body"):
    """A pseudo-function whose body is a sub-statement of fn (e.g. one loop body) for per-iteration flow analysis."""
    from .ir import Function
    d = dict(fn.d)
    d["body"] = body if body.get("k") == "seq" else {"k": "seq", "l": body.get("l"), "s": [body]}
    d["q"] = fn.q + "::" + suffix
    f = Function(d, fn.unit)
    f._simplified = True
    return f
