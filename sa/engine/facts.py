"""Compilation database, shims, fact extraction (bcfacts) and the content-addressed fact cache.

Every check calls `load_units([...])` which (re-)extracts facts from /repo's *current* sources.
A cached fact file is reused only if the sha1 of every repository file the unit depended on
(recorded by bcfacts itself) is unchanged, so an edited tree is always re-analysed.
"""
import hashlib
import json
import os
import re
import subprocess
import sys
import time
from concurrent.futures import ThreadPoolExecutor

VERIF = os.path.dirname(os.path.dirname(os.path.dirname(os.path.abspath(__file__))))
REPO = os.environ.get("VERIF_REPO", "/repo")
BUILD = os.path.join(REPO, "_build")
CACHE = os.path.join(VERIF, ".cache")
BCFACTS = os.path.join(CACHE, "bin", "bcfacts")
RESOURCE_DIR = "/usr/lib/llvm-14/lib/clang/14.0.6"
JOBS = int(os.environ.get("VERIF_JOBS", "16"))


def _load_overlay():
    """VERIF_OVERLAY=<json file> maps repository paths to replacement files (used by the self-test to
    analyse mutated sources without touching /repo: the replacement is fed to the front end as a
    virtual file at the original path)."""
    p = os.environ.get("VERIF_OVERLAY")
    if not p:
        return {}
    return {os.path.normpath(k): v for k, v in json.load(open(p)).items()}


OVERLAY = _load_overlay()


def real_path(path):
    return OVERLAY.get(os.path.normpath(path), path)


class AnalysisBroken(Exception):
    """The analysis cannot decide (vanished anchor, front-end failure, unknown idiom)."""


def sha1_file(path):
    h = hashlib.sha1()
    with open(path, "rb") as f:
        for chunk in iter(lambda: f.read(1 << 20), b""):
            h.update(chunk)
    return h.hexdigest()


_hash_memo = {}


def file_sig(path):
    path = real_path(path)
    try:
        st = os.stat(path)
    except OSError:
        return None
    key = (path, st.st_mtime_ns, st.st_size)
    if key not in _hash_memo:
        _hash_memo[key] = sha1_file(path)
    return _hash_memo[key]


def ensure_tool():
    src = os.path.join(VERIF, "tools", "bcfacts", "bcfacts.cc")
    if not os.path.exists(BCFACTS) or os.path.getmtime(BCFACTS) < os.path.getmtime(src):
        r = subprocess.run([os.path.join(VERIF, "tools", "bcfacts", "build.sh")], capture_output=True, text=True)
        if r.returncode != 0 or not os.path.exists(BCFACTS):
            raise AnalysisBroken("cannot build bcfacts: " + r.stderr[-2000:])
    return BCFACTS


_compdb = None


def compdb():
    """{abs source path: [flags]} for the repository's own (non-test, non-vendored) units."""
    global _compdb
    if _compdb is not None:
        return _compdb
    if not os.path.exists(os.path.join(BUILD, "build.ninja")):
        raise AnalysisBroken("no configured build tree at %s (build.ninja missing)" % BUILD)
    r = subprocess.run(["ninja", "-C", BUILD, "-t", "compdb"], capture_output=True, text=True)
    if r.returncode != 0:
        raise AnalysisBroken("ninja -t compdb failed: " + r.stderr[-500:])
    db = {}
    for e in json.loads(r.stdout):
        f = e["file"]
        if not f.startswith(os.path.join(REPO, "src") + "/") or not f.endswith(".cpp"):
            continue
        rel = f[len(REPO) + 5:]
        if re.match(r"(test|bench|qt|leveldb|secp256k1|crc32c|minisketch|univalue|ipc/libmultiprocess)/", rel):
            continue
        if "/test/" in rel:
            continue
        if f in db:
            continue
        toks = e["command"].split()
        flags = []
        i = 0
        while i < len(toks):
            t = toks[i]
            if t in ("-o", "-MF", "-MT", "-MQ"):
                i += 2
                continue
            if t in ("-c", "-MD", "-MMD") or t.endswith("ccache") or t.endswith("/c++") or t.endswith("/g++") or t.endswith("/cc") or t == f:
                i += 1
                continue
            if t.startswith("-I") or t.startswith("-D") or t.startswith("-U") or t.startswith("-std=") or t.startswith("-isystem") or t.startswith("-include"):
                flags.append(t)
                if t in ("-I", "-D", "-U", "-isystem", "-include"):
                    flags.append(toks[i + 1])
                    i += 1
            i += 1
        db[f] = flags
    if len(db) < 200:
        raise AnalysisBroken("compilation database has only %d repository units (expected > 200)" % len(db))
    _compdb = db
    return db


def shadow_dir():
    """Generated shadow copy of util/btcsignals.h with the P0634 `typename` clang 14 needs."""
    d = os.path.join(CACHE, "shadow")
    src = os.path.join(REPO, "src", "util", "btcsignals.h")
    dst = os.path.join(d, "util", "btcsignals.h")
    os.makedirs(os.path.dirname(dst), exist_ok=True)
    try:
        text = open(src).read()
    except OSError:
        return d
    new = re.sub(r"using result_type = Combiner::result_type;", "using result_type = typename Combiner::result_type;", text)
    old = open(dst).read() if os.path.exists(dst) else None
    if old != new:
        with open(dst, "w") as f:
            f.write(new)
    return d


def analysis_flags(flags):
    out = ["-resource-dir", RESOURCE_DIR, "-I" + shadow_dir(), "-isystem", os.path.join(VERIF, "shim")]
    out += flags
    out += ["-Dconsteval=constexpr", "-UNDEBUG", "-include", os.path.join(VERIF, "shim", "verif_overloaded_guide.h"),
            "-include", os.path.join(VERIF, "shim", "verif_ranges_shim.h"),
            "-Wno-everything", "-ferror-limit=0", "-fsyntax-only", "-Wno-unknown-warning-option"]
    return out


PIPE_RE = re.compile(r"(?P<lhs>[A-Za-z_][\w\.]*(?:->\w+)*)\s*\|\s*std::(?:ranges::)?views::(?P<ad>reverse|drop|keys|filter)\b")


def rewrite_pipes(text):
    """`R | std::views::X(args)` -> `::verif_shim::v_X(R, args)` (same line structure)."""
    out = []
    pos = 0
    n = 0
    while True:
        m = PIPE_RE.search(text, pos)
        if not m:
            out.append(text[pos:])
            break
        out.append(text[pos:m.start()])
        end = m.end()
        args = None
        if end < len(text) and text[end] == "(":
            depth = 0
            j = end
            while j < len(text):
                if text[j] == "(":
                    depth += 1
                elif text[j] == ")":
                    depth -= 1
                    if depth == 0:
                        break
                j += 1
            args = text[end + 1:j]
            end = j + 1
        rep = "::verif_shim::v_%s(%s%s)" % (m.group("ad"), m.group("lhs"), (", " + args) if args is not None else "")
        out.append(rep)
        pos = end
        n += 1
    return "".join(out), n


def pipe_maps(unit):
    """--map arguments for the main file if it contains range-adaptor pipes."""
    maps = []
    try:
        text = open(real_path(unit)).read()
    except OSError:
        return maps
    new, n = rewrite_pipes(text)
    for k, v in OVERLAY.items():
        if k != os.path.normpath(unit):
            maps.append("%s=%s" % (k, v))
    if not n and os.path.normpath(unit) in OVERLAY:
        maps.append("%s=%s" % (unit, OVERLAY[os.path.normpath(unit)]))
    if n:
        d = os.path.join(CACHE, "shadow_src")
        os.makedirs(d, exist_ok=True)
        dst = os.path.join(d, hashlib.sha1((unit + new).encode()).hexdigest()[:16] + "_" + os.path.basename(unit))
        if not os.path.exists(dst):
            with open(dst + ".tmp", "w") as f:
                f.write(new)
            os.replace(dst + ".tmp", dst)
        maps.append("%s=%s" % (unit, dst))
    return maps


def _tool_sig():
    return file_sig(BCFACTS) or "none"


def _cache_path(unit, flags, roots, with_overlay=True):
    ov = "".join("%s=%s;" % (k, file_sig(k)) for k in sorted(OVERLAY)) if with_overlay else ""
    h = hashlib.sha1(("\0".join([unit] + flags + roots) + _tool_sig() + ov).encode()).hexdigest()[:20]
    base = os.path.basename(unit)
    return os.path.join(CACHE, "facts", "%s.%s.json" % (base, h))


def _valid(meta_path):
    try:
        meta = json.load(open(meta_path))
    except (OSError, ValueError):
        return False
    for p, sig in meta["deps"].items():
        if file_sig(p) != sig:
            return False
    return True


def extract_unit(unit, flags=None, roots=None):
    """Run bcfacts on one unit (or reuse a valid cache entry); returns the path of the fact file."""
    ensure_tool()
    if flags is None:
        db = compdb()
        if unit not in db:
            raise AnalysisBroken("unit %s is not in the compilation database" % unit)
        flags = db[unit]
    roots = roots or [os.path.join(REPO, "src")]
    aflags = analysis_flags(flags)
    out = _cache_path(unit, aflags, roots, with_overlay=False)
    meta = out + ".meta"
    if OVERLAY:
        # a unit that does not depend on any overlaid file is served by its ordinary cache entry
        try:
            base_deps = set(json.load(open(meta))["deps"])
        except (OSError, ValueError, KeyError):
            base_deps = None
        if base_deps is None or (base_deps & set(OVERLAY)) or os.path.normpath(unit) in OVERLAY:
            out = _cache_path(unit, aflags, roots, with_overlay=True)
            meta = out + ".meta"
    if os.path.exists(out) and _valid(meta):
        for q in (out, meta, out + ".cg"):      # mark as recently used (cache GC removes least recently used entries)
            try:
                os.utime(q)
            except OSError:
                pass
        return out
    os.makedirs(os.path.dirname(out), exist_ok=True)
    tmp = "%s.tmp.%d.%d" % (out, os.getpid(), int(time.time() * 1000) % 1000000)
    cmd = [BCFACTS, unit, "-o", tmp]
    for r in roots:
        cmd += ["--root", r]
    for m in pipe_maps(unit):
        cmd += ["--map", m]
    cmd += ["--"] + aflags
    r = subprocess.run(cmd, capture_output=True, text=True, cwd=BUILD if os.path.isdir(BUILD) else None)
    if not os.path.exists(tmp):
        raise AnalysisBroken("bcfacts produced no output for %s: %s" % (unit, r.stderr[-1500:]))
    data = json.load(open(tmp))
    deps = {}
    for p in data.get("deps", []):
        if p.startswith(REPO + "/") or p.startswith(VERIF + "/"):
            s = file_sig(p)
            if s:
                deps[p] = s
    deps[unit] = file_sig(unit)
    os.replace(tmp, out)
    with open(meta + ".%d" % os.getpid(), "w") as f:
        json.dump({"unit": unit, "deps": deps, "t": time.time()}, f)
    os.replace(meta + ".%d" % os.getpid(), meta)
    return out


def unit_path(rel):
    return rel if rel.startswith("/") else os.path.join(REPO, "src", rel)


def extract_many(units, progress=False):
    units = [unit_path(u) for u in units]
    with ThreadPoolExecutor(max_workers=JOBS) as ex:
        paths = list(ex.map(extract_unit, units))
    return dict(zip(units, paths))


def gc_cache(max_files=9000, keep=4500):
    """Bound the fact cache: edited trees leave stale entries behind (content-addressed). Oldest entries go first."""
    d = os.path.join(CACHE, "facts")
    try:
        names = os.listdir(d)
    except OSError:
        return
    if len(names) <= max_files:
        return
    paths = []
    for n in names:
        p = os.path.join(d, n)
        try:
            paths.append((os.stat(p).st_mtime, p))
        except OSError:
            pass
    paths.sort()
    for _, p in paths[:max(0, len(paths) - keep)]:
        try:
            os.unlink(p)
        except OSError:
            pass


def all_units():
    return sorted(compdb().keys())


_loaded = {}


def load_fact_file(path):
    if path not in _loaded:
        _loaded[path] = json.load(open(path))
    return _loaded[path]
