"""Discovery helper: print a function's exits and call sites with dominating guards (canonical atoms)."""
import sys

from . import formula as F
from .ir import Program, show, callee, is_expr
from .paths import all_sites, local_defs


def main(args):
    unit, q = args[0], args[1]
    units = unit.split(",")
    P = Program(units)
    want_calls = len(args) > 2 and args[2] == "calls"
    for f in P.fns(q):
        print("==", f.q, f.where, [p["n"] + ":" + p["ty"] for p in f.params], "degraded" if f.degraded else "")
        defs = local_defs(f, P)
        print("  single-def locals:", {k: show(v) for k, v in defs.items()})
        for s in all_sites(f, P):
            if s.expr is None and s.stmt.get("k") in ("ret", "throw"):
                v = s.stmt.get("v")
                print("  L%-5s %s %s" % (s.line, s.stmt["k"], show(v) if is_expr(v) else ""))
                print("         when %s" % F.fshow(s.formula(defs)))
                if s.loops:
                    print("         in loops at lines %s" % [l.get("l") for l in s.loops])
            elif want_calls and s.expr is not None and callee(s.expr) and not callee(s.expr).startswith("std::"):
                print("  L%-5s call %s" % (s.line, show(s.expr)[:160]))
                print("         when %s" % F.fshow(s.formula(defs)))
    return 0
