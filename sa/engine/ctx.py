"""Check context: obligations, verdict protocol, evidence and replay files."""
import json
import os
import sys
import time

from . import facts
from .facts import AnalysisBroken, VERIF
from .ir import Program

EVID = os.environ.get("VERIF_EVIDENCE_DIR") or os.path.join(VERIF, "evidence")


class Obligation:
    def __init__(self, oid, rule, text, ok, where, detail, key):
        self.id, self.rule, self.text, self.ok, self.where, self.detail = oid, rule, text, ok, where, detail
        self.key = key or oid

    def as_json(self):
        return {"id": self.id, "rule": self.rule, "obligation": self.text,
                "result": {True: "discharged", False: "violated", None: "undecided"}[self.ok],
                "where": self.where, "detail": self.detail}


class Ctx:
    def __init__(self, prop, tier="quick", seed=0):
        self.prop = prop
        self.tier = tier
        self.seed = seed
        self.obs = []
        self.units = set()
        self.functions = set()
        self.notes = []
        self.floors = []
        self.t0 = time.time()
        self._programs = {}
        self.assumptions = []
        self.explanation = ""
        self.level = "other"
        self.extra = {}

    # ---- programs
    def program(self, units):
        key = tuple(sorted(units))
        if key not in self._programs:
            self._programs[key] = Program(list(units))
            for u in self._programs[key].units:
                self.units.add(os.path.relpath(u, facts.REPO))
        return self._programs[key]

    def used(self, fn):
        self.functions.add("%s (%s:%d)" % (fn.q, os.path.relpath(fn.file, facts.REPO), fn.line))
        return fn

    # ---- obligations
    def ob(self, oid, rule, text, ok, where=None, detail=None, key=None):
        if where is not None and not isinstance(where, str):
            where = getattr(where, "where", str(where))
        if isinstance(where, str) and where.startswith(facts.REPO + "/"):
            where = where[len(facts.REPO) + 1:]
        self.obs.append(Obligation(oid, rule, text, ok, where, detail, key))
        return ok

    def floor(self, name, n, minimum):
        """Instance floor: fewer rule instances than confirmed by reading = analysis broken."""
        self.floors.append((name, n, minimum))
        if n < minimum:
            raise AnalysisBroken("instance floor: %s found %d < %d confirmed on the reference tree" % (name, n, minimum))

    def note(self, s):
        self.notes.append(s)

    # ---- verdict
    def finish(self):
        known = load_known(self.prop)
        violated = [o for o in self.obs if o.ok is False]
        undecided = [o for o in self.obs if o.ok is None]
        new = []
        for o in violated:
            if o.key in known:
                print("KNOWN-FINDING: property=%s %s" % (self.prop, known[o.key]))
            else:
                new.append(o)
        vdir = os.path.join(EVID, self.prop + ".violations")
        if os.path.isdir(vdir):
            for f in os.listdir(vdir):
                os.unlink(os.path.join(vdir, f))
        self.write_evidence(len(new))
        if new:
            os.makedirs(vdir, exist_ok=True)
            for i, o in enumerate(new):
                p = os.path.join(vdir, "%d.json" % i)
                with open(p, "w") as f:
                    json.dump({"property": self.prop, **o.as_json()}, f, indent=1)
                print("VIOLATION property=%s replay=%s" % (self.prop, p))
                print("  rule=%s at %s: %s" % (o.rule, o.where, o.text))
                if o.detail:
                    print("  detail: %s" % (o.detail if isinstance(o.detail, str) else json.dumps(o.detail)[:600]))
            return 1
        if undecided:
            for o in undecided:
                print("ANALYSIS-BROKEN property=%s reason=undecided obligation %s at %s: %s" % (self.prop, o.id, o.where, o.detail))
            return 2
        n = len(self.obs)
        print("OK property=%s tier=%s obligations=%d discharged=%d units=%d functions=%d wall=%.1fs" % (
            self.prop, self.tier, n, n - len(violated), len(self.units), len(self.functions), time.time() - self.t0))
        return 0

    def write_evidence(self, nviol):
        os.makedirs(EVID, exist_ok=True)
        obs = [o.as_json() for o in self.obs]
        distinct = len({(o.rule, o.id) for o in self.obs})
        cov = {
            "explanation": self.explanation,
            "evaluations": len(self.obs),
            "distinct_nontrivial": distinct,
            "rule": "one evaluation = one static obligation (rule kind + instance) decided on the facts extracted from /repo's current "
                    "sources; distinct = distinct (rule, instance) pairs; an obligation is non-trivial because it names a concrete "
                    "construct (function/call site/guard/field/constant) that must exist (vanished anchors are exit 2)",
            "samples": obs[:25],
            "obligations": len(self.obs),
            "discharged": len([o for o in self.obs if o.ok is True]),
            "units_analysed": sorted(self.units),
            "functions_analysed": sorted(self.functions),
            "instance_floors": [{"name": a, "found": b, "floor": c} for a, b, c in self.floors],
            "all_obligations": obs,
            "notes": self.notes,
        }
        cov.update(self.extra)
        ev = {
            "property_id": self.prop,
            "tier": self.tier,
            "seed": self.seed,
            "level": self.level,
            "coverage": cov,
            "assumptions": self.assumptions,
            "wall_s": round(time.time() - self.t0, 2),
            "violations": nviol,
        }
        with open(os.path.join(EVID, self.prop + ".json"), "w") as f:
            json.dump(ev, f, indent=1)


def load_known(prop):
    p = os.path.join(VERIF, "known_findings.json")
    out = {}
    try:
        d = json.load(open(p))
    except (OSError, ValueError):
        return out
    for f in d.get("findings", []):
        if f.get("property") == prop:
            out[f["key"]] = f.get("what", f["key"])
    return out
