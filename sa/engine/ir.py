"""Program model over bcfacts output: functions, records, enums, constants; expression utilities
(simplification, canonical rendering, traversal, pattern matching)."""
import os
import re

from . import facts
from .facts import AnalysisBroken

# ------------------------------------------------------------------------------------------
# expressions are nested lists: [tag, ...]; see tools/bcfacts/bcfacts.cc and DESIGN Appendix B

CALL_TAGS = ("call", "mcall", "vcall", "ctor", "opcall", "icall", "ucall", "umcall", "new", "uctor")


def is_expr(x):
    return isinstance(x, list) and x and isinstance(x[0], str)


def simplify(e):
    """Drop analysis noise: allocator default args, std::string(literal) wrappers, defarg markers are
    kept (rules may ask whether an argument was defaulted)."""
    if not is_expr(e):
        return e
    t = e[0]
    if t == "ctor" and len(e) >= 3 and e[1] in ("std::basic_string", "std::basic_string_view") and is_expr(e[2]) and e[2][0] == "str":
        return e[2]
    if t == "ctor" and e[1] in ("std::basic_string_view", "std::basic_string") and len(e) == 3:
        return simplify(e[2])
    out = [t]
    for x in e[1:]:
        if is_expr(x):
            if x[0] == "defarg" and len(x) > 1 and is_expr(x[1]) and x[1][0] == "ctor" and x[1][1] == "std::allocator":
                continue
            out.append(simplify(x))
        else:
            out.append(x)
    return out


def callee(e):
    """Qualified callee name of a call-like node, or None."""
    if not is_expr(e):
        return None
    t = e[0]
    if t in ("call", "mcall", "vcall", "ctor"):
        return e[1]
    if t == "opcall":
        return e[2]
    if t == "b" and len(e) >= 5:
        return e[4]
    if t == "u" and len(e) >= 4:
        return e[3]
    if t == "idx" and len(e) >= 4:
        return e[3]
    if t in ("ucall", "umcall"):
        return "?" + e[1]
    return None


def call_targs(e):
    """Explicitly written template arguments of a call (`Using<F>(x)` -> "F"), or None."""
    for x in e[2:] if is_expr(e) else []:
        if is_expr(x) and x[0] == "targs":
            return x[1]
    return None


def call_args(e):
    """Explicit arguments (without the object and without the template-argument marker) of a call-like node."""
    t = e[0]
    if t in ("call", "ctor", "ucall", "uctor"):
        return [x for x in e[2:] if not (is_expr(x) and x[0] == "targs")]
    if t in ("mcall", "vcall", "umcall"):
        return e[3:]
    if t == "opcall":
        return e[4:]
    if t == "icall":
        return e[2:]
    return []


def call_obj(e):
    t = e[0]
    if t in ("mcall", "vcall", "umcall"):
        return e[2]
    if t == "opcall":
        return e[3] if len(e) > 3 else None
    return None


def undefarg(e):
    return e[1] if is_expr(e) and e[0] == "defarg" else e


def subexprs(e):
    """Pre-order traversal of all sub-expressions (including e)."""
    if not is_expr(e):
        return
    yield e
    for x in e[1:]:
        if is_expr(x):
            yield from subexprs(x)


def calls_in(e):
    for x in subexprs(e):
        if callee(x) is not None:
            yield x


_BIN_PREC = {",": 0, "=": 1, "+=": 1, "-=": 1, "*=": 1, "/=": 1, "|=": 1, "&=": 1, "^=": 1, "<<=": 1, ">>=": 1, "%=": 1,
             "||": 3, "&&": 4, "|": 5, "^": 6, "&": 7, "==": 8, "!=": 8, "<": 9, ">": 9, "<=": 9, ">=": 9, "<=>": 9,
             "<<": 10, ">>": 10, "+": 11, "-": 11, "*": 12, "/": 12, "%": 12}


def short(q):
    return q


def show(e, top=True):
    """Deterministic C-like rendering with resolved names (used for atoms and evidence)."""
    if not is_expr(e):
        return str(e)
    t = e[0]
    if t == "int":
        return str(e[1])
    if t == "bool":
        return "true" if e[1] else "false"
    if t == "enum":
        return e[1]
    if t == "str":
        return '"%s"' % e[1]
    if t == "null":
        return "nullptr"
    if t == "this":
        return "this"
    if t in ("param", "local", "tparam", "ref", "uref"):
        return e[1]
    if t in ("global", "fn"):
        return e[1]
    if t == ".":
        base = show(e[1], False)
        f = e[2].rsplit("::", 1)[-1]
        if base == "this":
            return f
        return "%s.%s" % (base, f)
    if t == "method":
        return "%s.%s" % (show(e[2], False), e[1])
    if t in ("mcall", "vcall"):
        base = show(e[2], False)
        name = e[1]
        args = ", ".join(show(a, True) for a in e[3:] if not (is_expr(a) and a[0] == "defarg"))
        m = name.rsplit("::", 1)[-1]
        if base == "this":
            return "%s(%s)" % (name, args)
        return "%s.%s(%s)" % (base, m if not m.startswith("operator ") else name, args)
    if t in ("call", "ucall"):
        args = ", ".join(show(a, True) for a in e[2:] if not (is_expr(a) and a[0] in ("defarg", "targs")))
        return "%s(%s)" % (e[1], args)
    if t == "ctor" or t == "uctor":
        args = ", ".join(show(a, True) for a in e[2:] if not (is_expr(a) and a[0] == "defarg"))
        return "%s{%s}" % (e[1], args)
    if t == "opcall":
        args = ", ".join(show(a, True) for a in e[4:])
        return "%s(%s)" % (show(e[3], False) if len(e) > 3 else "?", args)
    if t == "icall":
        return "(*%s)(%s)" % (show(e[1], False), ", ".join(show(a, True) for a in e[2:]))
    if t == "umcall":
        return "%s.%s(%s)" % (show(e[2], False), e[1], ", ".join(show(a, True) for a in e[3:]))
    if t == "umem":
        return "%s.%s" % (show(e[2], False), e[1])
    if t == "b":
        s = "%s %s %s" % (show(e[2], False), e[1], show(e[3], False))
        return s if top else "(%s)" % s
    if t == "u":
        op = e[1]
        if op.startswith("post"):
            return "%s%s" % (show(e[2], False), op[4:])
        return "%s%s" % (op, show(e[2], False))
    if t == "?:":
        s = "%s ? %s : %s" % (show(e[1], False), show(e[2], False), show(e[3], False))
        return s if top else "(%s)" % s
    if t == "idx":
        return "%s[%s]" % (show(e[1], False), show(e[2], True))
    if t == "cast":
        return "(%s)%s" % (e[1], show(e[2], False))
    if t == "asserted":
        return "ASSERT(%s)" % show(e[1], True)
    if t == "defarg":
        return "default(%s)" % show(e[1], True)
    if t == "lambda":
        return "[lambda %s]" % e[1].rsplit("::", 1)[-1]
    if t == "init":
        return "%s{%s}" % (e[1], ", ".join(show(a, True) for a in e[2:]))
    if t == "throw":
        return "throw %s" % show(e[1], True)
    if t == "new":
        return "new %s(%s)" % (e[1], ", ".join(show(a, True) for a in e[2:]))
    if t == "each":
        return "each(%s)" % show(e[1], True)
    if t == "var":
        return "var<%s=%s>" % (e[1], e[2])
    if t.startswith("bind") and len(e) == 2:
        return "%s(%s)" % (t, show(e[1], True))
    if t == "none":
        return "<none>"
    return "<%s %s>" % (t, " ".join(show(a, True) for a in e[1:]))


# ------------------------------------------------------------------------------------------
# pattern matching: patterns are expressions in which
#   ANY            matches anything
#   V("name")      binds/compares a named sub-expression
#   a callable     is a predicate on the node
#   a str element starting with "re:" is a regex on a string element
# A pattern list may be shorter than the node: trailing elements are ignored.


class _Any:
    def __repr__(self):
        return "ANY"


ANY = _Any()


class V:
    def __init__(self, name, pat=None):
        self.name = name
        self.pat = pat


def match(pat, e, binds=None):
    if binds is None:
        binds = {}
    if pat is ANY:
        return True
    if isinstance(pat, V):
        if pat.pat is not None and not match(pat.pat, e, binds):
            return False
        if pat.name in binds:
            return binds[pat.name] == e
        binds[pat.name] = e
        return True
    if callable(pat):
        return bool(pat(e))
    if isinstance(pat, str):
        if pat.startswith("re:"):
            return isinstance(e, str) and re.fullmatch(pat[3:], e) is not None
        return pat == e
    if isinstance(pat, (list, tuple)):
        if not isinstance(e, list) or len(e) < len(pat):
            return False
        return all(match(p, x, binds) for p, x in zip(pat, e))
    return pat == e


def find(pat, e):
    """All sub-expressions of e matching pat."""
    return [x for x in subexprs(e) if match(pat, x, {})]


def contains(pat, e):
    for x in subexprs(e):
        if match(pat, x, {}):
            return True
    return False


def is_call_to(name, e, suffix=False):
    c = callee(e)
    if c is None:
        return False
    if isinstance(name, (set, frozenset, list, tuple)):
        return c in name
    return c == name or (suffix and c.endswith("::" + name))


def call_to(name):
    return lambda e: is_call_to(name, e)


# ------------------------------------------------------------------------------------------
# statements


def stmts(s):
    """Pre-order traversal of statement nodes."""
    if not isinstance(s, dict):
        return
    yield s
    for k in ("s", "h"):
        for x in s.get(k) or []:
            yield from stmts(x)
    for k in ("t", "e", "b", "init"):
        if isinstance(s.get(k), dict):
            yield from stmts(s[k])


def stmt_exprs(s):
    """Expressions owned directly by statement s (not by nested statements)."""
    for k in ("c", "e", "v", "i", "range", "inc"):
        x = s.get(k)
        if is_expr(x):
            yield k, x
    v = s.get("var")
    if isinstance(v, dict) and is_expr(v.get("i")):
        yield "var", v["i"]


def all_exprs(s):
    for st in stmts(s):
        for _, e in stmt_exprs(st):
            yield st, e


# ------------------------------------------------------------------------------------------


class Function:
    def __init__(self, d, unit):
        self.d = d
        self.unit = unit
        self.q = d["q"]
        self.file = d["file"]
        self.line = d["l"]
        self.end = d["end"]
        self.params = d.get("params", [])
        self.body = d.get("body")
        self.attrs = d.get("attrs", [])
        self.cls = d.get("cls")
        self.degraded = d.get("degraded") or (d.get("recovery") and "recovery expression")
        self._simplified = False

    @property
    def where(self):
        return "%s:%d" % (self.file, self.line)

    def simp(self):
        if not self._simplified:
            for st in stmts(self.body):
                for k in ("c", "e", "v", "i", "range", "inc"):
                    if is_expr(st.get(k)):
                        st[k] = simplify(st[k])
                v = st.get("var")
                if isinstance(v, dict) and is_expr(v.get("i")):
                    v["i"] = simplify(v["i"])
            for i in self.d.get("inits", []) or []:
                if is_expr(i.get("i")):
                    i["i"] = simplify(i["i"])
            self._simplified = True
        return self

    def __repr__(self):
        return "<fn %s %s>" % (self.q, self.where)


class Program:
    """Facts of a set of units, indexed by qualified name."""

    def __init__(self, units, roots=None):
        self.units = [facts.unit_path(u) for u in units]
        self.paths = {}
        self.funcs = {}
        self.records = {}
        self.enums = {}
        self.consts = {}
        self.errors = []
        self.data = {}
        if roots is None:
            self.paths = facts.extract_many(self.units)
        else:
            for u in self.units:
                self.paths[u] = facts.extract_unit(u, roots=roots[1], flags=roots[0])
        for u in self.units:
            d = facts.load_fact_file(self.paths[u])
            self.data[u] = d
            for e in d["errors"]:
                self.errors.append((u, e))
            seen_here = set()
            for f in d["functions"]:
                key = (f["q"], f["file"], f["l"])
                if key in seen_here:
                    continue
                seen_here.add(key)
                lst = self.funcs.setdefault(f["q"], [])
                if any(o.file == f["file"] and o.line == f["l"] for o in lst):
                    # same definition seen from another unit: prefer the non-dependent one
                    continue
                lst.append(Function(f, u))
            for r in d["records"]:
                self.records.setdefault(r["q"], r)
            for en in d["enums"]:
                self.enums.setdefault(en["q"], en)
            self.consts.update(d.get("consts", {}))

    def fns(self, q):
        return [f.simp() for f in self.funcs.get(q, [])]

    def fn(self, q, nparams=None, file=None, param_types=None):
        c = self.fns(q)
        if nparams is not None:
            c = [f for f in c if len(f.params) == nparams]
        if file is not None:
            c = [f for f in c if f.file.endswith(file)]
        if param_types is not None:
            c = [f for f in c if all(pt in f.params[i]["ty"] for i, pt in enumerate(param_types) if i < len(f.params))]
        if not c:
            raise AnalysisBroken("anchor function %s not found in units %s" % (q, [os.path.relpath(u, facts.REPO) for u in self.units]))
        if len(c) > 1:
            raise AnalysisBroken("anchor function %s is ambiguous (%d definitions: %s)" % (q, len(c), [f.where for f in c]))
        f = c[0]
        if f.degraded:
            raise AnalysisBroken("anchor function %s is degraded by a front-end error: %s" % (q, f.degraded))
        return f

    def record(self, q):
        if q not in self.records:
            raise AnalysisBroken("record %s not found" % q)
        return self.records[q]

    def enum(self, q):
        if q not in self.enums:
            raise AnalysisBroken("enum %s not found" % q)
        return self.enums[q]

    def const(self, q):
        if q not in self.consts:
            raise AnalysisBroken("constant %s not found" % q)
        v = self.consts[q]
        return int(v)

    def field(self, rec, name):
        for f in self.record(rec)["fields"]:
            if f["n"] == name:
                return f
        for f in self.record(rec).get("statics", []):
            if f["n"] == name:
                return f
        raise AnalysisBroken("field %s::%s not found" % (rec, name))
