"""Program model over bcfacts output: functions, records, enums, constants; expression utilities
(simplification, canonical rendering, traversal, pattern matching)."""
import copy
import os
import re

from . import facts
from .facts import AnalysisBroken

# ------------------------------------------------------------------------------------------
# expressions are nested lists: [tag, ...]; see tools/bcfacts/bcfacts.cc and DESIGN Appendix B

CALL_TAGS = ("call", "mcall", "vcall", "ctor", "opcall", "icall", "ucall", "umcall", "new", "uctor")


def is_expr(x):
    return isinstance(x, list) and x and isinstance(x[0], str)


def simplify(e):
    """Drop analysis noise: allocator default args, std::string(literal) wrappers, defarg markers are
    kept (rules may ask whether an argument was defaulted)."""
    if not is_expr(e):
        return e
    t = e[0]
    if t == "ctor" and len(e) >= 3 and e[1] in ("std::basic_string", "std::basic_string_view") and is_expr(e[2]) and e[2][0] == "str":
        return e[2]
    if t == "ctor" and e[1] in ("std::basic_string_view", "std::basic_string") and len(e) == 3:
        return simplify(e[2])
    out = [t]
    for x in e[1:]:
        if is_expr(x):
            if x[0] == "defarg" and len(x) > 1 and is_expr(x[1]) and x[1][0] == "ctor" and x[1][1] == "std::allocator":
                continue
            out.append(simplify(x))
        else:
            out.append(x)
    return out


def callee(e):
    """Qualified callee name of a call-like node, or None."""
    if not is_expr(e):
        return None
    t = e[0]
    if t in ("call", "mcall", "vcall", "ctor"):
        return e[1]
    if t == "opcall":
        return e[2]
    if t == "b" and len(e) >= 5:
        return e[4]
    if t == "u" and len(e) >= 4:
        return e[3]
    if t == "idx" and len(e) >= 4:
        return e[3]
    if t in ("ucall", "umcall"):
        return "?" + e[1]
    return None


def call_targs(e):
    """Explicitly written template arguments of a call (`Using<F>(x)` -> "F"), or None."""
    for x in e[2:] if is_expr(e) else []:
        if is_expr(x) and x[0] == "targs":
            return x[1]
    return None


def call_args(e):
    """Explicit arguments (without the object and without the template-argument marker) of a call-like node."""
    t = e[0]
    if t in ("call", "ctor", "ucall", "uctor"):
        return [x for x in e[2:] if not (is_expr(x) and x[0] == "targs")]
    if t in ("mcall", "vcall", "umcall"):
        return e[3:]
    if t == "opcall":
        return e[4:]
    if t == "icall":
        return e[2:]
    return []


def call_obj(e):
    t = e[0]
    if t in ("mcall", "vcall", "umcall"):
        return e[2]
    if t == "opcall":
        return e[3] if len(e) > 3 else None
    return None


def undefarg(e):
    return e[1] if is_expr(e) and e[0] == "defarg" else e


def subexprs(e):
    """Pre-order traversal of all sub-expressions (including e)."""
    if not is_expr(e):
        return
    yield e
    for x in e[1:]:
        if is_expr(x):
            yield from subexprs(x)


def calls_in(e):
    for x in subexprs(e):
        if callee(x) is not None:
            yield x


_BIN_PREC = {",": 0, "=": 1, "+=": 1, "-=": 1, "*=": 1, "/=": 1, "|=": 1, "&=": 1, "^=": 1, "<<=": 1, ">>=": 1, "%=": 1,
             "||": 3, "&&": 4, "|": 5, "^": 6, "&": 7, "==": 8, "!=": 8, "<": 9, ">": 9, "<=": 9, ">=": 9, "<=>": 9,
             "<<": 10, ">>": 10, "+": 11, "-": 11, "*": 12, "/": 12, "%": 12}


def short(q):
    return q


def show(e, top=True):
    """Deterministic C-like rendering with resolved names (used for atoms and evidence)."""
    if not is_expr(e):
        return str(e)
    t = e[0]
    if t == "int":
        return str(e[1])
    if t == "bool":
        return "true" if e[1] else "false"
    if t == "enum":
        return e[1]
    if t == "str":
        return '"%s"' % e[1]
    if t == "null":
        return "nullptr"
    if t == "this":
        return "this"
    if t in ("param", "local", "tparam", "ref", "uref"):
        return e[1]
    if t in ("global", "fn"):
        return e[1]
    if t == ".":
        base = show(e[1], False)
        f = e[2].rsplit("::", 1)[-1]
        if base == "this":
            return f
        return "%s.%s" % (base, f)
    if t == "method":
        return "%s.%s" % (show(e[2], False), e[1])
    if t in ("mcall", "vcall"):
        base = show(e[2], False)
        name = e[1]
        args = ", ".join(show(a, True) for a in e[3:] if not (is_expr(a) and a[0] == "defarg"))
        m = name.rsplit("::", 1)[-1]
        if base == "this":
            return "%s(%s)" % (name, args)
        return "%s.%s(%s)" % (base, m if not m.startswith("operator ") else name, args)
    if t in ("call", "ucall"):
        args = ", ".join(show(a, True) for a in e[2:] if not (is_expr(a) and a[0] in ("defarg", "targs")))
        return "%s(%s)" % (e[1], args)
    if t == "ctor" or t == "uctor":
        args = ", ".join(show(a, True) for a in e[2:] if not (is_expr(a) and a[0] == "defarg"))
        return "%s{%s}" % (e[1], args)
    if t == "opcall":
        args = ", ".join(show(a, True) for a in e[4:])
        return "%s(%s)" % (show(e[3], False) if len(e) > 3 else "?", args)
    if t == "icall":
        return "(*%s)(%s)" % (show(e[1], False), ", ".join(show(a, True) for a in e[2:]))
    if t == "umcall":
        return "%s.%s(%s)" % (show(e[2], False), e[1], ", ".join(show(a, True) for a in e[3:]))
    if t == "umem":
        return "%s.%s" % (show(e[2], False), e[1])
    if t == "b":
        s = "%s %s %s" % (show(e[2], False), e[1], show(e[3], False))
        return s if top else "(%s)" % s
    if t == "u":
        op = e[1]
        if op.startswith("post"):
            return "%s%s" % (show(e[2], False), op[4:])
        return "%s%s" % (op, show(e[2], False))
    if t == "?:":
        s = "%s ? %s : %s" % (show(e[1], False), show(e[2], False), show(e[3], False))
        return s if top else "(%s)" % s
    if t == "idx":
        return "%s[%s]" % (show(e[1], False), show(e[2], True))
    if t == "cast":
        return "(%s)%s" % (e[1], show(e[2], False))
    if t == "asserted":
        return "ASSERT(%s)" % show(e[1], True)
    if t == "defarg":
        return "default(%s)" % show(e[1], True)
    if t == "lambda":
        return "[lambda %s]" % e[1].rsplit("::", 1)[-1]
    if t == "init":
        return "%s{%s}" % (e[1], ", ".join(show(a, True) for a in e[2:]))
    if t == "throw":
        return "throw %s" % show(e[1], True)
    if t == "new":
        return "new %s(%s)" % (e[1], ", ".join(show(a, True) for a in e[2:]))
    if t == "each":
        return "each(%s)" % show(e[1], True)
    if t == "var":
        return "var<%s=%s>" % (e[1], e[2])
    if t.startswith("bind") and len(e) == 2:
        return "%s(%s)" % (t, show(e[1], True))
    if t == "none":
        return "<none>"
    return "<%s %s>" % (t, " ".join(show(a, True) for a in e[1:]))


# ------------------------------------------------------------------------------------------
# pattern matching: patterns are expressions in which
#   ANY            matches anything
#   V("name")      binds/compares a named sub-expression
#   a callable     is a predicate on the node
#   a str element starting with "re:" is a regex on a string element
# A pattern list may be shorter than the node: trailing elements are ignored.


class _Any:
    def __repr__(self):
        return "ANY"


ANY = _Any()


class V:
    def __init__(self, name, pat=None):
        self.name = name
        self.pat = pat


def match(pat, e, binds=None):
    if binds is None:
        binds = {}
    if pat is ANY:
        return True
    if isinstance(pat, V):
        if pat.pat is not None and not match(pat.pat, e, binds):
            return False
        if pat.name in binds:
            return binds[pat.name] == e
        binds[pat.name] = e
        return True
    if callable(pat):
        return bool(pat(e))
    if isinstance(pat, str):
        if pat.startswith("re:"):
            return isinstance(e, str) and re.fullmatch(pat[3:], e) is not None
        return pat == e
    if isinstance(pat, (list, tuple)):
        if not isinstance(e, list) or len(e) < len(pat):
            return False
        return all(match(p, x, binds) for p, x in zip(pat, e))
    return pat == e


def find(pat, e):
    """All sub-expressions of e matching pat."""
    return [x for x in subexprs(e) if match(pat, x, {})]


def contains(pat, e):
    for x in subexprs(e):
        if match(pat, x, {}):
            return True
    return False


def is_call_to(name, e, suffix=False):
    c = callee(e)
    if c is None:
        return False
    if isinstance(name, (set, frozenset, list, tuple)):
        return c in name
    return c == name or (suffix and c.endswith("::" + name))


def call_to(name):
    return lambda e: is_call_to(name, e)


# ------------------------------------------------------------------------------------------
# statements


def stmts(s):
    """Pre-order traversal of statement nodes."""
    if not isinstance(s, dict):
        return
    yield s
    for k in ("s", "h"):
        for x in s.get(k) or []:
            yield from stmts(x)
    for k in ("t", "e", "b", "init"):
        if isinstance(s.get(k), dict):
            yield from stmts(s[k])


def stmt_exprs(s):
    """Expressions owned directly by statement s (not by nested statements)."""
    for k in ("c", "e", "v", "i", "range", "inc"):
        x = s.get(k)
        if is_expr(x):
            yield k, x
    v = s.get("var")
    if isinstance(v, dict) and is_expr(v.get("i")):
        yield "var", v["i"]


def all_exprs(s):
    for st in stmts(s):
        for _, e in stmt_exprs(st):
            yield st, e


# ------------------------------------------------------------------------------------------


class Function:
    def __init__(self, d, unit):
        self.d = d
        self.unit = unit
        self.q = d["q"]
        self.file = d["file"]
        self.line = d["l"]
        self.end = d["end"]
        self.params = d.get("params", [])
        self.body = d.get("body")
        self.attrs = d.get("attrs", [])
        self.cls = d.get("cls")
        self.degraded = d.get("degraded") or (d.get("recovery") and "recovery expression")
        self._simplified = False

    @property
    def where(self):
        return "%s:%d" % (self.file, self.line)

    def simp(self):
        if not self._simplified:
            for st in stmts(self.body):
                for k in ("c", "e", "v", "i", "range", "inc"):
                    if is_expr(st.get(k)):
                        st[k] = simplify(st[k])
                v = st.get("var")
                if isinstance(v, dict) and is_expr(v.get("i")):
                    v["i"] = simplify(v["i"])
            for i in self.d.get("inits", []) or []:
                if is_expr(i.get("i")):
                    i["i"] = simplify(i["i"])
            self._simplified = True
        return self

    def __repr__(self):
        return "<fn %s %s>" % (self.q, self.where)


def _only_leaves_by_return_or_throw(s):
    """Statement s always ends in return/throw and contains no break/continue that could bind to an outer loop."""
    if not isinstance(s, dict):
        return False
    if any(x.get("k") in ("break", "continue", "goto") for x in stmts(s)):
        return False
    k = s.get("k")
    if k in ("ret", "throw"):
        return True
    if k == "seq":
        items = [x for x in s.get("s", []) if isinstance(x, dict)]
        return bool(items) and _only_leaves_by_return_or_throw(items[-1])
    return False


def _subst_params(node, mapping):
    if is_expr(node):
        if node[0] == "param" and len(node) > 1 and node[1] in mapping:
            return copy.deepcopy(mapping[node[1]])
        return [node[0]] + [_subst_params(x, mapping) if isinstance(x, (list, dict)) else x for x in node[1:]]
    if isinstance(node, dict):
        return {k: (_subst_params(v, mapping) if isinstance(v, (list, dict)) else v) for k, v in node.items()}
    if isinstance(node, list):
        return [_subst_params(x, mapping) if isinstance(x, (list, dict)) else x for x in node]
    return node


def _replace_returns(node, value, by):
    """Copy of statement tree `node` with every `return <value>` replaced by a copy of statement `by`."""
    if isinstance(node, dict):
        if node.get("k") == "ret" and is_expr(node.get("v")) and node["v"][0] == "bool" and bool(node["v"][1]) == value:
            return copy.deepcopy(by)
        return {k: (_replace_returns(v, value, by) if isinstance(v, (dict, list)) and not is_expr(v) else v) for k, v in node.items()}
    if isinstance(node, list):
        return [_replace_returns(x, value, by) if isinstance(x, (dict, list)) and not is_expr(x) else x for x in node]
    return node


def inline_predicate_ifs(fn, program):
    """`const auto pred = [&](T x) { for (..) if (hit) return true; return false; };  if (pred(a)) return R;`
    is rewritten to the lambda's body with `return true` replaced by `return R;` (and the dual `if (!all(a)) ..` for a
    body ending in `return true`): a search loop moved into a local predicate lambda analyses like the inline loop.
    Only when the branch leaves the function (return/throw), there is no else, every exit of the lambda is a bool
    literal, the last statement is the opposite literal and the arguments are side-effect free names/members."""
    if getattr(fn, "_pred_inlined", False) or not isinstance(fn.body, dict):
        return fn
    fn._pred_inlined = True

    def lam_of(c):
        neg = False
        while is_expr(c) and c[0] in ("paren",):
            c = c[1]
        if is_expr(c) and c[0] == "u" and c[1] == "!" and len(c) > 2:
            neg, c = True, c[2]
            while is_expr(c) and c[0] in ("paren",):
                c = c[1]
        if is_expr(c) and c[0] == "opcall" and c[1] == "()" and isinstance(c[2], str) and "::lambda@" in c[2] and len(c) > 3 and is_expr(c[3]) and c[3][0] == "local":
            return neg, c
        return None, None

    def pure(a):
        return is_expr(a) and all(x[0] in ("local", "param", ".", "this", "u", "int", "bool", "enum", "cast", "mcall") for x in subexprs(a)) and \
            not any(x[0] == "mcall" and not str(x[1]).rsplit("::", 1)[-1] in ("get", "operator*", "operator->") for x in subexprs(a)) and \
            not any(x[0] == "u" and x[1] not in ("*", "&") for x in subexprs(a))

    def rewrite(s):
        if not isinstance(s, dict):
            return s
        for k in ("t", "e", "b", "init"):
            if isinstance(s.get(k), dict):
                s[k] = rewrite(s[k])
        for k in ("s", "h"):
            if isinstance(s.get(k), list):
                s[k] = [rewrite(x) for x in s[k]]
        if s.get("k") != "if" or s.get("e") is not None or isinstance(s.get("init"), dict) or s.get("var"):
            return s
        neg, call = lam_of(s.get("c"))
        if call is None or not _only_leaves_by_return_or_throw(s.get("t")):
            return s
        lf = program.funcs.get(call[2], [])
        if len(lf) != 1 or not isinstance(lf[0].body, dict) or lf[0].body.get("k") != "seq" or lf[0].d.get("goto"):
            return s
        lam = lf[0]
        items = [x for x in lam.body.get("s", []) if isinstance(x, dict)]
        if not items or items[-1].get("k") != "ret" or not (is_expr(items[-1].get("v")) and items[-1]["v"][0] == "bool"):
            return s
        last = bool(items[-1]["v"][1])
        rets = [x for x in stmts(lam.body) if x.get("k") == "ret"]
        if any(not (is_expr(r.get("v")) and r["v"][0] == "bool") for r in rets) or any(x.get("k") == "throw" for x in stmts(lam.body)):
            return s
        if any(bool(r["v"][1]) == last for r in rets if r is not items[-1]):
            return s
        fire = not neg          # the branch runs when the predicate is `fire`
        if last == fire:
            return s            # the branch would run on fall-through: not the search-loop shape
        args = call_args(call)
        if len(args) != len(lam.params) or not all(pure(a) for a in args):
            return s
        mapping = {p["n"]: a for p, a in zip(lam.params, args)}
        body = _subst_params(copy.deepcopy(items[:-1]), mapping)
        body = _replace_returns(body, fire, s["t"])
        return {"k": "seq", "l": s.get("l"), "s": body, "inlined": call[2]}

    fn.body = rewrite(fn.body)
    return fn


class Program:
    """Facts of a set of units, indexed by qualified name."""

    def __init__(self, units, roots=None):
        self.units = [facts.unit_path(u) for u in units]
        self.paths = {}
        self.funcs = {}
        self.records = {}
        self.enums = {}
        self.consts = {}
        self.errors = []
        self.data = {}
        if roots is None:
            self.paths = facts.extract_many(self.units)
        else:
            for u in self.units:
                self.paths[u] = facts.extract_unit(u, roots=roots[1], flags=roots[0])
        for u in self.units:
            d = facts.load_fact_file(self.paths[u])
            self.data[u] = d
            for e in d["errors"]:
                self.errors.append((u, e))
            seen_here = set()
            for f in d["functions"]:
                key = (f["q"], f["file"], f["l"])
                if key in seen_here:
                    continue
                seen_here.add(key)
                lst = self.funcs.setdefault(f["q"], [])
                if any(o.file == f["file"] and o.line == f["l"] for o in lst):
                    # same definition seen from another unit: prefer the non-dependent one
                    continue
                lst.append(Function(f, u))
            for r in d["records"]:
                self.records.setdefault(r["q"], r)
            for en in d["enums"]:
                self.enums.setdefault(en["q"], en)
            self.consts.update(d.get("consts", {}))

    def fns(self, q):
        return [inline_predicate_ifs(f.simp(), self) for f in self.funcs.get(q, [])]

    def fn(self, q, nparams=None, file=None, param_types=None):
        c = self.fns(q)
        if nparams is not None:
            c = [f for f in c if len(f.params) == nparams]
        if file is not None:
            c = [f for f in c if f.file.endswith(file)]
        if param_types is not None:
            c = [f for f in c if all(pt in f.params[i]["ty"] for i, pt in enumerate(param_types) if i < len(f.params))]
        if not c:
            raise AnalysisBroken("anchor function %s not found in units %s" % (q, [os.path.relpath(u, facts.REPO) for u in self.units]))
        if len(c) > 1:
            raise AnalysisBroken("anchor function %s is ambiguous (%d definitions: %s)" % (q, len(c), [f.where for f in c]))
        f = c[0]
        if f.degraded:
            raise AnalysisBroken("anchor function %s is degraded by a front-end error: %s" % (q, f.degraded))
        return f

    def record(self, q):
        if q not in self.records:
            raise AnalysisBroken("record %s not found" % q)
        return self.records[q]

    def enum(self, q):
        if q not in self.enums:
            raise AnalysisBroken("enum %s not found" % q)
        return self.enums[q]

    def const(self, q):
        if q not in self.consts:
            raise AnalysisBroken("constant %s not found" % q)
        v = self.consts[q]
        return int(v)

    def field(self, rec, name):
        for f in self.record(rec)["fields"]:
            if f["n"] == name:
                return f
        for f in self.record(rec).get("statics", []):
            if f["n"] == name:
                return f
        raise AnalysisBroken("field %s::%s not found" % (rec, name))
