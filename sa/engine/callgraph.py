"""Whole-program call graph and field-effect index over all repository units (CALLGRAPH rules).

A compact per-unit summary (callees with lines, function references, lambdas, virtual calls, opaque
calls, field writes, mutating member calls on fields) is cached next to each fact file; the global
graph is the union.  Virtual calls are expanded to every overrider found in the program; a lambda
is treated as called by the function that creates it; a function referenced as a value (callback)
is treated as called by the referencing function.  Calls through std::function / function
pointers are *opaque* and are reported so that reachability rules can fail closed.
"""
import json
import os
from collections import defaultdict, deque

from . import facts
from .ir import is_expr, callee, subexprs, stmts, stmt_exprs, simplify
from .paths import ASSIGN_OPS

OPAQUE = ("std::function::operator()", "std::_Bind::operator()", "std::move_only_function::operator()")


def _field_root(e):
    """Fields on the access path of an lvalue expression, outermost first."""
    out = []
    while is_expr(e):
        if e[0] == "." and len(e) >= 3:
            out.append(e[2])
            e = e[1]
        elif e[0] == "idx":
            e = e[1]
        elif e[0] == "u" and e[1] == "*":
            e = e[2]
        elif e[0] in ("mcall", "vcall") and len(e) >= 3:
            # accessor call such as m_chain.Tip()->nStatus : continue into the object
            e = e[2]
        elif e[0] == "cast":
            e = e[2]
        else:
            break
    return out


def summarize(data):
    out = {}
    for f in data["functions"]:
        key = "%s@%s:%d" % (f["q"], f["file"], f["l"])
        info = {"q": f["q"], "file": f["file"], "l": f["l"], "calls": {}, "vcalls": {}, "refs": {}, "lambdas": [], "opaque": [],
                "writes": {}, "fcalls": {}, "ov": f.get("ov", []), "cls": f.get("cls"), "attrs": f.get("attrs", []),
                "const": bool(f.get("const")), "dep": bool(f.get("dep")), "nparams": len(f.get("params", []))}
        exprs = []
        for st in stmts(f.get("body")):
            for _, e in stmt_exprs(st):
                exprs.append((st.get("l"), e))
        for ini in f.get("inits", []) or []:
            if is_expr(ini.get("i")):
                exprs.append((ini.get("l"), ini["i"]))
                if ini.get("f"):
                    info["writes"].setdefault(ini["f"], []).append(ini.get("l"))
        for line, e in exprs:
            for x in subexprs(e):
                t = x[0]
                c = callee(x)
                if c is not None:
                    if c in OPAQUE:
                        info["opaque"].append(line)
                    if t == "vcall":
                        info["vcalls"].setdefault(c, []).append(line)
                    info["calls"].setdefault(c, []).append(line)
                    if t in ("mcall", "vcall") and is_expr(x[2]):
                        fr = _field_root(x[2])
                        if fr and x[2][0] == ".":
                            info["fcalls"].setdefault(fr[0] + "|" + c, []).append(line)
                elif t == "icall":
                    info["opaque"].append(line)
                elif t == "fn":
                    info["refs"].setdefault(x[1], []).append(line)
                elif t == "method":
                    info["refs"].setdefault(x[1], []).append(line)
                elif t == "lambda":
                    info["lambdas"].append(x[1])
                elif t == "new" and len(x) > 1:
                    pass
                if t == "b" and x[1] in ASSIGN_OPS and is_expr(x[2]):
                    for i, fq in enumerate(_field_root(x[2])[:1]):
                        info["writes"].setdefault(fq, []).append(line)
                elif t == "u" and x[1] in ("++", "--", "post++", "post--") and is_expr(x[2]):
                    for fq in _field_root(x[2])[:1]:
                        info["writes"].setdefault(fq, []).append(line)
        out[key] = info
    return out


def unit_summary(fact_path):
    cg = fact_path + ".cg"
    if os.path.exists(cg) and os.path.getmtime(cg) >= os.path.getmtime(fact_path):
        try:
            return json.load(open(cg))
        except ValueError:
            pass
    data = json.load(open(fact_path))
    s = summarize(data)
    tmp = "%s.tmp.%d" % (cg, os.getpid())
    with open(tmp, "w") as f:
        json.dump(s, f)
    os.replace(tmp, cg)
    return s


class CallGraph:
    def __init__(self, summaries):
        self.funcs = {}                       # key -> info
        self.by_q = defaultdict(list)         # q -> [info]
        for s in summaries:
            for k, info in s.items():
                if k in self.funcs:
                    # union of call edges (template seen from several units)
                    old = self.funcs[k]
                    for fld in ("calls", "vcalls", "refs", "writes", "fcalls"):
                        for a, b in info[fld].items():
                            old[fld].setdefault(a, b)
                    continue
                self.funcs[k] = info
                self.by_q[info["q"]].append(info)
        self.overriders = defaultdict(set)
        for info in self.funcs.values():
            for base in info.get("ov", []):
                self.overriders[base].add(info["q"])
        # transitive closure of overriders
        changed = True
        while changed:
            changed = False
            for b, subs in list(self.overriders.items()):
                for s in list(subs):
                    for s2 in self.overriders.get(s, ()):
                        if s2 not in subs:
                            subs.add(s2)
                            changed = True
        self.succ = defaultdict(set)
        self.pred = defaultdict(set)
        self.edge_lines = {}
        for info in self.funcs.values():
            q = info["q"]
            for c, lines in info["calls"].items():
                self._edge(q, c, lines)
                if c in info["vcalls"]:
                    for o in self.overriders.get(c, ()):
                        self._edge(q, o, lines)
            for c, lines in info["refs"].items():
                self._edge(q, c, lines)
                for o in self.overriders.get(c, ()):
                    self._edge(q, o, lines)
            for lq in info["lambdas"]:
                self._edge(q, lq, [info["l"]])

    def _edge(self, a, b, lines):
        self.succ[a].add(b)
        self.pred[b].add(a)
        self.edge_lines.setdefault((a, b), lines)

    def callers(self, q):
        return sorted(self.pred.get(q, ()))

    def callees(self, q):
        return sorted(self.succ.get(q, ()))

    def defined(self, q):
        return q in self.by_q

    def reach(self, starts, stop=()):
        """All functions reachable from `starts` (names), not expanding through `stop`."""
        seen = {}
        dq = deque()
        for s in starts:
            if s not in seen:
                seen[s] = None
                dq.append(s)
        while dq:
            a = dq.popleft()
            if a in stop:
                continue
            for b in self.succ.get(a, ()):
                if b not in seen:
                    seen[b] = a
                    dq.append(b)
        return seen

    def path(self, seen, target):
        p = [target]
        while seen.get(p[-1]) is not None:
            p.append(seen[p[-1]])
        return list(reversed(p))

    def writers(self, field):
        out = []
        for info in self.funcs.values():
            if field in info["writes"]:
                out.append((info["q"], info["file"], info["writes"][field]))
        return sorted(out)

    def field_calls(self, field, method=None):
        out = []
        for info in self.funcs.values():
            for k, lines in info["fcalls"].items():
                f, m = k.split("|", 1)
                if f == field and (method is None or m == method or m.endswith("::" + method)):
                    out.append((info["q"], info["file"], m, lines))
        return sorted(out)

    def call_sites(self, callee_q):
        out = []
        for info in self.funcs.values():
            if callee_q in info["calls"]:
                out.append((info["q"], info["file"], info["calls"][callee_q]))
        return sorted(out)

    def opaque_in(self, qs):
        out = []
        for q in qs:
            for info in self.by_q.get(q, ()):
                if info["opaque"]:
                    out.append((q, info["file"], info["opaque"]))
        return out


_cg = None


def load_all():
    global _cg
    if _cg is None:
        paths = facts.extract_many(facts.all_units())
        from concurrent.futures import ProcessPoolExecutor
        plist = [paths[u] for u in sorted(paths)]
        need = [p for p in plist if not (os.path.exists(p + ".cg") and os.path.getmtime(p + ".cg") >= os.path.getmtime(p))]
        if len(need) > 8:
            with ProcessPoolExecutor(max_workers=facts.JOBS) as ex:
                list(ex.map(unit_summary, need))
        _cg = CallGraph([unit_summary(p) for p in plist])
        _cg.nunits = len(plist)
    return _cg


def region_calls(stmt_or_expr_list):
    """Callee names (with virtual flag) inside a list of statements / expressions (a code region)."""
    out = {}
    for it in stmt_or_expr_list:
        if isinstance(it, dict):
            for st in stmts(it):
                for _, e in stmt_exprs(st):
                    _collect(e, st.get("l"), out)
        elif is_expr(it):
            _collect(it, None, out)
    return out


def _collect(e, line, out):
    for x in subexprs(e):
        c = callee(x)
        if c is not None:
            out.setdefault(c, []).append((line, x[0] == "vcall"))
        elif x[0] in ("fn", "method"):
            out.setdefault(x[1], []).append((line, False))
        elif x[0] == "lambda":
            out.setdefault(x[1], []).append((line, False))
